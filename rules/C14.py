"""C14 -- degree-of-freedom bookkeeping is a lossless partition (proof by construction, checked structurally).

The statement follows from these facts, each decided on the source of FunctionSpace.DofManager and
SparseMatrixAssembler by a mask-provenance abstract interpretation (values: the constrained mask M, its
complement ~M, the id table, selections of the id table by a mask, the dof->unknown map):

  O1  isUnknown is the complement of isBc and both have the field shape; isBc is only set True at
      (node set, component) pairs of the given essential boundary conditions;
  O2  ids enumerates all dofs in field shape; unknownIndices = ids[~M], bcIndices = ids[M];
  O3  dofToUnknown is -1 everywhere except at unknownIndices, where it is arange(number of unknowns);
  O4  create_field scatters onto zeros of the mask shape with exactly M (boundary values) and ~M (unknowns);
      get_bc_values / get_unknown_values gather with the same masks; sizes are sums of the same masks;
  O5  slice_unknowns_with_dof_indices composes ~M and the map on the same slice;
  O6  the Hessian coordinate builder and the Hessian mask iterate the same connectivity; the mask is False
      exactly on rows/columns flagged by M and the coordinates come from ~M through the map; counts agree
      (n^2 entries per element); the assembler pairs kValues[mask] with those coordinates in an
      (nUnknowns x nUnknowns) matrix.
"""
from __future__ import annotations

import ast

from optilint.cfg import cfg_of
from optilint.model import dotted, walk_local
from optilint.core import Incomplete
from .common import src, expand, same, canon, calls_in, single_def, def_value, const_value

LEVEL = "other"
RULE_TEXT = "obligations = (DofManager statement role x required mask provenance); distinct = distinct (rule, method, construct)"
EXPLANATION = ("Mask-provenance analysis of FunctionSpace.DofManager and SparseMatrixAssembler.assemble_sparse_stiffness_matrix: each "
               "attribute and method is checked to use the constrained mask, its complement, the id table and the dof->unknown map "
               "in the roles from which the partition / round-trip / slicing / assembly statements follow. NumPy indexing semantics "
               "are trusted, not mechanised.")

FS = "optimism.FunctionSpace"
SA = "optimism.SparseMatrixAssembler"


def run(ctx):
    ctx.need_module(FS)
    ctx.need_module(SA)
    cls = ctx.need(f"{FS}:DofManager")
    init = ctx.need(f"{FS}:DofManager.__init__")
    ctx.guard(o1_o3, ctx, init)
    ctx.guard(o4_o5, ctx, cls)
    ctx.guard(o6, ctx, cls, init)
    ctx.trust("numpy boolean-mask indexing enumerates True entries in row-major order; a[mask] = v and a.at[mask].set(v) scatter in the same order")
    ctx.assume("element stiffness blocks are symmetric (row/column roles of the COO coordinates may be exchanged)")


def _self_assigns(scope):
    """attribute -> list of (stmt, value) for `self.attr = value` and `self.a, self.b = value`"""
    out = {}
    selfn = scope.params()[0]
    for st in walk_local(scope.node):
        if isinstance(st, ast.Assign):
            for t in st.targets:
                if isinstance(t, ast.Attribute) and isinstance(t.value, ast.Name) and t.value.id == selfn:
                    out.setdefault(t.attr, []).append((st, st.value, None))
                elif isinstance(t, ast.Tuple):
                    for i, e in enumerate(t.elts):
                        if isinstance(e, ast.Attribute) and isinstance(e.value, ast.Name) and e.value.id == selfn:
                            out.setdefault(e.attr, []).append((st, st.value, i))
    return out


def _is_complement(e, of):
    s = canon(e)
    return s in (f"(~{of})".replace("(~", "~").replace(")", ""), ) or src(e) in (f"~{of}", f"onp.logical_not({of})", f"np.logical_not({of})",
                                                                                   f"onp.invert({of})", f"np.invert({of})", f"{of} == False")


def o1_o3(ctx, init):
    rule = "O1-O3/T5-masks-ids-map"
    cfg = cfg_of(init)
    A = _self_assigns(init)
    s = init.params()[0]

    def one(attr):
        lst = A.get(attr, [])
        if len(lst) != 1:
            ctx.refuted(rule, init, lst[0][0] if lst else None, construct=f"{attr}:defined-once",
                        detail=f"self.{attr} is assigned {len(lst)} times in the constructor (exactly one definition is required)")
            return None
        return lst[0]
    # isBc: local boolean array of field shape, all False, set True only at ebc entries
    d = one("isBc")
    if d:
        st, v, _ = d
        node = cfg.node_for(st)
        ve = v
        local = v.id if isinstance(v, ast.Name) else None
        ok_init = False
        ok_sets = True
        n_sets = 0
        if local:
            defs = [n for n in cfg.nodes if n.kind == "stmt" and isinstance(n.ast, ast.Assign) and any(isinstance(t, ast.Name) and t.id == local for t in n.ast.targets)]
            ok_init = len(defs) == 1 and same(defs[0].ast.value, f"onp.full({s}.fieldShape, False, dtype=bool)")
            for n in cfg.nodes:
                if n.kind == "stmt" and isinstance(n.ast, ast.Assign) and isinstance(n.ast.targets[0], ast.Subscript) \
                        and isinstance(n.ast.targets[0].value, ast.Name) and n.ast.targets[0].value.id == local:
                    n_sets += 1
                    idx = n.ast.targets[0].slice
                    good = isinstance(idx, ast.Tuple) and len(idx.elts) == 2 and "nodeSets" in src(idx.elts[0]) and src(idx.elts[1]).endswith(".component") \
                        and isinstance(n.ast.value, ast.Constant) and n.ast.value.value is True and bool(n.loops)
                    # same loop variable in both index parts
                    if good:
                        v0 = src(idx.elts[0])
                        lv = src(idx.elts[1]).split(".")[0]
                        good = f"{lv}.nodeSet" in v0
                    ok_sets = ok_sets and good
        ctx.decide(rule, ok_init, init, st, construct="isBc:starts-all-False-in-field-shape", detail="isBc = full(fieldShape, False)",
                   bad_detail="the constrained mask does not start as an all-False boolean array of the field shape")
        ctx.decide(rule, ok_sets and n_sets == 1, init, st, construct="isBc:set-only-at-essential-bcs",
                   detail="isBc[nodeSets[ebc.nodeSet], ebc.component] = True for each essential BC",
                   bad_detail="the constrained mask is not set True exactly at (node set of the BC, component of the same BC) pairs")
    d = one("isUnknown")
    if d:
        st, v, _ = d
        ok = _is_complement(v, f"{s}.isBc")
        ctx.decide(rule, ok, init, st, construct="isUnknown:complement-of-isBc", detail=src(st),
                   bad_detail=f"`{src(st)}`: the unknown mask must be the complement of the constrained mask (otherwise dofs are lost or counted twice)")
    d = one("fieldShape")
    if d:
        st, v, _ = d
        ok = isinstance(v, ast.Tuple) and len(v.elts) == 2 and "num_nodes" in src(v.elts[0]) and src(v.elts[1]) == init.params()[2]
        ctx.decide(rule, ok, init, st, construct="fieldShape:(nodes, dim)", detail=src(st), bad_detail=f"`{src(st)}` is not (number of nodes, fields per node)")
    d = one("ids")
    if d:
        st, v, _ = d
        ok = same(v, f"onp.arange({s}.isBc.size).reshape({s}.fieldShape)")
        ctx.decide(rule, ok, init, st, construct="ids:enumerates-all-dofs-in-field-shape", detail=src(st),
                   bad_detail=f"`{src(st)}`: the id table must be arange(number of dofs) in field shape")
    for attr, mask in (("unknownIndices", "isUnknown"), ("bcIndices", "isBc")):
        d = one(attr)
        if d:
            st, v, _ = d
            ok = same(v, f"{s}.ids[{s}.{mask}]")
            ctx.decide(rule, ok, init, st, construct=f"{attr}:ids-selected-by-{mask}", detail=src(st),
                       bad_detail=f"`{src(st)}`: {attr} must be the ids selected by {mask}")
    d = one("dofToUnknown")
    if d:
        st, v, _ = d
        node = cfg.node_for(st)
        local = v.id if isinstance(v, ast.Name) else None
        ok_default = ok_fill = False
        n_fill = 0
        if local and node:
            # default: every definition chain ends in ones(size)*-1 / full(size, -1)
            # follow plain name copies back to the array creation (in-place subscript stores do not redefine the name)
            cur = local
            e = v
            for _ in range(4):
                strong = [n for n in cfg.nodes if n.kind == "stmt" and isinstance(n.ast, ast.Assign)
                          and any(isinstance(t, ast.Name) and t.id == cur for t in n.ast.targets)]
                if len(strong) != 1:
                    break
                e = strong[0].ast.value
                if isinstance(e, ast.Name):
                    cur = e.id
                    continue
                break
            ok_default = same(e, f"onp.ones({s}.isBc.size, dtype=int) * -1") or same(e, f"-onp.ones({s}.isBc.size, dtype=int)") or \
                same(e, f"onp.full({s}.isBc.size, -1, dtype=int)") or same(e, f"onp.full({s}.isBc.size, -1)")
            aliases = {local}
            for n in cfg.nodes:
                if n.kind == "stmt" and isinstance(n.ast, ast.Assign) and isinstance(n.ast.targets[0], ast.Name) and isinstance(n.ast.value, ast.Name) \
                        and n.ast.targets[0].id == local:
                    aliases.add(n.ast.value.id)
            for n in cfg.nodes:
                if n.kind == "stmt" and isinstance(n.ast, ast.Assign) and isinstance(n.ast.targets[0], ast.Subscript) \
                        and isinstance(n.ast.targets[0].value, ast.Name) and n.ast.targets[0].value.id in aliases:
                    n_fill += 1
                    ok_fill = same(n.ast.targets[0].slice, f"{s}.unknownIndices") and same(n.ast.value, f"onp.arange({s}.unknownIndices.size)")
        ctx.decide(rule, ok_default, init, st, construct="dofToUnknown:default-minus-one", detail="-1 for every dof before filling",
                   bad_detail="the dof->unknown map does not start as -1 for every dof (constrained dofs would alias a real unknown)")
        ctx.decide(rule, ok_fill and n_fill == 1, init, st, construct="dofToUnknown:arange-at-unknownIndices",
                   detail="map[unknownIndices] = arange(number of unknowns)",
                   bad_detail="the dof->unknown map is not filled with arange(number of unknowns) exactly at unknownIndices")


def o4_o5(ctx, cls):
    rule = "O4-O5/T5-scatter-gather-slice"
    m = {c.name: c for c in cls.children if c.kind == "function"}
    def need(name):
        if name not in m:
            raise Incomplete(f"DofManager.{name} not found")
        ctx.touch(m[name])
        return m[name]
    cf = need("create_field")
    s = cf.params()[0]
    uu, ubc = cf.params()[1], cf.params()[2]
    cfgc = cfg_of(cf)
    r = cfgc.returns()
    e = expand(cfgc, r[0], r[0].ast.value) if r else None
    want1 = f"np.zeros({s}.isBc.shape).at[{s}.isBc].set({ubc}).at[{s}.isUnknown].set({uu})"
    want2 = f"np.zeros({s}.isBc.shape).at[{s}.isUnknown].set({uu}).at[{s}.isBc].set({ubc})"
    ok = e is not None and (same(e, want1) or same(e, want2))
    ctx.decide(rule, ok, cf, r[0].ast if r else None, construct="create_field:scatter-with-both-masks",
               detail="zeros(mask shape).at[isBc].set(Ubc).at[isUnknown].set(Uu)",
               bad_detail=f"create_field builds `{src(e)}`; it must scatter the boundary values with isBc and the unknowns with isUnknown onto zeros of the mask shape")
    for name, mask in (("get_bc_values", "isBc"), ("get_unknown_values", "isUnknown")):
        g = need(name)
        rr = g.returns()
        ok = len(rr) == 1 and same(rr[0], f"{g.params()[1]}[{g.params()[0]}.{mask}]")
        ctx.decide(rule, ok, g, rr[0] if rr else None, construct=f"{name}:gathers-with-{mask}", detail=src(rr[0]) if rr else "",
                   bad_detail=f"{name} returns `{src(rr[0]) if rr else '?'}`; it must gather with {mask} (the mask create_field scatters with)")
    for name, mask in (("get_bc_size", "isBc"), ("get_unknown_size", "isUnknown")):
        g = need(name)
        rr = g.returns()
        ok = len(rr) == 1 and (same(rr[0], f"np.sum({g.params()[0]}.{mask}).item()") or same(rr[0], f"int(np.sum({g.params()[0]}.{mask}))")
                               or same(rr[0], f"onp.sum({g.params()[0]}.{mask}).item()") or same(rr[0], f"np.sum({g.params()[0]}.{mask})"))
        ctx.decide(rule, ok, g, rr[0] if rr else None, construct=f"{name}:counts-{mask}", detail=src(rr[0]) if rr else "",
                   bad_detail=f"{name} returns `{src(rr[0]) if rr else '?'}`; it must count the True entries of {mask}")
    sl = need("slice_unknowns_with_dof_indices")
    s = sl.params()[0]
    uu, ds = sl.params()[1], sl.params()[2]
    cfgs = cfg_of(sl)
    r = cfgs.returns()
    e = expand(cfgs, r[0], r[0].ast.value) if r else None
    want = f"{uu}[{s}.dofToUnknown.reshape({s}.fieldShape)[{ds}][{s}.isUnknown[{ds}]]]"
    ok = e is not None and same(e, want)
    ctx.decide(rule, ok, sl, r[0].ast if r else None, construct="slice:map-and-mask-on-same-slice",
               detail="Uu[ map.reshape(fieldShape)[slice][ isUnknown[slice] ] ]",
               bad_detail=f"slice_unknowns_with_dof_indices returns `{src(e)}`; expected the dof->unknown map and the unknown mask restricted by the same slice")


def o6(ctx, cls, init):
    rule = "O6/T6-hessian-coordinates-and-mask"
    m = {c.name: c for c in cls.children if c.kind == "function"}
    hc, hm = m.get("_make_hessian_coordinates"), m.get("_make_hessian_bc_mask")
    if hc is None or hm is None:
        raise Incomplete("Hessian coordinate/mask builders not found")
    ctx.touch(hc)
    ctx.touch(hm)
    # both are fed the same connectivity in __init__
    s = init.params()[0]
    calls = {}
    for c in calls_in(init):
        if isinstance(c.func, ast.Attribute) and c.func.attr in ("_make_hessian_coordinates", "_make_hessian_bc_mask"):
            calls[c.func.attr] = c
    if len(calls) != 2:
        ctx.refuted(rule, init, None, construct="both-builders-called", detail="the constructor does not build both the Hessian coordinates and the Hessian mask")
    else:
        a, b = src(calls["_make_hessian_coordinates"].args[0]), src(calls["_make_hessian_bc_mask"].args[0])
        strip = lambda t: t.replace("onp.array(", "").replace("np.array(", "").rstrip(")") if t.startswith(("onp.array(", "np.array(")) else t
        ok = strip(a) == strip(b) and strip(a).endswith("mesh.conns")
        ctx.decide(rule, ok, init, calls["_make_hessian_bc_mask"], construct="same-connectivity",
                   detail=f"coordinates from {a}, mask from {b}", bad_detail=f"Hessian coordinates are built from `{a}` but the mask from `{b}`")
    A = _self_assigns(init)
    for attr, idx in (("HessRowCoords", 0), ("HessColCoords", 1)):
        lst = A.get(attr, [])
        ok = len(lst) == 1 and lst[0][2] == idx and "_make_hessian_coordinates" in src(lst[0][1])
        ctx.decide(rule, ok, init, lst[0][0] if lst else None, construct=f"{attr}:result-{idx}", detail=f"self.{attr} = result[{idx}] of _make_hessian_coordinates",
                   bad_detail=f"self.{attr} is not result {idx} of _make_hessian_coordinates")
    lst = A.get("hessian_bc_mask", [])
    ctx.decide(rule, len(lst) == 1 and "_make_hessian_bc_mask" in src(lst[0][1]), init, lst[0][0] if lst else None,
               construct="hessian_bc_mask:result", detail="self.hessian_bc_mask = _make_hessian_bc_mask(conns)", bad_detail="self.hessian_bc_mask is not the result of _make_hessian_bc_mask")
    # mask builder: True everywhere, then rows and columns flagged by isBc of the element's nodes set False
    sm = hm.params()[0]
    conn = hm.params()[1]
    cfgm = cfg_of(hm)
    stores = [n for n in cfgm.nodes if n.kind == "stmt" and isinstance(n.ast, ast.Assign) and isinstance(n.ast.targets[0], ast.Subscript) and n.loops]
    loopvars = None
    for n in cfgm.nodes:
        if n.kind == "for" and isinstance(n.ast.target, ast.Tuple) and len(n.ast.target.elts) == 2:
            loopvars = (n.ast.target.elts[0].id, n.ast.target.elts[1].id, src(n.ast.iter))
    if loopvars is None or len(stores) == 0:
        ctx.undecided(rule, hm, None, construct="mask:stores", detail=f"{len(stores)} stores in the element loop")
    else:
        e_, nodes_, it = loopvars
        ctx.decide(rule, it == f"enumerate({conn})", hm, None, construct="mask:iterates-given-connectivity", detail=it,
                   bad_detail=f"mask builder iterates `{it}`, not the connectivity it was given")
        forms = set()
        for n in stores:
            t = n.ast.targets[0]
            idx = [src(expand(cfgm, n, x)) if not isinstance(x, ast.Slice) else ":" for x in (t.slice.elts if isinstance(t.slice, ast.Tuple) else [t.slice])]
            forms.add(tuple(idx))
            okv = isinstance(n.ast.value, ast.Constant) and n.ast.value.value is False
            ctx.decide(rule, okv, hm, n.ast, construct=f"mask:store-False:{src(t)[:40]}", detail=src(n.ast), bad_detail=f"`{src(n.ast)}` does not clear mask entries")
        flag = f"{sm}.isBc[{nodes_}, :].ravel()"
        want = {(e_, flag, ":"), (e_, ":", flag)}
        # every element is processed: no store is guarded by a condition and the loop has no continue/break
        guarded = [n for n in stores if any(c.kind == "cond" and c.loops for (c, l) in cfgm.edge_facts(n))]
        jumps = [n for n in cfgm.nodes if n.kind == "stmt" and isinstance(n.ast, (ast.Continue, ast.Break)) and n.loops]
        ctx.decide(rule, not guarded and not jumps, hm, (guarded or jumps or stores)[0].ast, construct="mask:every-element-processed",
                   detail="mask stores are unconditional inside the element loop",
                   bad_detail="the Hessian mask is not updated for every element (a store is conditional or the loop skips elements): "
                              "mask and coordinates would disagree for the skipped elements")
        verdict = True if forms == want else (False if forms < want or all(len(f) == 3 for f in forms) else None)
        ctx.decide(rule, verdict, hm, stores[0].ast, construct="mask:rows-and-columns-of-constrained-dofs",
                   detail="mask[e, isBc(e), :] = mask[e, :, isBc(e)] = False",
                   bad_detail=f"mask builder clears {sorted(forms)}; expected rows and columns flagged by isBc of the element's own nodes: {sorted(want)}")
        # initial value True with shape (nElements, nDofPerElement, nDofPerElement)
        mname = stores[0].ast.targets[0].value.id if isinstance(stores[0].ast.targets[0].value, ast.Name) else None
        dd = [n for n in cfgm.nodes if n.kind == "stmt" and isinstance(n.ast, ast.Assign) and isinstance(n.ast.targets[0], ast.Name) and n.ast.targets[0].id == mname]
        ok = len(dd) == 1 and isinstance(dd[0].ast.value, ast.Call) and (dotted(dd[0].ast.value.func) or "").endswith("full") and \
            len(dd[0].ast.value.args) >= 2 and isinstance(dd[0].ast.value.args[1], ast.Constant) and dd[0].ast.value.args[1].value is True
        if ok:
            shp = dd[0].ast.value.args[0]
            ok = isinstance(shp, ast.Tuple) and len(shp.elts) == 3 and same(shp.elts[1], shp.elts[2])
            if ok:
                # first entry: number of elements (conns.shape[0], possibly via `nEl, nNodes = conns.shape`)
                def from_shape(e_, k):
                    if same(e_, f"{conn}.shape[{k}]"):
                        return True
                    if isinstance(e_, ast.Name):
                        for n2 in cfgm.nodes:
                            if n2.kind == "stmt" and isinstance(n2.ast, ast.Assign) and isinstance(n2.ast.targets[0], ast.Tuple) \
                                    and same(n2.ast.value, f"{conn}.shape"):
                                names = [t.id if isinstance(t, ast.Name) else None for t in n2.ast.targets[0].elts]
                                return k < len(names) and names[k] == e_.id
                    return False
                ok = from_shape(shp.elts[0], 0)
                dpe = expand(cfgm, dd[0], shp.elts[1])
                fac = [dpe.left, dpe.right] if isinstance(dpe, ast.BinOp) and isinstance(dpe.op, ast.Mult) else []
                ok = ok and len(fac) == 2 and any(from_shape(f_, 1) for f_ in fac) and any(same(f_, f"{sm}.ids.shape[1]") for f_ in fac)
        ctx.decide(rule, ok, hm, dd[0].ast if dd else None, construct="mask:starts-all-True-(nEl,nDof,nDof)", detail="full((nEl, nDofPerEl, nDofPerEl), True)",
                   bad_detail="the Hessian mask does not start as an all-True (nElements, nDofPerElement, nDofPerElement) array")
    # coordinate builder
    sc_ = hc.params()[0]
    connc = hc.params()[1]
    cfgc = cfg_of(hc)
    loops = [n for n in cfgc.nodes if n.kind == "for"]
    for lp in loops:
        ctx.decide(rule, src(lp.ast.iter) == f"enumerate({connc})", hc, lp.ast, construct="coords:iterates-given-connectivity", detail=src(lp.ast.iter),
                   bad_detail=f"coordinate builder iterates `{src(lp.ast.iter)}`, not the connectivity it was given")
    if len(loops) != 2:
        ctx.undecided(rule, hc, None, construct="coords:loops", detail=f"{len(loops)} loops (count pass + fill pass expected)")
        return
    jumps = [n for n in cfgc.nodes if n.kind == "stmt" and isinstance(n.ast, (ast.Continue, ast.Break)) and n.loops]
    conds = [n for n in cfgc.nodes if n.kind == "cond" and n.loops]
    ctx.decide(rule, not jumps and not conds, hc, (jumps or conds)[0].ast if (jumps or conds) else None, construct="coords:every-element-processed",
               detail="coordinate loops are unconditional", bad_detail="the Hessian coordinate loops skip or special-case elements: coordinates and mask would disagree")
    # role-based search in loop bodies
    def find_assign(pred):
        return [n for n in cfgc.nodes if n.kind == "stmt" and isinstance(n.ast, (ast.Assign, ast.AugAssign)) and n.loops and pred(n)]
    # count of unknowns per element from isUnknown of the element's nodes
    cnt = find_assign(lambda n: isinstance(n.ast, ast.Assign) and isinstance(n.ast.targets[0], ast.Subscript) and "sum" in src(n.ast.value))
    okc = len(cnt) == 1 and same(expand(cfgc, cnt[0], cnt[0].ast.value), f"onp.sum({sc_}.isUnknown[{loops[0].ast.target.elts[1].id}, :].ravel())")
    ctx.decide(rule, okc, hc, cnt[0].ast if cnt else None, construct="coords:unknowns-per-element-from-isUnknown",
               detail="nElUnknowns[e] = sum(isUnknown[eNodes,:])", bad_detail="the number of unknowns per element is not counted from isUnknown of the element's nodes")
    # element unknown ids: dofToUnknown[ ids[eNodes,:][ isUnknown[eNodes,:] ] ]
    nodes2 = loops[1].ast.target.elts[1].id
    eu = find_assign(lambda n: isinstance(n.ast, ast.Assign) and "dofToUnknown" in src(n.ast.value))
    oke = len(eu) == 1 and same(expand(cfgc, eu[0], eu[0].ast.value), f"{sc_}.dofToUnknown[{sc_}.ids[{nodes2}, :][{sc_}.isUnknown[{nodes2}, :]]]")
    ctx.decide(rule, oke, hc, eu[0].ast if eu else None, construct="coords:element-unknown-ids-through-map",
               detail="elUnknowns = dofToUnknown[ids[eNodes,:][isUnknown[eNodes,:]]]",
               bad_detail=f"element unknown ids are `{src(expand(cfgc, eu[0], eu[0].ast.value)) if eu else '?'}`; expected the map applied to the ids of the "
                          f"element's nodes selected by isUnknown")
    # row/col stores: tile and its transpose, over a range of n^2 entries advancing by n^2
    st = find_assign(lambda n: isinstance(n.ast, ast.Assign) and isinstance(n.ast.targets[0], ast.Subscript) and isinstance(n.ast.targets[0].slice, ast.Slice))
    vals = sorted(src(n.ast.value) for n in st)
    okt = False
    if len(st) == 2:
        a, b = [n.ast.value for n in st]
        ta, tb = src(a), src(b)
        base = None
        for t in (ta, tb):
            if t.endswith(".ravel()") and not t.endswith(".T.ravel()"):
                base = t[: -len(".ravel()")]
        okt = base is not None and {ta, tb} == {base + ".ravel()", base + ".T.ravel()"}
        if okt:
            bd = single_def(cfgc, st[0], base)
            okt = bd is not None and isinstance(def_value(bd, base), ast.Call) and (dotted(def_value(bd, base).func) or "").endswith("tile")
        rng = {src(n.ast.targets[0].slice) for n in st}
        okt = okt and len(rng) == 1
        tgt = {src(n.ast.targets[0].value) for n in st}
        okt = okt and len(tgt) == 2
    ctx.decide(rule, okt, hc, st[0].ast if st else None, construct="coords:tile-and-transpose-over-same-range",
               detail=f"{vals}", bad_detail=f"row/column coordinates are filled with {vals}; expected a tile of the element unknown ids and its transpose over the same range")
    adv = find_assign(lambda n: isinstance(n.ast, ast.AugAssign) and isinstance(n.ast.op, ast.Add) and "square" in src(n.ast.value))
    okn = len(adv) == 2 and len({src(n.ast.value).replace(loops[0].ast.target.elts[0].id, "e").replace(loops[1].ast.target.elts[0].id, "e") for n in adv}) == 1
    ctx.decide(rule, okn, hc, adv[0].ast if adv else None, construct="coords:n^2-entries-per-element",
               detail="both passes advance by (unknowns per element)^2", bad_detail="the counting pass and the filling pass do not advance by the same (unknowns per element)^2")
    # assembler
    asm = ctx.need(f"{SA}:assemble_sparse_stiffness_matrix")
    cfga = cfg_of(asm)
    dm = asm.params()[2]
    kv = asm.params()[0]
    coo = [c for c in calls_in(asm) if (dotted(c.func) or "").endswith("coo_matrix")]
    ok = False
    shown = "?"
    if len(coo) == 1:
        c = coo[0]
        node = [n for n in cfga.nodes if n.ast is not None and any(x is c for x in ast.walk(n.ast))][0]
        a0 = c.args[0]
        shp = [k.value for k in c.keywords if k.arg == "shape"]
        shown = src(c)[:140]
        if isinstance(a0, ast.Tuple) and len(a0.elts) == 2 and isinstance(a0.elts[1], ast.Tuple) and shp:
            data, (rws, cls_) = a0.elts[0], a0.elts[1].elts
            okd = same(data, f"{kv}[{dm}.hessian_bc_mask]")
            okc2 = {src(rws), src(cls_)} == {f"{dm}.HessRowCoords", f"{dm}.HessColCoords"}
            se = expand(cfga, node, shp[0])
            oks = same(se, f"({dm}.unknownIndices.size, {dm}.unknownIndices.size)")
            ok = okd and okc2 and oks
    ctx.decide(rule, ok, asm, coo[0] if coo else None, construct="assembler:masked-values-with-coordinates",
               detail="coo_matrix((kValues[mask], (rows, cols)), shape=(nUnknowns, nUnknowns))",
               bad_detail=f"assembler builds `{shown}`; expected kValues[hessian_bc_mask] paired with HessRowCoords/HessColCoords in an nUnknowns x nUnknowns matrix")
    # kValues reshaped to (nElements, nDofPerElement, nDofPerElement) before masking
    rs = [n for n in cfga.nodes if n.kind == "stmt" and isinstance(n.ast, ast.Assign) and isinstance(n.ast.targets[0], ast.Name) and n.ast.targets[0].id == kv]
    ok = len(rs) == 1 and isinstance(rs[0].ast.value, ast.Call) and isinstance(rs[0].ast.value.func, ast.Attribute) and rs[0].ast.value.func.attr == "reshape"
    if ok:
        shp = expand(cfga, rs[0], rs[0].ast.value.args[0])
        conns_ = asm.params()[1]
        ok = isinstance(shp, ast.Tuple) and len(shp.elts) == 3 and same(shp.elts[1], shp.elts[2])
    ctx.decide(rule, ok, asm, rs[0].ast if rs else None, construct="assembler:values-reshaped-like-mask",
               detail="kValues.reshape((nElements, nDofPerElement, nDofPerElement))", bad_detail="kValues are not reshaped to (nElements, nDofPerElement, nDofPerElement) before masking")


def variants(repo):
    from optilint.selftest import Variant, sub, sub_in_func, alpha_rename, reformat
    F = "optimism/FunctionSpace.py"
    S = "optimism/SparseMatrixAssembler.py"
    return [
        Variant("isUnknown = isBc", F, sub("        self.isUnknown = ~self.isBc", "        self.isUnknown = self.isBc"), "O1-O3/T5-masks-ids-map"),
        Variant("unknownIndices from isBc", F, sub("        self.unknownIndices = self.ids[self.isUnknown]", "        self.unknownIndices = self.ids[self.isBc]"), "O1-O3/T5-masks-ids-map"),
        Variant("map filled at bcIndices", F, sub("        dofToUnknown[self.unknownIndices] = onp.arange(self.unknownIndices.size)", "        dofToUnknown[self.bcIndices] = onp.arange(self.bcIndices.size)"), "O1-O3/T5-masks-ids-map"),
        Variant("map default 0", F, sub("        ones = onp.ones(self.isBc.size, dtype=int) * -1", "        ones = onp.ones(self.isBc.size, dtype=int) * 0"), "O1-O3/T5-masks-ids-map"),
        Variant("bc component ignored", F, sub("            isBc[functionSpace.mesh.nodeSets[ebc.nodeSet], ebc.component] = True", "            isBc[functionSpace.mesh.nodeSets[ebc.nodeSet], :] = True"), "O1-O3/T5-masks-ids-map"),
        Variant("getter uses other mask", F, sub("        return U[self.isUnknown]", "        return U[~self.isUnknown]"), "O4-O5/T5-scatter-gather-slice"),
        Variant("create_field masks swapped", F, sub("        U = np.zeros(self.isBc.shape).at[self.isBc].set(Ubc)\n        return U.at[self.isUnknown].set(Uu)", "        U = np.zeros(self.isBc.shape).at[self.isUnknown].set(Ubc)\n        return U.at[self.isBc].set(Uu)"), "O4-O5/T5-scatter-gather-slice"),
        Variant("size of wrong mask", F, sub("        return np.sum(self.isUnknown).item()", "        return np.sum(self.isBc).item()"), "O4-O5/T5-scatter-gather-slice"),
        Variant("slice mask not sliced", F, sub("        i = self.isUnknown[dofIndexSlice]", "        i = self.isUnknown"), "O4-O5/T5-scatter-gather-slice"),
        Variant("mask from isUnknown", F, sub("            eFlag = self.isBc[eNodes,:].ravel()", "            eFlag = self.isUnknown[eNodes,:].ravel()"), "O6/T6-hessian-coordinates-and-mask"),
        Variant("mask rows only", F, sub("            hessian_bc_mask[e,:,eFlag] = False\n", ""), "O6/T6-hessian-coordinates-and-mask"),
        Variant("coords without map", F, sub("            elUnknowns = self.dofToUnknown[elDofs[elUnknownFlags]]", "            elUnknowns = elDofs[elUnknownFlags]"), "O6/T6-hessian-coordinates-and-mask"),
        Variant("cols not transposed", F, sub("            colCoords[rangeBegin:rangeEnd] = elHessCoords.T.ravel()", "            colCoords[rangeBegin:rangeEnd] = elHessCoords.ravel()"), "O6/T6-hessian-coordinates-and-mask"),
        Variant("mask skips fully constrained elements", F, sub("            eFlag = self.isBc[eNodes,:].ravel()\n", "            eFlag = self.isBc[eNodes,:].ravel()\n            if onp.all(eFlag): continue\n"), "O6/T6-hessian-coordinates-and-mask"),
        Variant("assembler shape", S, sub("shape = (nUnknowns, nUnknowns))", "shape = (nUnknowns+1, nUnknowns+1))"), "O6/T6-hessian-coordinates-and-mask"),
        Variant("assembler unmasked", S, sub("kValues[dofManager.hessian_bc_mask]", "kValues.ravel()"), "O6/T6-hessian-coordinates-and-mask"),
        Variant("reformat FunctionSpace", F, reformat(), None),
        Variant("alpha-rename assembler", S, alpha_rename("assemble_sparse_stiffness_matrix"), None),
    ]
