"""C14 -- degree-of-freedom bookkeeping is a lossless partition (proof by construction, checked structurally).

The statement follows from these facts, each decided on the source of FunctionSpace.DofManager and
SparseMatrixAssembler by a symbolic interpretation over arrays of symbolic shape (rules/dofalg.py: every attribute and
every method result is a closed term of an index-set algebra in normal form; the rule compares it with the term the property
demands, so renamed locals, temporaries, extracted helpers, keyword arguments and equivalent NumPy idioms do not matter):

  O1  isUnknown is the complement of isBc and both have the field shape; isBc is only set True at
      (node set, component) pairs of the given essential boundary conditions;
  O2  ids enumerates all dofs in field shape; unknownIndices = ids[~M], bcIndices = ids[M];
  O3  dofToUnknown is -1 everywhere except at unknownIndices, where it is arange(number of unknowns);
  O4  create_field scatters onto zeros of the mask shape with exactly M (boundary values) and ~M (unknowns);
      get_bc_values / get_unknown_values gather with the same masks; sizes are sums of the same masks;
  O5  slice_unknowns_with_dof_indices composes ~M and the map on the same slice;
  O6  the Hessian coordinate builder and the Hessian mask iterate the same connectivity; the mask is False
      exactly on rows/columns flagged by M and the coordinates come from ~M through the map; counts agree
      (n^2 entries per element); the assembler pairs kValues[mask] with those coordinates in an
      (nUnknowns x nUnknowns) matrix.
"""
from __future__ import annotations

import ast

from optilint.core import Incomplete
from . import dofalg as da
from .dofalg import P, atom, Tup, const, not_, sel, gather, index, rows, elem, ravel, scatter, mscat, rowsrep, transpose, outer_and, count, size, show

LEVEL = "other"
RULE_TEXT = "obligations = (DofManager statement role x required mask provenance); distinct = distinct (rule, method, construct)"
EXPLANATION = ("Symbolic interpretation (index-set algebra over arrays of symbolic shape, rules/dofalg.py) of FunctionSpace.DofManager and "
               "SparseMatrixAssembler.assemble_sparse_stiffness_matrix: the constructor is interpreted for a symbolic mesh, field count and "
               "BC list; every attribute and every method result is reduced to a normal-form term and compared with the term from which the "
               "partition / round-trip / slicing / assembly statements follow. NumPy indexing semantics are modelled, not mechanised.")

FS = "optimism.FunctionSpace"
SA = "optimism.SparseMatrixAssembler"


def run(ctx):
    ctx.need_module(FS)
    ctx.need_module(SA)
    cls = ctx.need(f"{FS}:DofManager")
    init = ctx.need(f"{FS}:DofManager.__init__")
    st = ctx.guard(build, ctx, cls, init)
    if st is None:
        raise Incomplete("DofManager.__init__ could not be interpreted")
    ctx.guard(o1_o3, ctx, st)
    ctx.guard(o4_o5, ctx, st)
    ctx.guard(o6, ctx, st)
    for sc in st.I.visited:
        ctx.touch(sc)
    ctx.trust("numpy boolean-mask indexing enumerates True entries in row-major order; a[mask] = v and a.at[mask].set(v) scatter in the same order")
    ctx.assume("element stiffness blocks are symmetric (row/column roles of the COO coordinates may be exchanged)")
    ctx.assume("the assembler is called with the connectivity of the dof manager's mesh and element matrices of shape (nEl, nNodesPerEl, dim, nNodesPerEl, dim)")


class State:
    pass


def build(ctx, cls, init):
    """Interpret the constructor on a symbolic function space, field count and BC list; set up the terms the property speaks about."""
    st = State()
    st.cls, st.init = cls, init
    I = st.I = da.Interp(ctx.repo, ctx)
    da.HINTS.clear()
    params = init.params()
    if len(params) != 4:
        raise Incomplete(f"DofManager.__init__ takes {params}; (self, functionSpace, dim, EssentialBCs) expected")
    fs = ("param", "functionSpace")
    ebcs = ("param", "EssentialBCs")
    D = atom("D")
    st.conns = ("attr", ("attr", fs, "mesh"), "conns")
    da.HINTS[st.conns] = (2, "int")
    coords = ("attr", ("attr", fs, "mesh"), "coords")
    da.HINTS[coords] = (2, "float")
    obj = st.obj = da.Obj(cls)
    paths = None
    try:
        env = {params[0]: da.Cell(obj), params[1]: da.Cell(fs), params[2]: da.Cell(D), params[3]: da.Cell(ebcs)}
        I.visited.append(init)
        paths = I.block(init.body(), env, init)
    except da.Unsupported as ex:
        ctx.undecided("O1-O3/T5-masks-ids-map", init, None, construct="constructor", detail=f"cannot interpret the constructor: {ex}")
        return None
    if len(paths) != 1:
        ctx.undecided("O1-O3/T5-masks-ids-map", init, None, construct="constructor", detail="the constructor branches on a symbolic condition")
        return None
    st.obj = obj = paths[0][3][params[0]].v
    # the vocabulary of the property
    st.Nn = da.ShapeOf(coords).dim(0)
    st.D = D
    st.F = (st.Nn, D)
    k = atom("k0")
    b = elem(ebcs, k)
    node_sets = ("attr", ("attr", fs, "mesh"), "nodeSets")
    st.M = ("forstores", const(False, st.F), ("range", da.length(ebcs)), ((Tup((index(node_sets, ("attr", b, "nodeSet")), ("attr", b, "component"))), True),))
    st.U = not_(st.M)
    st.ids = ("iota", st.F)
    st.N = st.Nn * D
    st.nU = count(st.U)
    st.map = scatter(const(-1, (st.N,)), sel(st.ids, st.U), ("iota", (st.nU,)))
    del ABBREV[:]
    ABBREV.extend(sorted([(show(st.map), "MAP"), (show(st.M), "BC"), (show(st.ids), "IDS"), (show(st.conns), "conns"), (f"count[{show(st.M)}]", "nBC"),
                          (show(da.ShapeOf(coords).dim(0)), "nNodes"), (show(da.ShapeOf(st.conns).dim(0)), "nEl"), (show(da.ShapeOf(st.conns).dim(1)), "nNodesPerEl")],
                         key=lambda p_: -len(p_[0])))
    return st


ABBREV = []


def pretty(t, n=420):
    """term with the property's vocabulary folded back in (BC = constrained mask, IDS = id table, MAP = dof->unknown map)"""
    s_ = show(t)
    for long_, short in ABBREV:
        s_ = s_.replace(long_, short)
    return s_ if len(s_) <= n else s_[:n] + " ..."


def _get(st, attr):
    c = st.obj.attrs.get(attr)
    return c.v if c is not None else None


def _compare(ctx, rule, scope, construct, got, want, ok_detail, what):
    if got is None:
        ctx.refuted(rule, scope, None, construct=construct, detail=f"{what}: not defined")
        return False
    if got == want:
        ctx.proved(rule, scope, None, construct=construct, detail=ok_detail)
        return True
    if da.has_unknown(got):
        why = "; ".join(sorted(set(da.unknown_reasons(got)))[:3])
        ctx.undecided(rule, scope, None, construct=construct, detail=f"{what}: value not fully modelled ({why})")
        return False
    ctx.refuted(rule, scope, None, construct=construct,
                detail=f"{what} is `{pretty(got)}`; the property needs `{pretty(want)}` "
                       f"(BC: mask of the declared (node set, component) pairs, IDS: id table, MAP: dof->unknown map, k0: element index)")
    return False


def o1_o3(ctx, st):
    rule = "O1-O3/T5-masks-ids-map"
    init = st.init
    C = lambda construct, got, want, okd, what: _compare(ctx, rule, init, construct, got, want, okd, what)
    C("fieldShape:(nodes, dim)", _get(st, "fieldShape"), Tup(st.F), "fieldShape = (number of mesh nodes, fields per node)", "self.fieldShape")
    C("isBc:set-only-at-essential-bcs", _get(st, "isBc"), st.M,
      "isBc is all-False of field shape, then True exactly at (nodeSets[bc.nodeSet], bc.component) for every essential BC", "the constrained mask self.isBc")
    C("isUnknown:complement-of-isBc", _get(st, "isUnknown"), st.U, "isUnknown = ~isBc", "the unknown mask self.isUnknown (it must be the complement of the constrained mask, otherwise dofs are lost or counted twice)")
    C("ids:enumerates-all-dofs-in-field-shape", _get(st, "ids"), st.ids, "ids = arange(number of dofs) in field shape", "the id table self.ids")
    C("unknownIndices:ids-selected-by-isUnknown", _get(st, "unknownIndices"), sel(st.ids, st.U), "unknownIndices = ids[isUnknown]", "self.unknownIndices")
    C("bcIndices:ids-selected-by-isBc", _get(st, "bcIndices"), sel(st.ids, st.M), "bcIndices = ids[isBc]", "self.bcIndices")
    C("dofToUnknown:minus-one-then-arange-at-unknownIndices", _get(st, "dofToUnknown"), st.map,
      "dofToUnknown = -1 for every dof, then arange(number of unknowns) at unknownIndices",
      "the dof->unknown map self.dofToUnknown (constrained dofs must map to -1, unknown dofs to 0..nUnknowns-1 in id order)")


def _method(st, name):
    for c in st.cls.children:
        if c.kind == "function" and c.name == name:
            return c
    raise Incomplete(f"DofManager.{name} not found")


def _call(ctx, st, rule, name, args, construct):
    m = _method(st, name)
    try:
        return m, st.I.call_scope(m, args, {}, bound=st.obj, top=True)
    except da.Unsupported as ex:
        ctx.undecided(rule, m, None, construct=construct, detail=f"cannot interpret {name}: {ex}")
        return m, None
    except RecursionError:
        ctx.undecided(rule, m, None, construct=construct, detail=f"cannot interpret {name}: recursion")
        return m, None


def o4_o5(ctx, st):
    rule = "O4-O5/T5-scatter-gather-slice"
    Uu, Ubc, U, s = ("param", "Uu"), ("param", "Ubc"), ("param", "U"), ("param", "dofIndexSlice")
    da.HINTS[U] = (st.F, "float")           # a field has the field shape
    da.HINTS[Uu] = ((st.nU,), "float")      # the unknown vector has one entry per unknown
    m, got = _call(ctx, st, rule, "create_field", [Uu, Ubc], "create_field:scatter-with-both-masks")
    if got is not None:
        _compare(ctx, rule, m, "create_field:scatter-with-both-masks", got, mscat(mscat(const(0, st.F), st.M, Ubc), st.U, Uu),
                 "zeros(field shape) with Ubc scattered at isBc and Uu at isUnknown", "the field built by create_field(Uu, Ubc)")
    for name, mask, mname in (("get_bc_values", st.M, "isBc"), ("get_unknown_values", st.U, "isUnknown")):
        m, got = _call(ctx, st, rule, name, [U], f"{name}:gathers-with-{mname}")
        if got is not None:
            _compare(ctx, rule, m, f"{name}:gathers-with-{mname}", got, sel(U, mask), f"U[{mname}]", f"the result of {name}(U) (it must gather with {mname}, the mask create_field scatters with)")
    for name, mask, mname in (("get_bc_size", st.M, "isBc"), ("get_unknown_size", st.U, "isUnknown")):
        m, got = _call(ctx, st, rule, name, [], f"{name}:counts-{mname}")
        if got is not None:
            _compare(ctx, rule, m, f"{name}:counts-{mname}", got, count(mask), f"number of True entries of {mname}", f"the size reported by {name}()")
    m, got = _call(ctx, st, rule, "slice_unknowns_with_dof_indices", [Uu, s], "slice:map-and-mask-on-same-slice")
    if got is not None:
        j = gather(st.map, index(st.ids, s))
        want = sel(gather(Uu, j), not_(index(st.M, s)))
        _compare(ctx, rule, m, "slice:map-and-mask-on-same-slice", got, want, "Uu[ map[ids[slice]] [ isUnknown[slice] ] ]",
                 "the result of slice_unknowns_with_dof_indices(Uu, slice) (the dof->unknown map and the unknown mask must be restricted by the same slice)")


def o6(ctx, st):
    rule = "O6/T6-hessian-coordinates-and-mask"
    init = st.init
    k = atom("k0")
    it = ("range", da.length(st.conns))
    nodes = elem(st.conns, k)
    uflag2 = not_(rows(st.M, nodes))                 # unknown flags of the element's dofs, (nodes per element, D)
    uflag = ravel(uflag2)
    n = count(uflag2)
    u = sel(gather(st.map, rows(st.ids, nodes)), uflag2)          # unknown numbers of the element's unconstrained dofs, row-major
    total = da.sum_over(it, n * n, "k0")
    tile = rowsrep(u, n)
    want_a = ("cat", it, ravel(tile), total)
    want_b = ("cat", it, ravel(transpose(tile)), total)
    r, c = _get(st, "HessRowCoords"), _get(st, "HessColCoords")
    if r is None or c is None:
        ctx.refuted(rule, init, None, construct="coords:defined", detail="HessRowCoords / HessColCoords are not set by the constructor")
    elif (r, c) in ((want_a, want_b), (want_b, want_a)):
        ctx.proved(rule, init, None, construct="coords:tile-and-transpose-of-element-unknowns",
                   detail="per element: the n unknown numbers map[ids[eNodes,:][isUnknown[eNodes,:]]] tiled n times, and the transpose, concatenated over the elements (n*n entries each)")
    elif da.has_unknown(r) or da.has_unknown(c):
        why = "; ".join(sorted(set(da.unknown_reasons(r) + da.unknown_reasons(c)))[:3])
        ctx.undecided(rule, init, None, construct="coords:tile-and-transpose-of-element-unknowns", detail=f"Hessian coordinates not fully modelled ({why})")
    else:
        ctx.refuted(rule, init, None, construct="coords:tile-and-transpose-of-element-unknowns",
                    detail=f"HessRowCoords = `{pretty(r, 300)}`, HessColCoords = `{pretty(c, 300)}`; the property needs, per element, the unknown numbers "
                           f"`{pretty(u, 200)}` tiled n = {pretty(n)} times and the transpose of that tile, concatenated over all elements "
                           f"(so that entry (i, j) of each element's unknown-by-unknown block is addressed exactly once)")
    want_mask = ("tab", it, outer_and(uflag, uflag))
    _compare(ctx, rule, init, "mask:unknown-by-unknown-block-of-every-element", _get(st, "hessian_bc_mask"), want_mask,
             "mask[e] = outer_and(unknown flags of element e, same flags) for every element of the connectivity the coordinates are built from",
             "self.hessian_bc_mask (it must keep exactly the entries whose row and column dofs are both unconstrained, for every element)")
    # assembler
    asm = ctx.need(f"{SA}:assemble_sparse_stiffness_matrix")
    ps = asm.params()
    if len(ps) != 3:
        raise Incomplete(f"assemble_sparse_stiffness_matrix takes {ps}")
    kv = ("param", "kValues")
    nel, npe = da.ShapeOf(st.conns).dim(0), da.ShapeOf(st.conns).dim(1)
    da.HINTS[kv] = ((nel, npe, st.D, npe, st.D), "float")
    st.I.calls.clear()
    try:
        st.I.call_scope(asm, [kv, st.conns, st.obj], {}, top=True)
    except (da.Unsupported, RecursionError) as ex:
        ctx.undecided(rule, asm, None, construct="assembler", detail=f"cannot interpret the assembler: {ex}")
        return
    coo = [c_ for c_ in st.I.calls if c_[0] == "coo_matrix"]
    if len(coo) != 1:
        ctx.undecided(rule, asm, None, construct="assembler", detail=f"{len(coo)} coo_matrix constructions found")
        return
    _, args, kw = coo[0]
    a0 = args[0] if args else kw.get("arg1")
    shp = kw.get("shape", args[1] if len(args) > 1 else None)
    if not (isinstance(a0, Tup) and len(a0) == 2 and isinstance(a0[1], Tup) and len(a0[1]) == 2):
        ctx.undecided(rule, asm, None, construct="assembler", detail="coo_matrix is not built from (data, (rows, cols))")
        return
    data, (rws, cls_) = a0[0], a0[1]
    d = npe * st.D
    _compare(ctx, rule, asm, "assembler:masked-values", data, sel(da.reshape(kv, (nel, d, d)), _get(st, "hessian_bc_mask") or want_mask),
             "kValues reshaped to (nEl, nDofPerEl, nDofPerEl) and selected by hessian_bc_mask", "the data array of the sparse matrix")
    okc = r is not None and c is not None and {(rws, cls_)} <= {(r, c), (c, r)}
    if okc:
        ctx.proved(rule, asm, None, construct="assembler:coordinates", detail="(HessRowCoords, HessColCoords) of the dof manager")
    elif da.has_unknown(rws) or da.has_unknown(cls_):
        ctx.undecided(rule, asm, None, construct="assembler:coordinates", detail="coordinates of the sparse matrix not fully modelled")
    else:
        ctx.refuted(rule, asm, None, construct="assembler:coordinates",
                    detail=f"the sparse matrix is built with coordinates `{pretty(rws, 200)}` / `{pretty(cls_, 200)}`, not with the dof manager's HessRowCoords / HessColCoords")
    if shp is None:
        ctx.refuted(rule, asm, None, construct="assembler:shape-unknowns-by-unknowns",
                    detail="coo_matrix is built without shape=: the matrix size is then inferred from the largest coordinate, which is wrong (or fails) when the "
                           "highest-numbered unknowns belong to no element entry or there are no unknowns at all; the property needs an nUnknowns x nUnknowns matrix")
    else:
        _compare(ctx, rule, asm, "assembler:shape-unknowns-by-unknowns", shp, Tup((st.nU, st.nU)), "shape = (nUnknowns, nUnknowns)", "the shape of the sparse matrix")




def _coords_by_lists(src_text):
    """single-pass coordinate builder with Python lists and concatenate (behaviour preserving)"""
    a = src_text.find("    def _make_hessian_coordinates(self, conns):")
    b = src_text.find("    def _make_hessian_bc_mask(self, conns):")
    if a < 0 or b < 0:
        return None
    new = (
        "    def _make_hessian_coordinates(self, conns):\n"
        "        rowParts = []\n"
        "        colParts = []\n"
        "        for eNodes in conns:\n"
        "            flags = self.isUnknown[eNodes,:]\n"
        "            unknowns = self.dofToUnknown[self.ids[eNodes,:]][flags]\n"
        "            block = onp.tile(unknowns, (unknowns.size, 1))\n"
        "            rowParts.append(block.ravel())\n"
        "            colParts.append(block.T.ravel())\n"
        "        return onp.concatenate(rowParts), onp.concatenate(colParts)\n\n\n")
    return src_text[:a] + new + src_text[b:]


def _vectorised_mask(op):
    def f(src_text):
        a = src_text.find("    def _make_hessian_bc_mask(self, conns):")
        if a < 0:
            return None
        b = src_text.find("\n\n\n", a)
        b = len(src_text) if b < 0 else b
        new = (
            "    def _make_hessian_bc_mask(self, conns):\n"
            "        nElements, nNodesPerElement = conns.shape\n"
            "        nDofPerElement = nNodesPerElement*self.ids.shape[1]\n"
            "        elBcFlags = self.isBc[conns,:].reshape((nElements, nDofPerElement))\n"
            f"        return ~(elBcFlags[:,:,None] {op} elBcFlags[:,None,:])\n")
        return src_text[:a] + new + src_text[b:]
    return f


def _vectorised_coords(flag_attr):
    def f(src_text):
        a = src_text.find("    def _make_hessian_coordinates(self, conns):")
        b = src_text.find("    def _make_hessian_bc_mask(self, conns):")
        if a < 0 or b < 0:
            return None
        new = (
            "    def _make_hessian_coordinates(self, conns):\n"
            "        conns = onp.array(conns)\n"
            "        nElements, nNodesPerElement = conns.shape\n"
            "        elShape = (nElements, nNodesPerElement*self.ids.shape[1])\n"
            f"        elUnknownFlags = self.{flag_attr}[conns,:].reshape(elShape)\n"
            "        elUnknowns = self.dofToUnknown[self.ids[conns,:].reshape(elShape)]\n"
            "        isHessianEntry = elUnknownFlags[:,:,None] & elUnknownFlags[:,None,:]\n"
            "        rowCoords = onp.broadcast_to(elUnknowns[:,None,:], isHessianEntry.shape)[isHessianEntry]\n"
            "        colCoords = onp.broadcast_to(elUnknowns[:,:,None], isHessianEntry.shape)[isHessianEntry]\n"
            "        return rowCoords, colCoords\n\n\n")
        return src_text[:a] + new + src_text[b:]
    return f


def _coords_by_ranges(tr):
    from optilint.selftest import sub_in_func

    def edit(src):
        import ast as _ast
        tree = _ast.parse(src)
        for cls in tree.body:
            if isinstance(cls, _ast.ClassDef) and cls.name == "DofManager":
                for fn in cls.body:
                    if isinstance(fn, _ast.FunctionDef) and fn.name == "_make_hessian_coordinates":
                        lines = src.splitlines(keepends=True)
                        body = ("        unknownsOf = [self.dofToUnknown[self.ids[eNodes,:][self.isUnknown[eNodes,:]]] for eNodes in conns]\n"
                                "        sizes = [u.size**2 for u in unknownsOf]\n"
                                "        ranges = []\n"
                                "        begin = 0\n"
                                "        for w in sizes:\n"
                                "            end = begin + w\n"
                                "            ranges.append(slice(begin, end))\n"
                                "            begin = end\n"
                                "        rowCoords = onp.zeros(sum(sizes), dtype=int)\n"
                                "        colCoords = rowCoords.copy()\n"
                                "        for u, r in zip(unknownsOf, ranges):\n"
                                "            t = onp.tile(u, (u.size, 1))\n"
                                "            rowCoords[r] = t.ravel()\n"
                                "            colCoords[r] = t%s.ravel()\n"
                                "        return rowCoords, colCoords\n" % tr)
                        return "".join(lines[:fn.body[0].lineno - 1]) + body + "".join(lines[fn.end_lineno:])
        return None
    return edit


def variants(repo):
    from optilint.selftest import Variant, sub, sub_in_func, alpha_rename, reformat
    F = "optimism/FunctionSpace.py"
    S = "optimism/SparseMatrixAssembler.py"
    return [
        Variant("isUnknown = isBc", F, sub("        self.isUnknown = ~self.isBc", "        self.isUnknown = self.isBc"), "O1-O3/T5-masks-ids-map"),
        Variant("unknownIndices from isBc", F, sub("        self.unknownIndices = self.ids[self.isUnknown]", "        self.unknownIndices = self.ids[self.isBc]"), "O1-O3/T5-masks-ids-map"),
        Variant("map filled at bcIndices", F, sub("        dofToUnknown[self.unknownIndices] = onp.arange(self.unknownIndices.size)", "        dofToUnknown[self.bcIndices] = onp.arange(self.bcIndices.size)"), "O1-O3/T5-masks-ids-map"),
        Variant("map default 0", F, sub("        ones = onp.ones(self.isBc.size, dtype=int) * -1", "        ones = onp.ones(self.isBc.size, dtype=int) * 0"), "O1-O3/T5-masks-ids-map"),
        Variant("bc component ignored", F, sub("            isBc[functionSpace.mesh.nodeSets[ebc.nodeSet], ebc.component] = True", "            isBc[functionSpace.mesh.nodeSets[ebc.nodeSet], :] = True"), "O1-O3/T5-masks-ids-map"),
        Variant("getter uses other mask", F, sub("        return U[self.isUnknown]", "        return U[~self.isUnknown]"), "O4-O5/T5-scatter-gather-slice"),
        Variant("create_field masks swapped", F, sub("        U = np.zeros(self.isBc.shape).at[self.isBc].set(Ubc)\n        return U.at[self.isUnknown].set(Uu)", "        U = np.zeros(self.isBc.shape).at[self.isUnknown].set(Ubc)\n        return U.at[self.isBc].set(Uu)"), "O4-O5/T5-scatter-gather-slice"),
        Variant("size of wrong mask", F, sub("        return np.sum(self.isUnknown).item()", "        return np.sum(self.isBc).item()"), "O4-O5/T5-scatter-gather-slice"),
        Variant("slice mask not sliced", F, sub("        i = self.isUnknown[dofIndexSlice]", "        i = self.isUnknown"), "O4-O5/T5-scatter-gather-slice"),
        Variant("mask from isUnknown", F, sub("            eFlag = self.isBc[eNodes,:].ravel()", "            eFlag = self.isUnknown[eNodes,:].ravel()"), "O6/T6-hessian-coordinates-and-mask"),
        Variant("mask rows only", F, sub("            hessian_bc_mask[e,:,eFlag] = False\n", ""), "O6/T6-hessian-coordinates-and-mask"),
        Variant("coords without map", F, sub("            elUnknowns = self.dofToUnknown[elDofs[elUnknownFlags]]", "            elUnknowns = elDofs[elUnknownFlags]"), "O6/T6-hessian-coordinates-and-mask"),
        Variant("cols not transposed", F, sub("            colCoords[rangeBegin:rangeEnd] = elHessCoords.T.ravel()", "            colCoords[rangeBegin:rangeEnd] = elHessCoords.ravel()"), "O6/T6-hessian-coordinates-and-mask"),
        Variant("mask skips fully constrained elements", F, sub("            eFlag = self.isBc[eNodes,:].ravel()\n", "            eFlag = self.isBc[eNodes,:].ravel()\n            if onp.all(eFlag): continue\n"), "O6/T6-hessian-coordinates-and-mask"),
        Variant("assembler shape", S, sub("shape = (nUnknowns, nUnknowns))", "shape = (nUnknowns+1, nUnknowns+1))"), "O6/T6-hessian-coordinates-and-mask"),
        Variant("assembler unmasked", S, sub("kValues[dofManager.hessian_bc_mask]", "kValues.ravel()"), "O6/T6-hessian-coordinates-and-mask"),
        # further breaking edits
        Variant("slice through ids without the map", F, sub("        j = self.dofToUnknown.reshape(self.fieldShape)[dofIndexSlice]", "        j = self.ids[dofIndexSlice]"), "O4-O5/T5-scatter-gather-slice"),
        Variant("fill pass selects constrained dofs", F, sub("            elUnknownFlags = self.isUnknown[eNodes,:]\n            elUnknowns", "            elUnknownFlags = self.isBc[eNodes,:]\n            elUnknowns"), "O6/T6-hessian-coordinates-and-mask"),
        Variant("map numbers unknowns by their dof id", F, sub("        dofToUnknown[self.unknownIndices] = onp.arange(self.unknownIndices.size)", "        dofToUnknown[self.unknownIndices] = self.unknownIndices"), "O1-O3/T5-masks-ids-map"),
        Variant("mask from truncated connectivity", F, sub("self._make_hessian_bc_mask(onp.array(functionSpace.mesh.conns))", "self._make_hessian_bc_mask(onp.array(functionSpace.mesh.conns)[:-1])"), "O6/T6-hessian-coordinates-and-mask"),
        Variant("mask clears rows twice", F, sub("            hessian_bc_mask[e,:,eFlag] = False\n", "            hessian_bc_mask[e,eFlag,:] = False\n"), "O6/T6-hessian-coordinates-and-mask"),
        Variant("bcIndices from flat positions of unknowns", F, sub("        self.bcIndices = self.ids[self.isBc]", "        self.bcIndices = self.ids[~self.isUnknown == False]"), "O1-O3/T5-masks-ids-map"),
        # further behaviour-preserving rewrites (must stay silent)
        Variant("unknown mask by comparison", F, sub("        self.isUnknown = ~self.isBc", "        self.isUnknown = self.isBc == False"), None),
        Variant("create_field scatters unknowns first", F, sub("        U = np.zeros(self.isBc.shape).at[self.isBc].set(Ubc)\n        return U.at[self.isUnknown].set(Uu)",
                                                                 "        U = np.zeros(self.fieldShape)\n        U = U.at[self.isUnknown].set(Uu)\n        return U.at[self.isBc].set(Ubc)"), None),
        Variant("map filled through the flat unknown mask", F, sub("        dofToUnknown[self.unknownIndices] = onp.arange(self.unknownIndices.size)",
                                                                    "        dofToUnknown[self.isUnknown.ravel()] = onp.arange(len(self.unknownIndices))"), None),
        Variant("sizes from the index arrays", F, sub("        return np.sum(self.isUnknown).item() # item() method casts to Python int", "        return self.unknownIndices.size"), None),
        Variant("mask loop over range", F, sub_in_func("DofManager._make_hessian_bc_mask", "        for e, eNodes in enumerate(conns):\n", "        for e in range(conns.shape[0]):\n            eNodes = conns[e]\n"), None),
        Variant("unknown values through flat ids", F, sub("        return U[self.isUnknown]", "        return U.ravel()[self.unknownIndices]"), None),
        Variant("coordinates by list concatenation", F, sub(
            "        rowCoords = onp.zeros(nHessianEntries, dtype=int)\n        colCoords = rowCoords.copy()\n        rangeBegin = 0\n        for e,eNodes in enumerate(conns):\n",
            "        rowParts = []\n        colParts = []\n        for e,eNodes in enumerate(conns):\n") , None) if False else
        Variant("coordinates by list concatenation", F, _coords_by_lists, None),
        Variant("vectorised mask", F, _vectorised_mask("|"), None),
        Variant("vectorised mask with & instead of |", F, _vectorised_mask("&"), "O6/T6-hessian-coordinates-and-mask"),
        Variant("vectorised coordinates", F, _vectorised_coords("isUnknown"), None),
        Variant("vectorised coordinates from the constrained flags", F, _vectorised_coords("isBc"), "O6/T6-hessian-coordinates-and-mask"),
        Variant("map by cumulative count", F, sub("        dofToUnknown[self.unknownIndices] = onp.arange(self.unknownIndices.size)",
                                                  "        dofToUnknown = onp.where(self.isUnknown.ravel(), onp.cumsum(self.isUnknown.ravel(), dtype=int) - 1, -1)"), None),
        Variant("map by cumulative count of the wrong mask", F, sub("        dofToUnknown[self.unknownIndices] = onp.arange(self.unknownIndices.size)",
                                                                   "        dofToUnknown = onp.where(self.isBc.ravel(), onp.cumsum(self.isBc.ravel(), dtype=int) - 1, -1)"), "O1-O3/T5-masks-ids-map"),
        Variant("slice filtered by sign of the map", F, sub("        return Uu[j[i]]", "        return Uu[j[j >= 0]]"), None),
        Variant("slice filtered by negative map", F, sub("        return Uu[j[i]]", "        return Uu[j[j < 0]]"), "O4-O5/T5-scatter-gather-slice"),
        Variant("bcIndices accumulated per BC and sorted (duplicates for overlapping sets)", F,
                sub("        self.bcIndices = self.ids[self.isBc]\n", "        acc = onp.array([], dtype=int)\n        for ebc in EssentialBCs:\n            acc = onp.append(acc, self.ids[functionSpace.mesh.nodeSets[ebc.nodeSet], ebc.component])\n        self.bcIndices = onp.sort(acc)\n"),
                "O1-O3/T5-masks-ids-map"),
        Variant("bcIndices accumulated per BC, made unique", F,
                sub("        self.bcIndices = self.ids[self.isBc]\n", "        acc = onp.array([], dtype=int)\n        for ebc in EssentialBCs:\n            acc = onp.append(acc, self.ids[functionSpace.mesh.nodeSets[ebc.nodeSet], ebc.component])\n        self.bcIndices = onp.unique(acc)\n"),
                None),
        Variant("fill pass skips elements with at most one unknown", F,
                sub("        for e,eNodes in enumerate(conns):\n            elDofs = self.ids[eNodes,:]\n", "        for e,eNodes in enumerate(conns):\n            if nElUnknowns[e] <= 1:\n                rangeBegin += onp.square(nElUnknowns[e])\n                continue\n            elDofs = self.ids[eNodes,:]\n"),
                "O6/T6-hessian-coordinates-and-mask"),
        Variant("bcIndices = row numbers of the constrained entries", F, sub("        self.bcIndices = self.ids[self.isBc]", "        self.bcIndices = onp.nonzero(self.isBc)[0]"), "O1-O3/T5-masks-ids-map"),
        Variant("bcIndices through the index tuple of nonzero", F, sub("        self.bcIndices = self.ids[self.isBc]", "        self.bcIndices = self.ids[onp.nonzero(self.isBc)]"), None),
        Variant("bcIndices by flatnonzero", F, sub("        self.bcIndices = self.ids[self.isBc]", "        self.bcIndices = onp.flatnonzero(self.isBc)"), None),
        # iteration hands out views: a store into the loop target clears the block of the array itself
        Variant("mask cleared through the per-element views", F, sub_in_func("DofManager._make_hessian_bc_mask",
                "        for e, eNodes in enumerate(conns):\n            eFlag = self.isBc[eNodes,:].ravel()\n            hessian_bc_mask[e,eFlag,:] = False\n            hessian_bc_mask[e,:,eFlag] = False\n",
                "        for blk, eNodes in zip(hessian_bc_mask, conns):\n            eFlag = self.isBc[eNodes,:].ravel()\n            blk[eFlag,:] = False\n            blk[:,eFlag] = False\n"), None),
        Variant("mask cleared through the per-element views, wrong flags", F, sub_in_func("DofManager._make_hessian_bc_mask",
                "        for e, eNodes in enumerate(conns):\n            eFlag = self.isBc[eNodes,:].ravel()\n            hessian_bc_mask[e,eFlag,:] = False\n            hessian_bc_mask[e,:,eFlag] = False\n",
                "        for blk, eNodes in zip(hessian_bc_mask, conns):\n            eFlag = self.isUnknown[eNodes,:].ravel()\n            blk[eFlag,:] = False\n            blk[:,eFlag] = False\n"), "O6/T6-hessian-coordinates-and-mask"),
        Variant("coordinates through a list of per-element unknowns and a list of consecutive ranges", F, _coords_by_ranges(".T"), None),
        Variant("coordinates through a list of consecutive ranges, columns not transposed", F, _coords_by_ranges(""), "O6/T6-hessian-coordinates-and-mask"),
        Variant("fill pass skips elements without unknowns", F,
                sub("        for e,eNodes in enumerate(conns):\n            elDofs = self.ids[eNodes,:]\n", "        for e,eNodes in enumerate(conns):\n            if nElUnknowns[e] == 0:\n                continue\n            elDofs = self.ids[eNodes,:]\n"),
                None),
        Variant("reformat FunctionSpace", F, reformat(), None),
        Variant("alpha-rename assembler", S, alpha_rename("assemble_sparse_stiffness_matrix"), None),
    ]
