"""Load-step machine: a small symbolic interpreter for the warm start / scaling / parameter code (used by C19).

The analysed code is *effectful glue*: it mutates an objective object (`objective.p = p`), asks it for linear operators
(`hessian_vec`, `jacobian_p_vec`), hands closures to an iterative linear solver, scales vectors with a diagonal, and finally calls a
nonlinear solver.  None of this is decided by matching statements; the functions are *interpreted* on symbolic inputs and the rules
compare the values and the effect trace with what the property demands.

Values
    Num         exact rational function (optilint.expr) over named atoms -- scalars and vectors alike (element-wise products commute);
                every atom has a structure record in `Machine.info`:
                  sym      an input symbol                       app    uninterpreted pure function of known arguments
                  lin      a linear operator applied to one monomial of its argument (the operator distributes over sums, so
                           J[a - b] is the polynomial J[a] - J[b]); operators are  ("D", g, path): derivative of the atom g with
                           respect to the argument position `path`,  ("inv", op): the inverse of an operator,  ("fn", key): a
                           probed matrix-free operator that is not recognised as one of the above
                  ret      result of an opaque, possibly stateful call    havoc  value after a summarised loop
                  stale    state read inside a jit-compiled function although it is mutated after tracing
    Mat         non-commutative polynomial over matrix symbols (diag(d), opaque K, transposes) for the scaled preconditioner
    Record      namedtuple value (the parameter tuple); Obj: heap object (instance of a repository class, or an *opaque* object whose
                method calls are recorded as events); Closure / Bound / JitFn / GradFn / FunSym / LinOp / Partial: callables
Control
    Conditions on unknown values consult a decision oracle; the caller re-runs the function for every decision sequence
    (`explore`).  try/except: the oracle chooses which statement of the body raises (or none).  An index of unknown value into a sequence
    of known length: one path per position.  `raise` ends the path.
    Loops over a *known* finite sequence (literal tuple, range of constants, dict, enumerate/zip of such) are executed iteration by
    iteration (exact; `return` / `break` / `continue` / `else` as in Python).  Inside the abstract iteration of a summarised loop such an
    unrolling is speculative: it is kept only if no new condition on an unknown value had to be decided.  Other loops are summarised:
    one iteration from the entry state, havoc of everything it changed, a second *generic* iteration from the havocked state (a later
    iteration may be the one that returns), havoc again; what both iterations leave with the same value is loop invariant and keeps it.
    `Machine.summarised` counts the summarised loops of a run (a result that depends on one is not exact).
Calls
    Nested functions, lambdas, methods, constructors of repository classes (also @dataclass), instances with `__call__`, functions stored
    in a class body, functools.partial and jit of all of these are interpreted.  A module-level repository function is
    interpreted when the machine's `inline` predicate says so (helpers), otherwise the call is an opaque *use* event that records a
    snapshot of every heap object it receives.  Every interpreted activation is recorded in `Machine.activations` (scope, arguments,
    value, range of events) so that rules can ask "what did the function during which this event happened return".
    Anything the machine does not model raises Unsupported (the rule reports undecided).
"""
from __future__ import annotations

import ast
from fractions import Fraction

from optilint.expr import Algebra, Rat, Poly, simplify
from optilint.model import canonical_ext, walk_local, namedtuple_fields, norm_src


class Unsupported(Exception):
    pass


class PathEnd(Exception):
    """the interpreted code raised an exception that nothing catches"""


class Budget(Exception):
    pass


class _Return(Exception):
    def __init__(self, value):
        self.value = value


class _Break(Exception):
    pass


class _Continue(Exception):
    pass


class _NeedSummary(Exception):
    """a speculative exact unrolling met a condition on an unknown value"""


MISSING = object()


# --------------------------------------------------------------------------------------------- values

class Num:
    __slots__ = ("r",)

    def __init__(self, r):
        self.r = r

    def __repr__(self):
        return repr(simplify(self.r))


class Record:
    def __init__(self, tname, fields, values):
        self.tname, self.fields, self.values = tname, tuple(fields), list(values)

    def __repr__(self):
        return f"{self.tname}({', '.join(repr(v) for v in self.values)})"


class RecordType:
    def __init__(self, name, fields, ndefaults=0):
        self.name, self.fields, self.ndefaults = name, tuple(fields), ndefaults


class Obj:
    """heap object.  cls: class scope of a repository class (methods interpreted) or None.  opaque: an input object about which nothing
    is known -- attribute reads give atoms, method calls are events.  spec: table name -> python function for objects with a
    stipulated protocol (the abstract objective)."""

    def __init__(self, name, cls=None, opaque=False, spec=None):
        self.name, self.cls, self.opaque, self.spec = name, cls, opaque, spec or {}
        self.attrs = {}
        self.epoch = 0

    def __repr__(self):
        return f"<{self.name}>"


class Closure:
    def __init__(self, scope, env):
        self.scope, self.env = scope, env

    def __repr__(self):
        return f"<fn {self.scope.qualname}>"


class Bound:
    def __init__(self, obj, fn):
        self.obj, self.fn = obj, fn


class Builtin:
    def __init__(self, name, fn):
        self.name, self.fn = name, fn

    def __repr__(self):
        return f"<builtin {self.name}>"


class ExtRef:
    def __init__(self, name):
        self.name = name

    def __repr__(self):
        return f"<ext {self.name}>"


class ModRef:
    def __init__(self, module):
        self.module = module


class ClassRef:
    def __init__(self, scope):
        self.scope = scope

    def __repr__(self):
        return f"<class {self.scope.qualname}>"


class FunSym:
    """opaque pure function (the user's energy)"""
    def __init__(self, name):
        self.name = name

    def __repr__(self):
        return f"<fun {self.name}>"


class GradFn:
    def __init__(self, fn, argnum):
        self.fn, self.argnum = fn, argnum


class JitFn:
    def __init__(self, fn):
        self.fn = fn


class Partial:
    def __init__(self, fn, args, kwargs):
        self.fn, self.args, self.kwargs = fn, list(args), dict(kwargs)


class LinOp:
    def __init__(self, matvec):
        self.matvec = matvec


class OpaqueAttr:
    """`base.name` where base is an opaque object or a symbolic number: a number when used as one, an event/app when called"""
    def __init__(self, base, name):
        self.base, self.name = base, name


class SuperProxy:
    def __init__(self, obj, after):
        self.obj, self.after = obj, after


class UnknownIter:
    def __init__(self, key):
        self.key = key


class Mat:
    """sum of coef * word, word = tuple of matrix symbol names (non-commutative)"""
    def __init__(self, terms):
        self.terms = {w: c for w, c in terms.items() if not Machine.ALG.is_zero(c)}


class Env:
    def __init__(self, scope, parent=None):
        self.scope, self.parent, self.vars = scope, parent, {}

    def find(self, name):
        e = self
        while e is not None:
            if name in e.vars:
                return e
            e = e.parent
        return None


class Oracle:
    """decisions of one run.  prefix: choices fixed by the explorer; beyond it option 0 is taken and the alternatives are scheduled."""

    def __init__(self, prefix=()):
        self.prefix = list(prefix)
        self.taken = []          # (choice, number of options)
        self.cache = {}
        self.log = []            # (key, choice) for reports
        self.frozen = 0          # > 0: no new decisions may be taken (speculative unrolling of a loop)

    def choose(self, key, n=2, weak=False):
        if key in self.cache:
            return self.cache[key]
        if self.frozen:
            raise _NeedSummary(key)
        i = len(self.taken)
        c = self.prefix[i] if i < len(self.prefix) else 0
        self.taken.append((c, n, key, weak))
        self.cache[key] = c
        self.log.append((key, c))
        return c


def explore(run, max_paths=400):
    """run(oracle) -> result for every decision sequence; returns [(oracle, result)].  Budget when there are too many paths.
    Strong decisions (straight-line code) are explored in all combinations; weak decisions (taken inside a summarised loop, whose
    body is abstract anyway) with branch coverage: every outcome of every condition is taken on at least one path."""
    out = []
    stack = [[]]
    covered = set()
    while stack:
        prefix = stack.pop()
        orc = Oracle(prefix)
        res = run(orc)
        out.append((orc, res))
        if len(out) > max_paths:
            raise Budget(f"more than {max_paths} paths")
        for (c, n, key, weak) in orc.taken:
            if weak:
                covered.add((key, c))
        for i in range(len(prefix), len(orc.taken)):
            c, n, key, weak = orc.taken[i]
            for alt in range(1, n):
                if weak:
                    if (key, alt) in covered:
                        continue
                    covered.add((key, alt))
                stack.append([t[0] for t in orc.taken[:i]] + [alt])
    return out


ITERATIVE_SOLVERS = {"cg", "gmres", "minres", "bicgstab", "bicg", "cgs", "lgmres", "qmr", "gcrotmk", "tfqmr"}
DIRECT_SOLVERS = {"spsolve", "solve"}
IDENTITY_EXT = {"array", "asarray", "asanyarray", "float64", "float32", "device_put", "stop_gradient", "copy", "ascontiguousarray"}
MATRIX_FORMAT = {"csc_matrix", "csr_matrix", "coo_matrix", "csc_array", "csr_array"}
SHAPE_ONLY_METHODS = {"reshape", "ravel", "flatten", "squeeze", "astype", "copy", "block_until_ready", "view", "conj", "conjugate"}
TRANSPARENT_WRAPPERS = {"jax.checkpoint", "jax.custom_jvp", "jax.named_call"}


class Machine:
    ALG = Algebra()

    def __init__(self, repo, oracle=None, inline=None, mutable_attrs=(), max_steps=200000):
        self.repo = repo
        self.A = Algebra()
        Machine.ALG = self.A
        self.info = {}
        self.events = []
        self.setlog = []
        self.oracle = oracle or Oracle()
        self.inline = inline or (lambda scope: True)
        self.mutable_attrs = set(mutable_attrs)
        self.jit_depth = 0
        self.depth = 0
        self.steps = 0
        self.max_steps = max_steps
        self.modenvs = {}
        self.counter = 0
        self.stem_counter = {}
        self.loop_depth = 0
        self.executed = set()
        self.visited = set()
        self.try_counter = {}
        self.expr_stmt_value = None
        self.watch = {}          # qualname -> callable(machine, phase, payload) for enter/exit notifications
        self.activations = []    # one record per interpreted function activation (scope, arguments, value, range of events)
        self.summarised = 0      # number of loops that were summarised (not unrolled) on this run
        self.summary_depth = 0   # > 0 while the body of a summarised loop is interpreted
        self.numified = set()    # names of opaque input objects that were used as numbers (arrays)

    # ------------------------------------------------------------------ atoms
    def sym(self, name, kind="sym", **extra):
        if name not in self.info:
            self.info[name] = (kind, extra)
        return Num(self.A.atom(name))

    def fresh(self, stem, kind, **extra):
        k = self.stem_counter.get(stem, 0) + 1
        self.stem_counter[stem] = k
        return self.sym(f"{stem}#{k}", kind, **extra)

    def const(self, c):
        return Num(self.A.const(c))

    def key(self, v):
        if isinstance(v, Num):
            return repr(simplify(self.A.norm(v.r)))
        if isinstance(v, bool) or v is None or isinstance(v, str):
            return repr(v)
        if isinstance(v, (int, Fraction)):
            return str(Fraction(v))
        if isinstance(v, float):
            return str(Fraction(repr(v)))
        if isinstance(v, Record):
            return v.tname + "[" + ",".join(self.key(x) for x in v.values) + "]"
        if isinstance(v, (tuple, list)):
            return "(" + ",".join(self.key(x) for x in v) + ")"
        if isinstance(v, dict):
            return "{" + ",".join(f"{self.key(k)}:{self.key(x)}" for k, x in v.items()) + "}"
        if isinstance(v, Obj):
            return f"<{v.name}>"
        if isinstance(v, OpaqueAttr):
            return self.key(self.num(v))
        if isinstance(v, Mat):
            return "Mat{" + " + ".join(f"{self.key(Num(c))}*[{' '.join(w)}]" for w, c in sorted(v.terms.items())) + "}"
        if isinstance(v, Closure):
            return f"<fn {v.scope.qualname}>"
        if isinstance(v, Bound):
            return f"<bound {self.key(v.obj)}.{self.key(v.fn)}>"
        if isinstance(v, (JitFn,)):
            return f"jit({self.key(v.fn)})"
        if isinstance(v, GradFn):
            return f"grad{v.argnum}[{self.key(v.fn)}]"
        if isinstance(v, FunSym):
            return v.name
        if isinstance(v, ExtRef):
            return v.name
        if isinstance(v, ClassRef):
            return f"<class {v.scope.qualname}>"
        if isinstance(v, slice):
            return f"slice({self.key(v.start)},{self.key(v.stop)},{self.key(v.step)})"
        if isinstance(v, LinOp):
            return f"LinOp({self.key(v.matvec)})"
        if isinstance(v, Partial):
            return f"partial({self.key(v.fn)},{self.key(v.args)})"
        if isinstance(v, Builtin):
            return f"<builtin {v.name}>"
        if isinstance(v, UnknownIter):
            return f"iter({v.key})"
        if isinstance(v, RecordType):
            return f"<namedtuple {v.name}>"
        if isinstance(v, ModRef):
            return f"<module {v.module.name}>"
        return f"<{type(v).__name__}>"

    def app(self, fname, args, kind="app"):
        args = tuple(args)
        name = f"{fname}(" + ";".join(self.key(a) for a in args) + ")"
        if name not in self.info:
            self.info[name] = (kind, {"f": fname, "args": args})
        return Num(self.A.atom(name))

    @staticmethod
    def op_str(op):
        if op[0] == "D":
            return f"D{list(op[2])}<{op[1]}>"
        if op[0] == "inv":
            return f"inv<{Machine.op_str(op[1])}>"
        return f"{op[0]}<{op[1]}>"

    def lin(self, op, arg):
        """the linear operator `op` applied to `arg` (distributed over the monomials of a polynomial argument)"""
        r = simplify(self.A.norm(self.num(arg).r))
        if r.n.is_zero():
            return self.const(0)
        ops = self.op_str(op)
        if r.d.is_const():
            dc = r.d.const_value()
            out = Rat(Poly())
            for mono, c in r.n.t.items():
                if len(mono) == 1 and mono[0][1] == 1:
                    # op applied to the result of its own inverse (or the other way round) is the argument itself
                    k_, ex_ = self.info.get(mono[0][0], ("", {}))
                    if k_ == "lin" and (ex_["op"] == ("inv", op) or op == ("inv", ex_["op"])):
                        inner = Rat(Poly({ex_["mono"]: Fraction(1)})) if "mono" in ex_ else ex_["rat"]
                        out = out + inner * Rat(Poly.const(Fraction(c) / dc))
                        continue
                ms = "*".join(k if e == 1 else f"{k}^{e}" for k, e in mono) or "1"
                name = f"{ops}[{ms}]"
                if name not in self.info:
                    self.info[name] = ("lin", {"op": op, "mono": mono})
                out = out + Rat(Poly({((name, 1),): c / dc}))
            return Num(out)
        name = f"{ops}[{r!r}]"
        if name not in self.info:
            self.info[name] = ("lin", {"op": op, "rat": r})
        return Num(self.A.atom(name))

    def kind(self, atom):
        if atom in self.info:
            return self.info[atom][0]
        if atom.startswith("sqrt["):
            return "sqrt"
        return "sym"

    def atoms_deep(self, v, seen=None):
        """all atoms occurring in a value, including those inside the structure of structured atoms"""
        seen = seen if seen is not None else set()
        if isinstance(v, Num):
            for a in v.r.atoms():
                self._atom_deep(a, seen)
        elif isinstance(v, OpaqueAttr):
            self.atoms_deep(self.num(v), seen)
        elif isinstance(v, Record):
            for x in v.values:
                self.atoms_deep(x, seen)
        elif isinstance(v, (tuple, list)):
            for x in v:
                self.atoms_deep(x, seen)
        elif isinstance(v, dict):
            for x in v.values():
                self.atoms_deep(x, seen)
        elif isinstance(v, Mat):
            for w, c in v.terms.items():
                self.atoms_deep(Num(c), seen)
                for s in w:
                    self._atom_deep(s, seen)
        return seen

    def _atom_deep(self, a, seen):
        if a in seen:
            return
        seen.add(a)
        k, ex = self.info.get(a, ("sym", {}))
        if k in ("app", "ret", "havoc", "stale", "sym", "matsym"):
            for x in ex.get("args", ()):
                self.atoms_deep(x, seen)
        elif k == "lin":
            self._op_atoms(ex["op"], seen)
            if "mono" in ex:
                for (b, _e) in ex["mono"]:
                    self._atom_deep(b, seen)
            else:
                for b in ex["rat"].atoms():
                    self._atom_deep(b, seen)
        if a.startswith("sqrt[") and a in self.A.rules:
            for b in self.A.rules[a].atoms():
                self._atom_deep(b, seen)

    def _op_atoms(self, op, seen):
        if op[0] == "D":
            self._atom_deep(op[1], seen)
        elif op[0] == "inv":
            self._op_atoms(op[1], seen)

    def kinds_in(self, v):
        return {self.kind(a) for a in self.atoms_deep(v)}

    # ------------------------------------------------------------------ substitution and differentiation (for jvp)
    def subst(self, v, mapping, memo=None):
        memo = memo if memo is not None else {}
        if isinstance(v, Num):
            return Num(self._subst_rat(v.r, mapping, memo))
        if isinstance(v, Record):
            return Record(v.tname, v.fields, [self.subst(x, mapping, memo) for x in v.values])
        if isinstance(v, tuple):
            return tuple(self.subst(x, mapping, memo) for x in v)
        if isinstance(v, list):
            return [self.subst(x, mapping, memo) for x in v]
        return v

    def _subst_rat(self, r, mapping, memo):
        def poly(p):
            res = Rat(Poly())
            for mono, c in p.t.items():
                term = Rat(Poly.const(c))
                for (a, e) in mono:
                    term = term * self._subst_atom(a, mapping, memo).pow(e)
                res = res + term
            return res
        return self.A.norm(poly(r.n) / poly(r.d)) if not r.d.is_const() else self.A.norm(poly(r.n) / Rat(r.d))

    def _subst_atom(self, a, mapping, memo) -> Rat:
        if a in mapping:
            return self.num(mapping[a]).r
        if a in memo:
            return memo[a]
        k, ex = self.info.get(a, ("sym", {}))
        out = None
        if a.startswith("sqrt[") and a in self.A.rules:
            out = self.A.sqrt(self._subst_rat(Rat(self.A.rules[a]), mapping, memo))
        elif k in ("app",) and "args" in ex:
            out = self.app(ex["f"], [self.subst(x, mapping, memo) for x in ex["args"]]).r
        elif k == "lin":
            op = self._subst_op(ex["op"], mapping, memo)
            arg = self._subst_rat(Rat(Poly({ex["mono"]: Fraction(1)})) if "mono" in ex else ex["rat"], mapping, memo)
            out = self.lin(op, Num(arg)).r
        if out is None:
            out = self.A.atom(a)
        memo[a] = out
        return out

    def _subst_op(self, op, mapping, memo):
        if op[0] == "D":
            r = simplify(self._subst_atom(op[1], mapping, memo))
            ats = list(r.n.atoms())
            if not (r.d.is_const() and len(r.n.t) == 1 and len(ats) == 1 and r.n.degree_in(ats[0]) == 1):
                raise Unsupported("derivative operator of a non-atomic function value")
            return ("D", ats[0], op[2])
        if op[0] == "inv":
            return ("inv", self._subst_op(op[1], mapping, memo))
        return op

    def depends(self, v, atom):
        return atom in self.atoms_deep(v)

    def deriv(self, y, xi, t):
        """directional derivative of the Num y with respect to the atom xi in direction t (a Num)"""
        r = self.num(y).r
        n, d = r.n, r.d
        dn = self._dpoly(n, xi, t)
        if d.is_const():
            return Num(self.A.norm(dn / Rat(d)))
        dd = self._dpoly(d, xi, t)
        return Num(self.A.norm((dn * Rat(d) - Rat(n) * dd) / Rat(d * d)))

    def _dpoly(self, p, xi, t):
        res = Rat(Poly())
        for a in sorted(p.atoms()):
            da = self._datom(a, xi, t)
            if da is not None:
                res = res + Rat(p.diff(a)) * da
        return res

    def _datom(self, a, xi, t):
        if a == xi:
            return self.num(t).r
        if xi not in self.atoms_deep(Num(self.A.atom(a))):
            return None
        k, ex = self.info.get(a, ("sym", {}))
        if a.startswith("sqrt[") and a in self.A.rules:
            dsq = self._dpoly(self.A.rules[a], xi, t)
            return dsq / (self.A.const(2) * self.A.atom(a))
        if k == "app":
            res = Rat(Poly())
            for j, x in enumerate(ex["args"]):
                if isinstance(x, Num) or isinstance(x, OpaqueAttr):
                    if self.depends(x, xi):
                        res = res + self.lin(("D", a, (j,)), self.deriv(x, xi, t)).r
                elif isinstance(x, Record):
                    for s, xs in enumerate(x.values):
                        if isinstance(xs, (Num, OpaqueAttr)) and self.depends(xs, xi):
                            res = res + self.lin(("D", a, (j, s)), self.deriv(xs, xi, t)).r
                        elif self.depends(xs, xi):
                            raise Unsupported("derivative through a nested structure")
                elif self.depends(x, xi):
                    raise Unsupported("derivative through a non-numeric argument")
            return res
        if k == "lin":
            seen = set()
            self._op_atoms(ex["op"], seen)
            if xi in seen:
                raise Unsupported("second derivative of an opaque function")
            arg = Num(Rat(Poly({ex["mono"]: Fraction(1)}))) if "mono" in ex else Num(ex["rat"])
            return self.lin(ex["op"], self.deriv(arg, xi, t)).r
        raise Unsupported(f"derivative of a value of kind {k}")

    # ------------------------------------------------------------------ numbers
    def num(self, v):
        if isinstance(v, Num):
            return v
        if isinstance(v, bool):
            raise Unsupported("boolean used as a number")
        if isinstance(v, (int, float, Fraction)):
            return self.const(v)
        if isinstance(v, OpaqueAttr):
            b = v.base
            if isinstance(b, Obj):
                return self.sym(f"{b.name}.{v.name}" + (f"@{b.epoch}" if b.opaque and b.epoch else ""), "sym", args=())
            return self.app(f".{v.name}", [b])
        if isinstance(v, Obj) and v.opaque:
            self.numified.add(v.name)
            return self.sym(v.name, "sym")
        if isinstance(v, Mat):
            return self.mat_as_vec(v)
        raise Unsupported(f"not a number: {self.key(v)[:60]}")

    def is_numlike(self, v):
        return isinstance(v, (Num, int, float, Fraction, OpaqueAttr)) and not isinstance(v, bool) or (isinstance(v, Obj) and v.opaque)

    def rat_const(self, v):
        r = simplify(self.A.norm(v.r))
        if r.n.is_const() and r.d.is_const() and r.d.const_value() != 0:
            return r.n.const_value() / r.d.const_value()
        return None

    def equal(self, a, b):
        return self.A.equal(self.num(a).r, self.num(b).r)

    def same(self, a, b):
        """structural equality of two values (numbers by algebra, records slot-wise, objects by identity)"""
        if isinstance(a, Record) and isinstance(b, Record):
            return len(a.values) == len(b.values) and all(self.same(x, y) for x, y in zip(a.values, b.values))
        if isinstance(a, (tuple, list)) and isinstance(b, (tuple, list)):
            return len(a) == len(b) and all(self.same(x, y) for x, y in zip(a, b))
        if self.is_numlike(a) and self.is_numlike(b):
            try:
                return self.equal(a, b)
            except Unsupported:
                return False
        if isinstance(a, Mat) and isinstance(b, Mat):
            return self.key(a) == self.key(b)
        return a is b or (type(a) is type(b) and self.key(a) == self.key(b) and not isinstance(a, Obj))

    # ------------------------------------------------------------------ matrices
    def matsym(self, name, **extra):
        if name not in self.info:
            self.info[name] = ("matsym", extra)
        return name

    def mat_diag(self, d):
        d = self.num(d)
        return Mat({(self.matsym(f"diag({self.key(d)})", diag=d),): self.A.const(1)})

    def as_mat(self, v):
        if isinstance(v, Mat):
            return v
        n = self.num(v)
        r = simplify(self.A.norm(n.r))
        if r.d.is_const():
            terms = {}
            for mono, c in r.n.t.items():
                if len(mono) == 1 and mono[0][1] == 1:
                    terms[(mono[0][0],)] = self.A.const(c / r.d.const_value())
                elif mono == ():
                    raise Unsupported("scalar added to a matrix")
                else:
                    mn = Num(Rat(Poly({mono: Fraction(1)})))
                    terms[(self.matsym(f"m({self.key(mn)})", num=mn),)] = self.A.const(c / r.d.const_value())
            return Mat(terms)
        return Mat({(self.matsym(f"m({self.key(n)})", num=n),): self.A.const(1)})

    def mat_as_vec(self, m):
        """diag(d1) ... diag(dk) x  (x the only non-diagonal symbol, last) is the vector d1*...*dk*x"""
        out = Rat(Poly())
        for w, c in m.terms.items():
            if not w:
                raise Unsupported("empty matrix word")
            term = c
            for s_ in w[:-1]:
                ex = self.info.get(s_, ("", {}))[1]
                if "diag" not in ex:
                    raise Unsupported("matrix product used as a vector")
                term = term * ex["diag"].r
            ex = self.info.get(w[-1], ("", {}))[1]
            if "diag" in ex:
                raise Unsupported("matrix used as a vector")
            term = term * (ex["num"].r if "num" in ex else self.A.atom(w[-1]))
            out = out + term
        return Num(self.A.norm(out))

    def mat_T(self, m):
        def tr(s):
            k, ex = self.info.get(s, ("sym", {}))
            if k == "matsym" and "diag" in ex:
                return s
            if s.startswith("T(") and s.endswith(")"):
                return s[2:-1]
            return self.matsym(f"T({s})")
        return Mat({tuple(tr(s) for s in reversed(w)): c for w, c in m.terms.items()})

    def mat_mul(self, a, b):
        if isinstance(a, Mat) and isinstance(b, Mat):
            out = {}
            for w1, c1 in a.terms.items():
                for w2, c2 in b.terms.items():
                    out[w1 + w2] = self.A.norm(out.get(w1 + w2, Rat(Poly())) + c1 * c2)
            return Mat(out)
        if isinstance(a, Mat):
            return self.mat_mul(a, self.as_mat(b))
        return self.mat_mul(self.as_mat(a), b)

    def mat_add(self, a, b, sign=1):
        a, b = self.as_mat(a), self.as_mat(b)
        out = dict(a.terms)
        for w, c in b.terms.items():
            out[w] = self.A.norm(out.get(w, Rat(Poly())) + (c if sign > 0 else -c))
        return Mat(out)

    # ------------------------------------------------------------------ module environments
    def modenv(self, module):
        if module.name not in self.modenvs:
            self.modenvs[module.name] = Env(module.scope, None)
        return self.modenvs[module.name]

    def module_value(self, module, name, _depth=0):
        env = self.modenv(module)
        if name in env.vars:
            return env.vars[name]
        sc = module.scope
        bs = sc.bindings.get(name)
        if not bs:
            s2, bs2 = self.repo.star_lookup(name, module)
            if s2 is not None:
                return self.module_value(s2.module, name, _depth + 1)
            import builtins
            if hasattr(builtins, name):
                return ExtRef("builtins." + name)
            raise Unsupported(f"name {name} unbound in {module.name}")
        b = bs[-1]
        if b.kind == "def":
            v = Closure(b.extra, env)
        elif b.kind == "class":
            v = ClassRef(b.extra)
        elif b.kind == "import":
            m = self.repo.modules.get(b.extra)
            v = ModRef(m) if m else ExtRef(b.extra)
        elif b.kind == "importfrom":
            modname, attr, level = b.extra
            if level:
                base = module.name.rsplit(".", level)[0]
                modname = base + ("." + modname if modname else "")
            full = f"{modname}.{attr}"
            if full in self.repo.modules:
                v = ModRef(self.repo.modules[full])
            elif modname in self.repo.modules:
                v = self.module_value(self.repo.modules[modname], attr, _depth + 1)
            else:
                v = ExtRef(canonical_ext(full))
        elif b.kind == "assign" and b.value is not None:
            v = self.eval(b.value, env)
            if b.index:
                for i in b.index:
                    v = self.getitem(v, i)
        else:
            raise Unsupported(f"module binding {name} of kind {b.kind}")
        env.vars[name] = v
        return v

    def class_env(self, c):
        """environment in which the right-hand sides of class-level assignments are evaluated: the class's own functions and earlier
        class-level names are visible, then the module"""
        env = Env(c, self.modenv(c.module))
        for ch in c.children:
            if ch.kind == "function":
                env.vars[ch.name] = Closure(ch, self.modenv(ch.module))
        return env

    def root_module(self, env):
        e = env
        while e.parent is not None:
            e = e.parent
        return e.scope.module

    def lookup(self, name, env):
        e = env.find(name)
        if e is not None:
            return e.vars[name]
        return self.module_value(self.root_module(env), name)

    def setvar(self, name, v, env):
        sc = env.scope
        if sc is not None and name in getattr(sc, "nonlocals_", ()):
            e = env.parent.find(name) if env.parent else None
            if e is not None:
                e.vars[name] = v
                return
        env.vars[name] = v

    # ------------------------------------------------------------------ expressions
    def tick(self):
        self.steps += 1
        if self.steps > self.max_steps:
            raise Budget("interpretation step budget exhausted")

    def eval(self, e, env):
        self.tick()
        m = getattr(self, "e_" + type(e).__name__, None)
        if m is None:
            raise Unsupported(f"expression {type(e).__name__}: {norm_src(e)[:50]}")
        return m(e, env)

    def e_Constant(self, e, env):
        return e.value

    def e_Name(self, e, env):
        return self.lookup(e.id, env)

    def e_Tuple(self, e, env):
        return tuple(self._elts(e.elts, env))

    def e_List(self, e, env):
        return list(self._elts(e.elts, env))

    def _elts(self, elts, env):
        out = []
        for x in elts:
            if isinstance(x, ast.Starred):
                out += self.as_list(self.eval(x.value, env))
            else:
                out.append(self.eval(x, env))
        return out

    def as_list(self, v):
        if isinstance(v, Record):
            return list(v.values)
        if isinstance(v, (tuple, list)):
            return list(v)
        raise Unsupported(f"cannot unpack {self.key(v)[:40]}")

    def e_Dict(self, e, env):
        out = {}
        for k, v in zip(e.keys, e.values):
            if k is None:
                out.update(self.eval(v, env))
            else:
                out[self.eval(k, env)] = self.eval(v, env)
        return out

    def _comp(self, e, env, make):
        out = []

        def rec(k, env_k):
            if k == len(e.generators):
                out.append(make(env_k))
                return
            g = e.generators[k]
            it = self.eval(g.iter, env_k)
            if isinstance(it, dict):
                it = list(it.keys())
            if not isinstance(it, (tuple, list, Record)):
                raise Unsupported("comprehension over a symbolic iterable")
            for x in self.as_list(it):
                e2 = Env(env_k.scope, env_k)
                self.assign(g.target, x, e2)
                if all(self.truth(self.eval(c, e2)) for c in g.ifs):
                    rec(k + 1, e2)
        rec(0, env)
        return out

    def e_ListComp(self, e, env):
        return self._comp(e, env, lambda en: self.eval(e.elt, en))

    def e_GeneratorExp(self, e, env):
        return self._comp(e, env, lambda en: self.eval(e.elt, en))

    def e_DictComp(self, e, env):
        return dict(self._comp(e, env, lambda en: (self.eval(e.key, en), self.eval(e.value, en))))

    def e_NamedExpr(self, e, env):
        v = self.eval(e.value, env)
        self.assign(e.target, v, env)
        return v

    def e_JoinedStr(self, e, env):
        return "<fstring>"

    def e_Lambda(self, e, env):
        sc = self.repo.scope_of(e)
        if sc is None:
            raise Unsupported("lambda without scope")
        return Closure(sc, env)

    def e_IfExp(self, e, env):
        return self.eval(e.body if self.truth(self.eval(e.test, env)) else e.orelse, env)

    def e_UnaryOp(self, e, env):
        v = self.eval(e.operand, env)
        if isinstance(e.op, ast.Not):
            return not self.truth(v)
        if isinstance(e.op, ast.UAdd):
            return v
        if isinstance(e.op, ast.USub):
            if isinstance(v, (int, float, Fraction)) and not isinstance(v, bool):
                return -v
            if isinstance(v, Mat):
                return Mat({w: -c for w, c in v.terms.items()})
            return Num(-self.num(v).r)
        if isinstance(e.op, ast.Invert):
            if isinstance(v, bool):
                return not v
            return self.app("~", [v])
        raise Unsupported("unary operator")

    def e_BoolOp(self, e, env):
        is_and = isinstance(e.op, ast.And)
        v = None
        for x in e.values:
            v = self.eval(x, env)
            t = self.truth(v)
            if is_and and not t:
                return v if isinstance(v, (bool, type(None))) else False
            if not is_and and t:
                return v if not isinstance(v, (Num, OpaqueAttr)) else True
        return v if not isinstance(v, (Num, OpaqueAttr)) else self.truth(v)

    def e_BinOp(self, e, env):
        return self.binop(e.op, self.eval(e.left, env), self.eval(e.right, env))

    def binop(self, op, a, b):
        pyn = lambda x: isinstance(x, (int, float, Fraction)) and not isinstance(x, bool)
        if pyn(a) and pyn(b):
            try:
                if isinstance(op, ast.Add):
                    return a + b
                if isinstance(op, ast.Sub):
                    return a - b
                if isinstance(op, ast.Mult):
                    return a * b
                if isinstance(op, ast.Div):
                    return Fraction(a) / Fraction(b) if isinstance(a, (int, Fraction)) and isinstance(b, (int, Fraction)) else a / b
                if isinstance(op, ast.Pow):
                    return Fraction(a) ** b if isinstance(a, (int, Fraction)) and isinstance(b, int) else float(a) ** float(b)
                if isinstance(op, ast.FloorDiv):
                    return a // b
                if isinstance(op, ast.Mod):
                    return a % b
            except (ZeroDivisionError, OverflowError, ValueError):
                raise PathEnd("arithmetic error on constants")
        if isinstance(a, str):
            return a
        if isinstance(a, (tuple, list)) and isinstance(b, (tuple, list)) and isinstance(op, ast.Add):
            return type(a)(list(a) + list(b))
        if isinstance(a, Mat) or isinstance(b, Mat):
            if isinstance(op, (ast.Mult, ast.MatMult)):
                if isinstance(b, Mat) and not isinstance(a, Mat) and self.is_numlike(a) and self.rat_const(self.num(a)) is not None:
                    return Mat({w: self.A.norm(c * self.num(a).r) for w, c in b.terms.items()})
                if isinstance(a, Mat) and self.is_numlike(b) and self.rat_const(self.num(b)) is not None:
                    return Mat({w: self.A.norm(c * self.num(b).r) for w, c in a.terms.items()})
                return self.mat_mul(a, b)
            if isinstance(op, ast.Add):
                return self.mat_add(a, b)
            if isinstance(op, ast.Sub):
                return self.mat_add(a, b, -1)
            raise Unsupported("matrix operator")
        if not (self.is_numlike(a) and self.is_numlike(b)):
            raise Unsupported(f"operands {self.key(a)[:30]} {type(op).__name__} {self.key(b)[:30]}")
        if isinstance(op, (ast.Mult, ast.Div)):
            # an element-wise factor applied to stacked arrays reaches every part: s * stack((a, b)) = stack((s*a, s*b))
            for u, w, left in ((a, b, True), (b, a, False)):
                if isinstance(op, ast.Div) and not left:
                    continue
                st_ = self._stack_parts(u)
                if st_ is not None and self.is_numlike(w):
                    fname, parts, rest = st_
                    scaled = type(parts)(self.binop(op, x_, w) if left else self.binop(op, w, x_) for x_ in parts)
                    return self.app(fname, [scaled] + list(rest))
        x, y = self.num(a).r, self.num(b).r
        if isinstance(op, ast.Add):
            return Num(self.A.norm(x + y))
        if isinstance(op, ast.Sub):
            return Num(self.A.norm(x - y))
        if isinstance(op, ast.Mult):
            return Num(self.A.norm(x * y))
        if isinstance(op, ast.Div):
            if self.A.is_zero(y):
                raise PathEnd("division by zero")
            return Num(self.A.norm(x / y))
        if isinstance(op, ast.Pow):
            kc = self.rat_const(Num(y))
            if kc is not None and kc.denominator == 1 and abs(kc) <= 8:
                return Num(self.A.norm(x.pow(int(kc))))
            if kc is not None and kc.denominator == 2 and abs(kc.numerator) <= 8:
                return Num(self.A.norm(self.A.sqrt(x).pow(int(kc.numerator))))
            return self.app("pow", [Num(x), Num(y)])
        names = {ast.MatMult: "matmul", ast.FloorDiv: "floordiv", ast.Mod: "mod", ast.BitAnd: "and", ast.BitOr: "or", ast.BitXor: "xor",
                 ast.LShift: "lshift", ast.RShift: "rshift"}
        return self.app(names.get(type(op), "binop"), [Num(x), Num(y)])

    STACKING = {"column_stack", "stack", "vstack", "hstack", "concatenate", "row_stack", "dstack"}

    def _stack_parts(self, v):
        """(function, parts, other arguments) if v is exactly the value of a numpy stacking function applied to a tuple / list of arrays"""
        if not isinstance(v, Num):
            return None
        ats = list(v.r.atoms())
        if len(ats) != 1 or not self.equal(v, Num(self.A.atom(ats[0]))):
            return None
        k, ex = self.info.get(ats[0], ("", {}))
        f = ex.get("f", "") if k == "app" else ""
        if f.startswith("ext:") and f.split(".")[0] in ("ext:numpy", "ext:jax") and f.split(".")[-1] in self.STACKING and ex["args"] \
                and isinstance(ex["args"][0], (tuple, list)) and all(self.is_numlike(x) for x in ex["args"][0]):
            return f, ex["args"][0], ex["args"][1:]
        return None

    def e_Compare(self, e, env):
        left = self.eval(e.left, env)
        res = True
        for op, c in zip(e.ops, e.comparators):
            right = self.eval(c, env)
            r = self.compare(left, op, right)
            if isinstance(r, bool):
                if not r:
                    return False
            else:
                res = r if res is True else self.app("and", [res, r])
            left = right
        return res

    def compare(self, a, op, b):
        if isinstance(op, (ast.Is, ast.IsNot)):
            r = (a is b) or (a is None and b is None) or (isinstance(a, bool) and isinstance(b, bool) and a == b)
            if (a is None) != (b is None):
                r = False
            return r if isinstance(op, ast.Is) else not r
        simple = (str, type(None), bool, int, float, Fraction, tuple)
        if isinstance(a, simple) and isinstance(b, simple):
            try:
                return {ast.Eq: lambda: a == b, ast.NotEq: lambda: a != b, ast.Lt: lambda: a < b, ast.LtE: lambda: a <= b,
                        ast.Gt: lambda: a > b, ast.GtE: lambda: a >= b, ast.In: lambda: a in b, ast.NotIn: lambda: a not in b}[type(op)]()
            except (TypeError, KeyError):
                raise Unsupported("comparison of constants")
        if a is None or b is None:
            # an object / number compared with None
            if isinstance(op, ast.Eq):
                return False
            if isinstance(op, ast.NotEq):
                return True
        if isinstance(op, (ast.In, ast.NotIn)) and isinstance(b, (tuple, list, dict)) and isinstance(a, (str, int)):
            r = a in b
            return r if isinstance(op, ast.In) else not r
        if self.is_numlike(a) and self.is_numlike(b):
            x, y = self.num(a), self.num(b)
            d = self.rat_const(Num(self.A.norm(x.r - y.r)))
            if d is not None:
                return {ast.Eq: d == 0, ast.NotEq: d != 0, ast.Lt: d < 0, ast.LtE: d <= 0, ast.Gt: d > 0, ast.GtE: d >= 0}.get(type(op), None) \
                    if type(op) in (ast.Eq, ast.NotEq, ast.Lt, ast.LtE, ast.Gt, ast.GtE) else self.app("cmp:" + type(op).__name__, [x, y])
            return self.app("cmp:" + type(op).__name__, [x, y])
        if isinstance(op, (ast.Eq, ast.NotEq)):
            same = a is b
            if isinstance(a, (Obj, Closure, ClassRef)) or isinstance(b, (Obj, Closure, ClassRef)):
                return same if isinstance(op, ast.Eq) else not same
        raise Unsupported(f"comparison {self.key(a)[:30]} {type(op).__name__} {self.key(b)[:30]}")

    def truth(self, v):
        if isinstance(v, bool):
            return v
        if v is None:
            return False
        if isinstance(v, (int, float, Fraction)):
            return v != 0
        if isinstance(v, (str, tuple, list, dict)):
            return bool(v)
        if isinstance(v, Record):
            return True
        if isinstance(v, (Closure, Bound, Builtin, ExtRef, ClassRef, FunSym, GradFn, JitFn, Partial, LinOp, ModRef, Mat)):
            return True
        if isinstance(v, Obj) and not v.opaque:
            if v.cls is not None:
                # instances of classes that define __bool__/__len__ are not modelled
                for c in self.repo.class_mro(v.cls):
                    if "__bool__" in c.bindings or "__len__" in c.bindings:
                        return self.oracle.choose(f"truth:{v.name}") == 0
            return True
        if isinstance(v, (Num, OpaqueAttr)) or (isinstance(v, Obj) and v.opaque):
            n = self.num(v)
            c = self.rat_const(n)
            if c is not None:
                return c != 0
            return self.oracle.choose("truth:" + self.key(n), 2, self.loop_depth > 0) == 0
        raise Unsupported(f"truth value of {self.key(v)[:40]}")

    def e_Subscript(self, e, env):
        base = self.eval(e.value, env)
        return self.getitem(base, self.eval_index(e.slice, env))

    def eval_index(self, s, env):
        if isinstance(s, ast.Slice):
            f = lambda x: None if x is None else self.eval(x, env)
            return slice(f(s.lower), f(s.upper), f(s.step))
        if isinstance(s, ast.Tuple):
            return tuple(self.eval_index(x, env) for x in s.elts)
        return self.eval(s, env)

    def _int(self, k):
        if isinstance(k, bool):
            return None
        if isinstance(k, int):
            return k
        if isinstance(k, Fraction) and k.denominator == 1:
            return int(k)
        if isinstance(k, Num):
            c = self.rat_const(k)
            if c is not None and c.denominator == 1:
                return int(c)
        return None

    def getitem(self, base, key):
        if isinstance(base, (Record, tuple, list)):
            seq = base.values if isinstance(base, Record) else base
            if isinstance(key, slice):
                lo, hi, st = (None if x is None else self._int(x) for x in (key.start, key.stop, key.step))
                if any(x is not None and y is None for x, y in ((key.start, lo), (key.stop, hi), (key.step, st))):
                    raise Unsupported("symbolic slice of a tuple")
                return tuple(seq[slice(lo, hi, st)])
            k = self._int(key)
            if k is None:
                # an unknown position in a sequence of known length: one path per position (branch coverage inside loops)
                if not self.is_numlike(key) or isinstance(key, bool) or not 0 < len(seq) <= 8:
                    raise Unsupported(f"symbolic index {self.key(key)[:30]} into a tuple")
                k = self.oracle.choose(f"index:{self.key(self.num(key))} of {len(seq)}", len(seq), self.loop_depth > 0)
            try:
                return seq[k]
            except IndexError:
                raise PathEnd("index out of range")
        if isinstance(base, dict):
            if key in base:
                return base[key]
            raise PathEnd("missing key")
        if isinstance(base, (Num, OpaqueAttr)) or (isinstance(base, Obj) and base.opaque):
            k = self._int(key) if not isinstance(key, (slice, tuple)) else None
            if k is not None and k >= 0 and not isinstance(base, OpaqueAttr):
                return self.app("item", [self.num(base), k])      # same value as the k-th target of a tuple unpacking
            return self.app("[]", [self.num(base), key])
        if isinstance(base, Mat):
            return self.app("[]", [base, key])
        raise Unsupported(f"subscript of {self.key(base)[:40]}")

    # ---- attributes
    def e_Attribute(self, e, env):
        return self.getattr(self.eval(e.value, env), e.attr)

    def getattr(self, base, a):
        if isinstance(base, ModRef):
            sub = self.repo.modules.get(base.module.name + "." + a)
            try:
                return self.module_value(base.module, a)
            except Unsupported:
                if sub is not None:
                    return ModRef(sub)
                raise
        if isinstance(base, ExtRef):
            return ExtRef(canonical_ext(base.name + "." + a))
        if isinstance(base, Record):
            if a in base.fields:
                return base.values[base.fields.index(a)]
            if a == "_replace":
                return Builtin("_replace", lambda m, args, kw, node, env, base=base: Record(
                    base.tname, base.fields, [kw.get(f, v) for f, v in zip(base.fields, base.values)]) if not args and set(kw) <= set(base.fields)
                    else m._fail("namedtuple._replace arguments"))
            if a == "_fields":
                return tuple(base.fields)
            if a == "_asdict":
                return Builtin("_asdict", lambda m, args, kw, node, env, base=base: dict(zip(base.fields, base.values)))
            raise Unsupported(f"attribute {a} of a namedtuple")
        if isinstance(base, RecordType):
            if a == "_fields":
                return tuple(base.fields)
            if a == "_make":
                return Builtin("_make", lambda m, args, kw, node, env, base=base: m.call(base, m.as_list(args[0]), {}, node, env))
            raise Unsupported(f"attribute {a} of a namedtuple type")
        if isinstance(base, Obj):
            return self.getattr_obj(base, a)
        if isinstance(base, SuperProxy):
            mro = self.repo.class_mro(base.obj.cls) if base.obj.cls is not None else []
            if base.after in mro:
                mro = mro[mro.index(base.after) + 1:]
            for c in mro:
                for ch in c.children:
                    if ch.kind == "function" and ch.name == a:
                        return Bound(base.obj, Closure(ch, self.modenv(ch.module)))
            if a == "__init__":
                return Builtin("object.__init__", lambda m, args, kw, node, env: None)
            raise Unsupported(f"super().{a} not found")
        if isinstance(base, ClassRef):
            for c in self.repo.class_mro(base.scope):
                for ch in c.children:
                    if ch.kind == "function" and ch.name == a:
                        return Closure(ch, self.modenv(ch.module))
            raise Unsupported(f"class attribute {a}")
        if isinstance(base, Mat):
            if a == "T":
                return self.mat_T(base)
            return OpaqueAttr(base, a)
        if isinstance(base, (Num, OpaqueAttr)):
            if a == "primal":
                # value of a jax tracer: the number itself (documented in the trusted base)
                return self.num(base)
            return OpaqueAttr(self.num(base), a)
        if isinstance(base, (list,)) and a in ("append", "extend", "insert"):
            def mut(m, args, kw, node, env, base=base, a=a):
                if a == "append":
                    base.append(args[0])
                elif a == "extend":
                    base.extend(m.as_list(args[0]))
                else:
                    base.insert(m._int(args[0]), args[1])
                return None
            return Builtin("list." + a, mut)
        if isinstance(base, dict) and a in ("update", "pop", "setdefault", "copy"):
            def dmut(m, args, kw, node, env, base=base, a=a):
                if a == "update":
                    for x in args:
                        if isinstance(x, dict):
                            base.update(x)
                        elif isinstance(x, (list, tuple)) and all(isinstance(y, (list, tuple)) and len(y) == 2 for y in x):
                            base.update({y[0]: y[1] for y in x})
                        else:
                            raise Unsupported("dict.update argument")
                    base.update(kw)
                    return None
                if a == "copy":
                    return dict(base)
                if a == "pop":
                    if args[0] in base:
                        return base.pop(args[0])
                    if len(args) > 1:
                        return args[1]
                    raise PathEnd("KeyError")
                return base.setdefault(args[0], args[1] if len(args) > 1 else None)
            return Builtin("dict." + a, dmut)
        if isinstance(base, dict) and a in ("get", "items", "keys", "values"):
            if a == "get":
                return Builtin("dict.get", lambda m, args, kw, node, env, base=base: base.get(args[0], args[1] if len(args) > 1 else None))
            return Builtin("dict." + a, lambda m, args, kw, node, env, base=base, a=a: list(getattr(base, a)()))
        raise Unsupported(f"attribute {a} of {self.key(base)[:40]}")

    def _fail(self, why):
        raise Unsupported(why)

    def getattr_obj(self, o, a):
        if a in o.attrs:
            v = o.attrs[a]
            if self.jit_depth > 0 and a in self.mutable_attrs and isinstance(v, (Num, Record, tuple, int, float, Fraction)) and not isinstance(v, bool):
                return self.stale(v, f"{o.name}.{a}")
            return v
        if a in o.spec:
            return Builtin(f"{o.name}.{a}", lambda m, args, kw, node, env, f=o.spec[a], o=o: f(m, o, args, kw, node))
        if o.cls is not None:
            for c in self.repo.class_mro(o.cls):
                for ch in c.children:
                    if ch.kind == "function" and ch.name == a:
                        decos = {norm_src(d) for d in ch.node.decorator_list}
                        cl = Closure(ch, self.modenv(ch.module))
                        if "staticmethod" in decos:
                            return cl
                        if "property" in decos:
                            return self.call_closure(cl, [o], {}, None)
                        if decos:
                            raise Unsupported(f"decorated method {ch.qualname}")
                        return Bound(o, cl)
                if a in c.bindings and c.bindings[a][-1].kind == "assign" and c.bindings[a][-1].value is not None:
                    v = self.eval(c.bindings[a][-1].value, self.class_env(c))
                    if isinstance(v, Closure) or (isinstance(v, JitFn) and isinstance(v.fn, Closure)):
                        return Bound(o, v)          # a function stored in the class body is a method
                    return v
            if not o.spec:
                raise PathEnd(f"AttributeError: {o.name}.{a}")
        return OpaqueAttr(o, a)

    def stale(self, v, what):
        if isinstance(v, Record):
            return Record(v.tname, v.fields, [self.stale(x, f"{what}[{i}]") for i, x in enumerate(v.values)])
        if isinstance(v, tuple):
            return tuple(self.stale(x, f"{what}[{i}]") for i, x in enumerate(v))
        return self.sym(f"stale[{what}]", "stale")

    def setattr(self, o, a, v, node=None):
        if not isinstance(o, Obj):
            raise Unsupported(f"attribute store on {self.key(o)[:40]}")
        self.setlog.append((o, a, o.attrs.get(a, MISSING)))
        o.attrs[a] = v
        self.events.append({"kind": "set", "obj": o, "attr": a, "value": v, "node": node})

    # ------------------------------------------------------------------ calls
    def e_Call(self, e, env):
        f = self.eval(e.func, env)
        args = self._elts(e.args, env)
        kwargs = {}
        for k in e.keywords:
            if k.arg is None:
                d = self.eval(k.value, env)
                if not isinstance(d, dict):
                    raise Unsupported("** of a non-dict")
                kwargs.update(d)
            else:
                kwargs[k.arg] = self.eval(k.value, env)
        return self.call(f, args, kwargs, e, env)

    def objs_in(self, v, out=None):
        out = out if out is not None else []
        if isinstance(v, Obj):
            if v not in out:
                out.append(v)
        elif isinstance(v, Record):
            for x in v.values:
                self.objs_in(x, out)
        elif isinstance(v, (tuple, list)):
            for x in v:
                self.objs_in(x, out)
        elif isinstance(v, dict):
            for x in v.values():
                self.objs_in(x, out)
        elif isinstance(v, Bound):
            self.objs_in(v.obj, out)
        elif isinstance(v, OpaqueAttr):
            self.objs_in(v.base, out)
        elif isinstance(v, Partial):
            self.objs_in(v.args, out)
            self.objs_in(v.kwargs, out)
        return out

    def opaque_call(self, desc, args, kwargs, node, callee_scope=None, force_event=False):
        objs = [o for o in self.objs_in([args, kwargs])]
        if not objs and not force_event:
            return self.app(desc, list(args) + [(k, kwargs[k]) for k in sorted(kwargs)])
        idx = len(self.events)
        k = self.stem_counter.get("ret:" + desc, 0) + 1
        self.stem_counter["ret:" + desc] = k
        ret = self.sym(f"ret[{desc}#{k}]", "ret", event=idx, args=())
        self.events.append({"kind": "use", "ret": ret, "callee": desc, "callee_scope": callee_scope, "args": list(args), "kwargs": dict(kwargs), "node": node,
                            "discarded": node is not None and node is self.expr_stmt_value,
                            "snap": {id(o): (o, dict(o.attrs)) for o in objs}, "idx": idx})
        for o in objs:
            if o.opaque:
                o.epoch += 1
        return ret

    def call(self, f, args, kwargs, node=None, env=None):
        self.tick()
        if isinstance(f, Closure):
            sc = f.scope
            if sc.kind == "function" and sc.parent is not None and sc.parent.kind == "module":
                mode = self.inline(sc)
                if not mode:
                    return self.opaque_call(sc.qualname, args, kwargs, node, callee_scope=sc)
                if mode == "try":
                    # optional inlining of a small helper: if it cannot be interpreted the call is an opaque use
                    objs = self.objs_in([args, kwargs])
                    snap = (len(self.events), len(self.setlog), [(o, dict(o.attrs), o.epoch) for o in objs], self.depth, self.jit_depth)
                    try:
                        return self.call_closure(f, args, kwargs, node)
                    except Unsupported:
                        del self.events[snap[0]:]
                        del self.setlog[snap[1]:]
                        for (o, at, ep) in snap[2]:
                            o.attrs, o.epoch = at, ep
                        self.depth, self.jit_depth = snap[3], snap[4]
                        return self.opaque_call(sc.qualname, args, kwargs, node, callee_scope=sc)
            return self.call_closure(f, args, kwargs, node)
        if isinstance(f, Bound):
            if isinstance(f.fn, Closure):
                return self.call_closure(f.fn, [f.obj] + list(args), kwargs, node)
            return self.call(f.fn, [f.obj] + list(args), kwargs, node, env)
        if isinstance(f, Builtin):
            return f.fn(self, args, kwargs, node, env)
        if isinstance(f, ExtRef):
            return self.call_ext(f.name, args, kwargs, node, env)
        if isinstance(f, ClassRef):
            return self.instantiate(f.scope, args, kwargs, node)
        if isinstance(f, RecordType):
            vals = list(args) + [MISSING] * (len(f.fields) - len(args))
            if len(args) > len(f.fields):
                raise PathEnd("too many namedtuple fields")
            for k, v in kwargs.items():
                if k not in f.fields:
                    raise PathEnd(f"unknown namedtuple field {k}")
                vals[f.fields.index(k)] = v
            nreq = len(f.fields) - f.ndefaults
            for i, v in enumerate(vals):
                if v is MISSING:
                    if i < nreq:
                        raise PathEnd("missing namedtuple field")
                    vals[i] = None
            return Record(f.name, f.fields, vals)
        if isinstance(f, FunSym):
            if kwargs:
                raise Unsupported("keyword arguments of an opaque function")
            return self.app(f.name, args)
        if isinstance(f, GradFn):
            if kwargs:
                raise Unsupported("keyword arguments of a gradient")
            return self.app(f"grad{f.argnum}[{self.key(f.fn)}]", args)
        if isinstance(f, JitFn):
            self.jit_depth += 1
            try:
                return self.call(f.fn, args, kwargs, node, env)
            finally:
                self.jit_depth -= 1
        if isinstance(f, Partial):
            kw = dict(f.kwargs)
            kw.update(kwargs)
            return self.call(f.fn, list(f.args) + list(args), kw, node, env)
        if isinstance(f, OpaqueAttr):
            b = f.base
            if isinstance(b, Obj):
                idx = len(self.events)
                stem = f"{b.name}.{f.name}"
                k = self.stem_counter.get("ocall:" + stem, 0) + 1
                self.stem_counter["ocall:" + stem] = k
                r = self.sym(f"{stem}#{k}(" + ";".join(self.key(a) for a in args) + ")", "ret", event=idx, args=tuple(args))
                self.events.append({"kind": "ocall", "ret": r, "obj": b, "meth": f.name, "args": list(args), "kwargs": dict(kwargs), "node": node, "idx": idx,
                                    "discarded": node is not None and node is self.expr_stmt_value,
                                    "snap": {id(o): (o, dict(o.attrs)) for o in self.objs_in([b, args, kwargs])}})
                b.epoch += 1
                return r
            if isinstance(b, Mat) and f.name == "diagonal" and not args:
                return self.app("diagonal", [b])
            if isinstance(b, Mat) and f.name == "transpose" and not args:
                return self.mat_T(b)
            if isinstance(b, Mat) and f.name in ("tocsc", "tocsr", "tocoo", "asformat", "astype") :
                return b
            if isinstance(b, Mat) and f.name in ("dot", "multiply_matrix", "__matmul__") and len(args) == 1:
                return self.mat_mul(b, args[0])
            if f.name in ("copy", "block_until_ready", "squeeze_copy") and not args and isinstance(b, (Num, Mat)):
                return b
            if f.name in SHAPE_ONLY_METHODS and isinstance(b, Num) and not self.objs_in([args, kwargs]):
                return b            # vectors and scalars are not distinguished: a change of shape / dtype keeps the value
            if self.objs_in([args, kwargs]):
                return self.opaque_call(f".{f.name}", [b] + list(args), kwargs, node)
            return self.app(f".{f.name}", [b] + list(args) + [(k, kwargs[k]) for k in sorted(kwargs)])
        if isinstance(f, Obj) and f.opaque:
            return self.opaque_call(f.name, args, kwargs, node, force_event=True)
        if isinstance(f, Obj) and (f.cls is not None or "__call__" in f.spec):
            # instance of a class that defines __call__ (function object)
            try:
                meth = self.getattr_obj(f, "__call__")
            except PathEnd:
                raise PathEnd(f"{f.name} is not callable")
            if isinstance(meth, OpaqueAttr):
                raise Unsupported(f"call of the object {f.name}")
            return self.call(meth, args, kwargs, node, env)
        if isinstance(f, Num):
            return self.opaque_call("call:" + self.key(f), args, kwargs, node)
        if isinstance(f, LinOp):
            return self.call(f.matvec, args, kwargs, node, env)
        raise Unsupported(f"call of {self.key(f)[:40]}")

    def bind(self, sc, args, kwargs, defenv):
        ps = sc.params()
        vals = {}
        args = list(args)
        if len(args) > len(ps):
            if not sc.has_varargs():
                raise PathEnd(f"too many arguments for {sc.qualname}")
            vals[sc.node.args.vararg.arg] = tuple(args[len(ps):])
            args = args[:len(ps)]
        elif sc.has_varargs():
            vals[sc.node.args.vararg.arg] = ()
        for p, a in zip(ps, args):
            vals[p] = a
        extra = {}
        for k, v in kwargs.items():
            if k in ps or k in sc.kwonly():
                if k in vals:
                    raise PathEnd(f"multiple values for argument {k}")
                vals[k] = v
            elif sc.has_kwargs():
                extra[k] = v
            else:
                raise PathEnd(f"unexpected keyword argument {k} for {sc.qualname}")
        if sc.has_kwargs():
            vals[sc.node.args.kwarg.arg] = extra
        for p in ps + sc.kwonly():
            if p not in vals:
                d = sc.default_of(p)
                if d is None:
                    raise PathEnd(f"missing argument {p} of {sc.qualname}")
                vals[p] = self.eval(d, defenv)
        return vals

    def call_closure(self, f, args, kwargs, node=None):
        sc = f.scope
        self.depth += 1
        if self.depth > 60:
            self.depth -= 1
            raise Unsupported("recursion too deep")
        try:
            self.visited.add(sc.qualname)
            env = Env(sc, f.env)
            env.vars.update(self.bind(sc, args, kwargs, f.env))
            w = self.watch.get(sc.qualname)
            token = w(self, "enter", {"scope": sc, "env": env, "node": node}) if w else None
            act = {"scope": sc, "args": dict(env.vars), "node": node, "value": None, "returned": False, "ev_lo": len(self.events),
                   "ev_hi": None, "depth": self.depth, "idx": len(self.activations)}
            self.activations.append(act)
            try:
                if sc.kind == "lambda":
                    out = self.eval(sc.node.body, env)
                else:
                    out = None
                    try:
                        self.block(sc.node.body, env)
                    except _Return as r:
                        out = r.value
                act["value"], act["returned"] = out, True
            finally:
                act["ev_hi"] = len(self.events)
            if w:
                w(self, "exit", {"scope": sc, "env": env, "node": node, "value": out, "token": token})
            return out
        finally:
            self.depth -= 1

    def instantiate(self, cls, args, kwargs, node=None):
        self.counter += 1
        o = Obj(f"{cls.name}#{self.counter}", cls=cls)
        for c in self.repo.class_mro(cls):
            for ch in c.children:
                if ch.kind == "function" and ch.name == "__init__":
                    self.call_closure(Closure(ch, self.modenv(ch.module)), [o] + list(args), kwargs, node)
                    return o
        decos = {norm_src(d).split("(")[0].split(".")[-1] for d in getattr(cls.node, "decorator_list", [])}
        if "dataclass" in decos:
            # generated constructor: the annotated class-level names, in order, bases first
            fields = []
            for c in reversed(self.repo.class_mro(cls)):
                for stn in c.node.body:
                    if isinstance(stn, ast.AnnAssign) and isinstance(stn.target, ast.Name):
                        fields = [f for f in fields if f[0] != stn.target.id] + [(stn.target.id, stn.value, c)]
            if len(args) > len(fields):
                raise PathEnd(f"too many arguments for {cls.name}()")
            vals = dict(zip([f[0] for f in fields], args))
            for k, v in kwargs.items():
                if k in vals or k not in [f[0] for f in fields]:
                    raise PathEnd(f"bad keyword {k} for {cls.name}()")
                vals[k] = v
            for (fname, dflt, c) in fields:
                if fname not in vals:
                    if dflt is None:
                        raise PathEnd(f"missing field {fname} of {cls.name}()")
                    vals[fname] = self.eval(dflt, self.modenv(c.module))
                self.setattr(o, fname, vals[fname], node)
            return o
        nt = self.typed_namedtuple(cls)
        if nt is not None:
            # class X(typing.NamedTuple) with annotated fields: the generated constructor builds an (immutable) record
            rt, dflts = nt
            vals = list(args) + [MISSING] * (len(rt.fields) - len(args))
            if len(args) > len(rt.fields):
                raise PathEnd(f"too many arguments for {cls.name}()")
            for k, v in kwargs.items():
                if k not in rt.fields or vals[rt.fields.index(k)] is not MISSING:
                    raise PathEnd(f"bad keyword {k} for {cls.name}()")
                vals[rt.fields.index(k)] = v
            for i, v in enumerate(vals):
                if v is MISSING:
                    if dflts[i] is None:
                        raise PathEnd(f"missing field {rt.fields[i]} of {cls.name}()")
                    vals[i] = self.eval(dflts[i], self.modenv(cls.module))
            return Record(rt.name, rt.fields, vals)
        if args or kwargs:
            raise PathEnd(f"{cls.name}() takes no arguments")
        return o

    def typed_namedtuple(self, cls):
        """(RecordType, default expressions) when the class is a plain `class X(typing.NamedTuple)` -- annotated fields and docstring only;
        a NamedTuple class with methods / properties / other statements is not modelled (Unsupported: the analysis stays incomplete)"""
        bases = getattr(cls.node, "bases", [])
        if len(bases) != 1 or getattr(cls.node, "keywords", None) or getattr(cls.node, "decorator_list", None):
            return None
        try:
            b = self.eval(bases[0], self.modenv(cls.module))
        except Unsupported:
            return None
        if not (isinstance(b, ExtRef) and b.name in ("typing.NamedTuple", "typing_extensions.NamedTuple")):
            return None
        fields, dflts = [], []
        for stn in cls.node.body:
            if isinstance(stn, ast.Expr) and isinstance(stn.value, ast.Constant) and isinstance(stn.value.value, str):
                continue
            if isinstance(stn, ast.Pass):
                continue
            if isinstance(stn, ast.AnnAssign) and isinstance(stn.target, ast.Name) and stn.target.id not in fields:
                fields.append(stn.target.id)
                dflts.append(stn.value)
                continue
            raise Unsupported(f"typing.NamedTuple class {cls.name} with a body beyond annotated fields")
        return RecordType(cls.name, tuple(fields), sum(1 for d in dflts if d is not None)), dflts

    # ---- external functions
    def call_ext(self, name, args, kwargs, node, env):
        last = name.split(".")[-1]
        top = name.split(".")[0]
        if name == "builtins.print":
            return None
        if name == "builtins.super":
            if args:
                raise Unsupported("super() with arguments")
            e = env
            while e is not None and not (e.scope is not None and e.scope.kind == "function" and e.scope.cls is not None):
                e = e.parent
            if e is None or not e.scope.params():
                raise Unsupported("super() outside a method")
            return SuperProxy(e.vars[e.scope.params()[0]], e.scope.cls)
        if name == "builtins.range":
            ks = [self._int(a) for a in args]
            if all(k is not None for k in ks):
                return list(range(*ks))
            return UnknownIter("range(" + ",".join(self.key(a) for a in args) + ")")
        if name in ("builtins.len",) and isinstance(args[0], (tuple, list, dict, Record)):
            return len(args[0].values) if isinstance(args[0], Record) else len(args[0])
        if name in ("builtins.list", "builtins.tuple"):
            if not args:
                return [] if last == "list" else ()
            if isinstance(args[0], (Record, tuple, list)):
                return (list if last == "list" else tuple)(self.as_list(args[0]))
        if name == "builtins.dict" and not args:
            return dict(kwargs)
        if name == "builtins.dict" and len(args) == 1 and isinstance(args[0], dict):
            return {**args[0], **kwargs}
        if name == "builtins.dict" and len(args) == 1 and isinstance(args[0], (list, tuple)) and all(isinstance(y, (list, tuple)) and len(y) == 2 for y in args[0]):
            return {**{y[0]: y[1] for y in args[0]}, **kwargs}
        if name in ("builtins.float", "builtins.int") and len(args) == 1 and isinstance(args[0], (int, float, Fraction)) and not isinstance(args[0], bool):
            return args[0]
        if name == "builtins.float" and len(args) == 1 and self.is_numlike(args[0]):
            return self.num(args[0])
        if name == "builtins.isinstance":
            return self.oracle.choose("isinstance:" + self.key(args)) == 0
        if name == "builtins.type":
            return self.app("type", args)
        if name == "builtins.getattr" and len(args) >= 2 and isinstance(args[1], str):
            try:
                return self.getattr(args[0], args[1])
            except PathEnd:
                if len(args) == 3:
                    return args[2]
                raise
        if name == "builtins.hasattr" and len(args) == 2 and isinstance(args[1], str):
            o = args[0]
            if isinstance(o, Obj) and not o.opaque and not o.spec:
                try:
                    self.getattr(o, args[1])
                    return True
                except PathEnd:
                    return False
            if isinstance(o, Obj) and (args[1] in o.attrs or args[1] in o.spec):
                return True
            return self.oracle.choose(f"hasattr:{self.key(o)}.{args[1]}", 2, self.loop_depth > 0) == 0
        if name == "builtins.pow" and len(args) == 2:
            return self.binop(ast.Pow(), args[0], args[1])
        if name in ("builtins.enumerate", "builtins.zip") and args and all(isinstance(a, (tuple, list, Record, dict)) for a in args):
            seqs = [list(a.keys()) if isinstance(a, dict) else self.as_list(a) for a in args]
            if last == "enumerate":
                k0 = self._int(kwargs.get("start", 0))
                return [(k0 + i, x) for i, x in enumerate(seqs[0])] if k0 is not None and len(seqs) == 1 else self._fail("enumerate call form")
            return list(zip(*seqs))
        if name == "builtins.enumerate" and len(args) == 2 and isinstance(args[0], (tuple, list, Record)) and self._int(args[1]) is not None:
            return [(self._int(args[1]) + i, x) for i, x in enumerate(self.as_list(args[0]))]
        if name == "builtins.map" and len(args) >= 2 and all(isinstance(a, (tuple, list, Record)) for a in args[1:]):
            return [self.call(args[0], list(xs), {}, node, env) for xs in zip(*[self.as_list(a) for a in args[1:]])]
        if name == "builtins.sum" and args and isinstance(args[0], (tuple, list)) and all(self.is_numlike(x) for x in args[0]):
            tot = self.num(args[1]) if len(args) > 1 else self.const(0)
            for x in args[0]:
                tot = self.binop(ast.Add(), tot, x)
            return tot
        if name in ("builtins.any", "builtins.all") and len(args) == 1 and isinstance(args[0], (tuple, list)):
            ts = [self.truth(x) for x in args[0]]
            return any(ts) if last == "any" else all(ts)
        if name == "builtins.reversed" and len(args) == 1 and isinstance(args[0], (tuple, list, Record)):
            return list(reversed(self.as_list(args[0])))
        if name == "builtins.setattr" and len(args) == 3 and isinstance(args[1], str):
            self.setattr(args[0], args[1], args[2], node)
            return None
        if name == "builtins.bool" and len(args) == 1:
            return self.truth(args[0])
        if name in ("jax.tree_util.tree_map", "jax.tree_map") and len(args) >= 2 and not kwargs:
            return self.tree_map(args[0], list(args[1:]), node, env)
        if name == "builtins.callable":
            return isinstance(args[0], (Closure, Bound, Builtin, ExtRef, ClassRef, FunSym, GradFn, JitFn, Partial)) or \
                self.oracle.choose("callable:" + self.key(args[0])) == 0
        if name in ("builtins.Exception", "builtins.ValueError", "builtins.NameError", "builtins.RuntimeError", "builtins.TypeError",
                    "builtins.AttributeError", "builtins.NotImplementedError", "builtins.AssertionError"):
            return self.app("exception", [last])
        if name == "collections.namedtuple":
            fields = args[1] if isinstance(args[1], (list, tuple)) else str(args[1]).replace(",", " ").split()
            nd = len(kwargs.get("defaults", ()) or ())
            return RecordType(args[0], tuple(fields), nd)
        if name == "functools.partial":
            return Partial(args[0], args[1:], kwargs)
        # ---- jax transformations
        if name in ("jax.jit", "equinox.filter_jit"):
            return JitFn(args[0])
        if name in TRANSPARENT_WRAPPERS:
            return args[0]
        if name == "jax.grad":
            k = args[1] if len(args) > 1 else kwargs.get("argnums", 0)
            k = self._int(k)
            if k is None:
                raise Unsupported("grad with several argnums")
            return GradFn(args[0], k)
        if name == "jax.jvp":
            return self.jvp(args, kwargs, node, env)
        if name == "jax.linearize" and len(args) >= 2 and not kwargs and all(self.is_numlike(p_) for p_ in args[1:]):
            fun, primals = args[0], list(args[1:])
            xis = [self.fresh("xi", "sym") for _ in primals]
            y = self.call(fun, xis, {}, node, env)
            if not self.is_numlike(y):
                raise Unsupported("linearize of a function with a structured value")
            y = self.num(y)
            mapping = {list(xi.r.atoms())[0]: self.num(p_) for xi, p_ in zip(xis, primals)}

            def f_jvp(m, targs, kw, node_, env_, y=y, xis=xis, mapping=mapping):
                if len(targs) != len(xis) or kw:
                    raise Unsupported("call form of a linearised function")
                dy = m.const(0)
                for xi, t in zip(xis, targs):
                    (a,) = xi.r.atoms()
                    dy = Num(m.A.norm(dy.r + m.deriv(y, a, m.num(t)).r))
                return m.subst(dy, mapping)
            return (self.subst(y, mapping), Builtin("linearized", f_jvp))
        if name in ("jax.vjp", "jax.linearize", "jax.jacfwd", "jax.jacrev", "jax.hessian", "jax.vmap", "jax.value_and_grad"):
            return self.app(name, list(args) + [(k, kwargs[k]) for k in sorted(kwargs)])
        # ---- numpy
        if top in ("numpy", "jax") and last in IDENTITY_EXT and len(args) >= 1:
            return args[0]
        if top in ("numpy", "jax") and last == "sqrt" and len(args) == 1 and self.is_numlike(args[0]):
            return Num(self.A.sqrt(self.num(args[0]).r))
        if top in ("numpy", "jax") and last in ("ones_like", "zeros_like", "ones", "zeros") and args:
            return self.const(1 if last.startswith("ones") else 0)
        if top in ("numpy", "jax") and last in ("full", "full_like") and len(args) >= 2 and self.is_numlike(args[1]):
            return self.num(args[1])
        if top in ("numpy", "jax") and last == "square" and len(args) == 1 and self.is_numlike(args[0]):
            return self.binop(ast.Mult(), args[0], args[0])
        if top in ("numpy", "jax") and last in ("multiply", "add", "subtract", "divide", "true_divide") and len(args) == 2 and not kwargs:
            return self.binop({"multiply": ast.Mult(), "add": ast.Add(), "subtract": ast.Sub(), "divide": ast.Div(), "true_divide": ast.Div()}[last],
                              args[0], args[1])
        if top in ("numpy", "jax") and last in ("power", "float_power") and len(args) == 2 and not kwargs:
            return self.binop(ast.Pow(), args[0], args[1])
        if top in ("numpy", "jax") and last == "reciprocal" and len(args) == 1:
            return self.binop(ast.Div(), 1, args[0])
        if top in ("numpy", "jax") and last == "negative" and len(args) == 1:
            return Num(-self.num(args[0]).r)
        # ---- scipy.sparse
        if last in ("diags", "diags_array", "spdiags") and top == "scipy" and args:
            d = args[0]
            if isinstance(d, (list, tuple)) and len(d) == 1:
                d = d[0]
            off = args[1] if len(args) > 1 else kwargs.get("offsets", 0)
            if isinstance(off, (list, tuple)) and len(off) == 1:
                off = off[0]
            if self._int(off) != 0 or not self.is_numlike(d):
                raise Unsupported("sparse diags with off-diagonals")
            return self.mat_diag(d)
        if last in MATRIX_FORMAT and top == "scipy" and len(args) == 1:
            return self.as_mat(args[0]) if (isinstance(args[0], Mat) or self.is_numlike(args[0])) else self._fail("sparse matrix of a non-number")
        if last == "LinearOperator" and top == "scipy":
            mv = kwargs.get("matvec", args[1] if len(args) > 1 else None)
            if mv is None:
                raise Unsupported("LinearOperator without matvec")
            return LinOp(mv)
        if last == "aslinearoperator" and top == "scipy" and len(args) == 1:
            return args[0]
        if (last in ITERATIVE_SOLVERS or last in DIRECT_SOLVERS) and top in ("scipy", "jax"):
            kw = dict(kwargs)
            pos = list(args)
            if len(pos) < 1 and "A" in kw:
                pos.append(kw.pop("A"))
            if len(pos) < 2 and "b" in kw:
                pos.append(kw.pop("b"))
            if len(pos) >= 2:
                return self.linear_solve(name, pos, kw, node, env, pair=last in ITERATIVE_SOLVERS)
        if top in ("numpy", "jax") and any(isinstance(o_, Obj) and o_.opaque for o_ in self.objs_in([args, kwargs])) and not any(
                isinstance(o_, Obj) and not o_.opaque for o_ in self.objs_in([args, kwargs])):
            # array functions applied to opaque inputs: the inputs are arrays
            def arr(v):
                if isinstance(v, Obj) and v.opaque:
                    return self.num(v)
                if isinstance(v, (tuple, list)):
                    return type(v)(arr(x) for x in v)
                return v
            return self.opaque_call("ext:" + name, [arr(a) for a in args], {k: arr(v) for k, v in kwargs.items()}, node)
        return self.opaque_call("ext:" + name, args, kwargs, node)

    def tree_map(self, f, trees, node, env):
        """jax.tree_util.tree_map over numbers, tuples / lists and namedtuples of identical structure"""
        t0 = trees[0]
        if t0 is None:
            return None
        if isinstance(t0, Record):
            if not all(isinstance(t, Record) and len(t.values) == len(t0.values) for t in trees):
                raise Unsupported("tree_map over different structures")
            return Record(t0.tname, t0.fields, [self.tree_map(f, [t.values[i] for t in trees], node, env) for i in range(len(t0.values))])
        if isinstance(t0, (tuple, list)):
            if not all(isinstance(t, (tuple, list)) and len(t) == len(t0) for t in trees):
                raise Unsupported("tree_map over different structures")
            return type(t0)(self.tree_map(f, [t[i] for t in trees], node, env) for i in range(len(t0)))
        if self.is_numlike(t0):
            return self.call(f, trees, {}, node, env)
        raise Unsupported("tree_map over an unknown structure")

    def jvp(self, args, kwargs, node, env):
        if len(args) != 3 or kwargs:
            raise Unsupported("jvp call form")
        fun, primals, tangents = args
        primals, tangents = self.as_list(primals), self.as_list(tangents)
        if len(primals) != len(tangents) or not all(self.is_numlike(p) for p in primals) or not all(self.is_numlike(t) for t in tangents):
            raise Unsupported("jvp with structured primals")
        xis = [self.fresh("xi", "sym") for _ in primals]
        y = self.call(fun, xis, {}, node, env)
        if not self.is_numlike(y):
            raise Unsupported("jvp of a function with a structured value")
        y = self.num(y)
        dy = self.const(0)
        for xi, t in zip(xis, tangents):
            (a,) = xi.r.atoms()
            dy = Num(self.A.norm(dy.r + self.deriv(y, a, self.num(t)).r))
        mapping = {list(xi.r.atoms())[0]: self.num(p) for xi, p in zip(xis, primals)}
        return (self.subst(y, mapping), self.subst(dy, mapping))

    def probe_operator(self, A, node, env):
        """(op, coefficient) of the matrix-free operator A: its value on a fresh vector is coefficient * op[v]"""
        v = self.fresh("probe", "sym")
        (va,) = v.r.atoms()
        if isinstance(A, Mat):
            raise Unsupported("explicit matrix handed to the linear solver")
        r = self.call(A, [v], {}, node, env)
        if not self.is_numlike(r):
            raise Unsupported("operator value is not a vector")
        r = self.num(r)
        rr = simplify(self.A.norm(r.r))
        if rr.d.is_const() and len(rr.n.t) == 1:
            (mono, c), = rr.n.t.items()
            if len(mono) == 1 and mono[0][1] == 1:
                k, ex = self.info.get(mono[0][0], ("sym", {}))
                if k == "lin" and ex.get("mono") == ((va, 1),):
                    return ex["op"], Fraction(c) / rr.d.const_value(), r, v
        return ("fn", self.key(r)), Fraction(1), r, v

    def linear_solve(self, name, args, kwargs, node, env, pair):
        A, b = args[0], args[1]
        op, coef, probe, v = self.probe_operator(A, node, env)
        sol = self.lin(("inv", op), Num(self.num(b).r / self.A.const(coef)))
        self.events.append({"kind": "linsolve", "solver": name, "op": op, "coef": coef, "probe": probe, "probe_var": v, "rhs": b, "sol": sol,
                            "node": node, "kwargs": dict(kwargs), "idx": len(self.events)})
        if pair:
            return (sol, self.fresh("solver-info", "ret", args=()))
        return sol

    # ------------------------------------------------------------------ statements
    def block(self, body, env):
        for st in body:
            self.stmt(st, env)

    def stmt(self, st, env):
        self.tick()
        self.executed.add(id(st))
        if isinstance(st, ast.Assign):
            v = self.eval(st.value, env)
            for t in st.targets:
                self.assign(t, v, env, st)
        elif isinstance(st, ast.AnnAssign):
            if st.value is not None:
                self.assign(st.target, self.eval(st.value, env), env, st)
        elif isinstance(st, ast.AugAssign):
            t = st.target
            if isinstance(t, ast.Name):
                cur = self.lookup(t.id, env)
            elif isinstance(t, ast.Attribute):
                cur = self.getattr(self.eval(t.value, env), t.attr)
            else:
                cur = self.eval(ast.Subscript(value=t.value, slice=t.slice, ctx=ast.Load()), env)
            new = self.binop(st.op, cur, self.eval(st.value, env))
            self.assign(t, new, env, st)
        elif isinstance(st, ast.Return):
            raise _Return(self.eval(st.value, env) if st.value is not None else None)
        elif isinstance(st, ast.If):
            self.block(st.body if self.truth(self.eval(st.test, env)) else st.orelse, env)
        elif isinstance(st, ast.For):
            self.exec_for(st, env)
        elif isinstance(st, ast.While):
            self.loop_summary(st, st.body, env, lambda: self.eval(st.test, env))
        elif isinstance(st, ast.FunctionDef):
            sc = self.repo.scope_of(st)
            if sc is None:
                raise Unsupported("nested function without scope")
            v = Closure(sc, env)
            for d in reversed(st.decorator_list):
                v = self.call(self.eval(d, env), [v], {}, st, env)
            self.setvar(st.name, v, env)
        elif isinstance(st, ast.Expr):
            if not isinstance(st.value, ast.Constant):
                self.expr_stmt_value = st.value
                self.eval(st.value, env)
        elif isinstance(st, (ast.Pass, ast.Nonlocal, ast.Global, ast.Assert, ast.Delete)):
            return
        elif isinstance(st, (ast.Import, ast.ImportFrom)):
            for al in st.names:
                if isinstance(st, ast.Import):
                    full = al.name
                    m = self.repo.modules.get(full)
                    env.vars[(al.asname or al.name).split(".")[0]] = ModRef(m) if m and al.asname else ExtRef(full if al.asname else full.split(".")[0])
                else:
                    full = f"{st.module}.{al.name}"
                    if full in self.repo.modules:
                        env.vars[al.asname or al.name] = ModRef(self.repo.modules[full])
                    elif st.module in self.repo.modules:
                        env.vars[al.asname or al.name] = self.module_value(self.repo.modules[st.module], al.name)
                    else:
                        env.vars[al.asname or al.name] = ExtRef(canonical_ext(full))
        elif isinstance(st, ast.Raise):
            raise PathEnd("raise " + (norm_src(st.exc)[:60] if st.exc is not None else ""))
        elif isinstance(st, ast.Break):
            raise _Break()
        elif isinstance(st, ast.Continue):
            raise _Continue()
        elif isinstance(st, ast.Try):
            self.exec_try(st, env)
        elif hasattr(ast, "Match") and isinstance(st, ast.Match):
            self.exec_match(st, env)
        elif isinstance(st, ast.With):
            for it in st.items:
                cm = self.eval(it.context_expr, env)
                if it.optional_vars is not None:
                    self.assign(it.optional_vars, cm if not self.is_numlike(cm) else self.app(".__enter__", [self.num(cm)]), env, st)
            self.block(st.body, env)
        else:
            raise Unsupported(f"statement {type(st).__name__}")

    def exec_match(self, st, env):
        """match on a subject with literal / or / capture / wildcard patterns (the forms a slot dispatch would use)"""
        subj = self.eval(st.subject, env)

        def matches(pat):
            if isinstance(pat, ast.MatchValue):
                r = self.compare(subj, ast.Eq(), self.eval(pat.value, env))
                return r if isinstance(r, bool) else self.truth(r)
            if isinstance(pat, ast.MatchSingleton):
                return subj is pat.value or (isinstance(subj, bool) and isinstance(pat.value, bool) and subj == pat.value)
            if isinstance(pat, ast.MatchOr):
                return any(matches(q) for q in pat.patterns)
            if isinstance(pat, ast.MatchAs):
                if pat.pattern is not None and not matches(pat.pattern):
                    return False
                if pat.name is not None:
                    self.setvar(pat.name, subj, env)
                return True
            raise Unsupported("match pattern " + type(pat).__name__)
        for case in st.cases:
            if matches(case.pattern) and (case.guard is None or self.truth(self.eval(case.guard, env))):
                self.block(case.body, env)
                return

    def assign(self, t, v, env, st=None):
        if isinstance(t, ast.Name):
            self.setvar(t.id, v, env)
        elif isinstance(t, (ast.Tuple, ast.List)):
            n = len(t.elts)
            if any(isinstance(x, ast.Starred) for x in t.elts):
                raise Unsupported("starred assignment target")
            if isinstance(v, (Record, tuple, list)):
                vs = self.as_list(v)
                if len(vs) != n:
                    raise PathEnd("unpack width")
            elif isinstance(v, (Num, OpaqueAttr)):
                vs = [self.app("item", [self.num(v), i]) for i in range(n)]
            else:
                raise Unsupported(f"unpacking of {self.key(v)[:40]}")
            for a, b in zip(t.elts, vs):
                self.assign(a, b, env, st)
        elif isinstance(t, ast.Attribute):
            self.setattr(self.eval(t.value, env), t.attr, v, st)
        elif isinstance(t, ast.Subscript):
            base = self.eval(t.value, env)
            key = self.eval_index(t.slice, env)
            if isinstance(base, list):
                k = self._int(key)
                if k is None:
                    raise Unsupported("symbolic list index store")
                try:
                    base[k] = v
                except IndexError:
                    raise PathEnd("index out of range")
            elif isinstance(base, dict):
                base[key] = v
            elif isinstance(base, (Num, OpaqueAttr)) and isinstance(t.value, ast.Name):
                # in-place element store into an array: the variable now holds an updated array
                self.setvar(t.value.id, self.app("setitem", [self.num(base), key, v]), env)
            else:
                raise Unsupported("subscript store")
        else:
            raise Unsupported("assignment target")

    _STORED = {}
    _HASRET = {}

    @staticmethod
    def stored_names(body):
        k = tuple(id(x) for x in body) if isinstance(body, list) else id(body)
        hit = Machine._STORED.get(k)
        if hit is not None and hit[0] is (body[0] if isinstance(body, list) and body else body):
            return set(hit[1])
        out = set()
        for n in walk_local(body):
            if isinstance(n, ast.Name) and isinstance(n.ctx, ast.Store):
                out.add(n.id)
            elif isinstance(n, ast.FunctionDef):
                out.add(n.name)
        Machine._STORED[k] = ((body[0] if isinstance(body, list) and body else body), frozenset(out))
        return out

    UNROLL_MAX = 64

    def exec_for(self, st, env):
        it = self.eval(st.iter, env)
        items = None
        if isinstance(it, dict):
            items = list(it.keys())
        elif isinstance(it, (tuple, list, Record)):
            items = self.as_list(it)
        if items is not None and not items:
            self.block(st.orelse, env)
            return
        if items is not None and len(items) <= self.UNROLL_MAX:
            # a loop over a known finite sequence is executed iteration by iteration (exact).  Conditions on unknown values inside long
            # loops are explored with branch coverage only; inside the abstract iteration of a summarised loop the unrolling is
            # speculative: it is kept only if no new condition on an unknown value had to be decided (else the loop is summarised)
            if self.summary_depth == 0 or self._speculate(lambda: self._unroll(st, items, env), st, env):
                if self.summary_depth == 0:
                    self._unroll(st, items, env)
                return
        first = items[0] if items else self.fresh(f"loop@{getattr(st, 'lineno', 0)}:item", "havoc", args=())
        self.loop_summary(st, st.body, env, lambda: self.assign(st.target, first, env, st), extra=self.stored_names([st.target]) if not isinstance(st.target, ast.Name) else {st.target.id})

    def _unroll(self, st, items, env):
        weak = len(items) > 4
        if weak:
            self.loop_depth += 1
        broke = False
        try:
            for x in list(items):
                self.assign(st.target, x, env, st)
                try:
                    self.block(st.body, env)
                except _Break:
                    broke = True
                    break
                except _Continue:
                    continue
        finally:
            if weak:
                self.loop_depth -= 1
        if not broke:
            self.block(st.orelse, env)

    def _speculate(self, action, st, env):
        """run `action` without taking new decisions; on failure undo its effects (variables of the frame, attributes, events) -> False"""
        names = self.stored_names([st])
        saved = {}
        for n in names:
            e = env.find(n)
            saved[n] = (e, e.vars[n]) if e is not None else (None, MISSING)
        marks = (len(self.events), len(self.setlog), len(self.activations), self.depth, self.jit_depth, self.loop_depth, dict(self.stem_counter),
                 dict(self.try_counter), self.summarised)
        self.oracle.frozen += 1
        try:
            action()
            return True
        except _NeedSummary:
            for (o, a, old) in reversed(self.setlog[marks[1]:]):
                if old is MISSING:
                    o.attrs.pop(a, None)
                else:
                    o.attrs[a] = old
            del self.events[marks[0]:]
            del self.setlog[marks[1]:]
            del self.activations[marks[2]:]
            self.depth, self.jit_depth, self.loop_depth = marks[3], marks[4], marks[5]
            self.stem_counter, self.try_counter, self.summarised = marks[6], marks[7], marks[8]
            for n, (e, v) in saved.items():
                if e is None:
                    e2 = env.find(n)
                    if e2 is not None:
                        e2.vars.pop(n, None)
                else:
                    e.vars[n] = v
            return False
        finally:
            self.oracle.frozen -= 1

    def loop_summary(self, st, body, env, prologue, extra=()):
        """Summary of a loop whose iterations are not known: one abstract iteration from the entry state, havoc of everything the body may
        have changed, then a second, *generic* iteration from the havocked state (a later iteration may be the one that returns -- its
        value is then an expression over the havocked variables), followed by another havoc.  What both iterations leave with the same value
        does not depend on anything the loop changes: it is loop invariant and keeps that value instead of being havocked."""
        self.summarised += 1
        ends1 = self._loop_pass(st, body, env, prologue, extra)

        def generic():
            if isinstance(st, ast.For):
                self.assign(st.target, self.fresh(f"loop@{getattr(st, 'lineno', 0)}:item", "havoc", args=()), env, st)
            else:
                prologue()
        ends2 = self._loop_pass(st, body, env, generic, extra)
        for k, v1 in ends1[0].items():
            v2 = ends2[0].get(k, MISSING)
            if v2 is not MISSING and self._same_value(v1, v2):
                self.setvar(k, v1, env)
        for k, (o, a, v1) in ends1[1].items():
            hit = ends2[1].get(k)
            if hit is not None and self._same_value(v1, hit[2]):
                o.attrs[a] = v1

    def _loop_pass(self, st, body, env, prologue, extra=()):
        """one abstract iteration + havoc; returns what the iteration left in the variables / attributes it changed (before the havoc)"""
        names = self.stored_names(body) | set(extra)
        before = {}
        for n in names:
            e = env.find(n)
            before[n] = e.vars[n] if e is not None and (e is env or n in getattr(env.scope, "nonlocals_", ())) else MISSING
        mark = len(self.setlog)
        self.loop_depth += 1
        self.summary_depth += 1
        try:
            prologue()
            try:
                self.block(body, env)
            except (_Break, _Continue):
                pass
        finally:
            self.loop_depth -= 1
            self.summary_depth -= 1
        ln = getattr(st, "lineno", 0)
        end_vars, end_attrs = {}, {}
        for n in sorted(names):
            e = env.find(n)
            cur = e.vars[n] if e is not None else MISSING
            if cur is MISSING:
                continue
            b = before.get(n, MISSING)
            if b is MISSING or not self._same_value(b, cur):
                end_vars[n] = cur
                self.setvar(n, self.fresh(f"loop@{ln}:{n}", "havoc", args=(cur,) if isinstance(cur, (Num, OpaqueAttr)) else ()), env)
        seen = set()
        for (o, a, old) in self.setlog[mark:]:
            if (id(o), a) in seen:
                continue
            seen.add((id(o), a))
            cur = o.attrs.get(a, MISSING)
            if old is MISSING or not self._same_value(old, cur):
                if cur is not MISSING:
                    end_attrs[(id(o), a)] = (o, a, cur)
                o.attrs[a] = self.fresh(f"loop@{ln}:{o.name}.{a}", "havoc", args=())
        return end_vars, end_attrs

    def _same_value(self, a, b):
        if a is MISSING or b is MISSING:
            return a is b
        try:
            return self.same(a, b)
        except Unsupported:
            return False

    def exec_try(self, st, env):
        n = len(st.body)
        if not st.handlers:
            try:
                self.block(st.body, env)
            finally:
                pass
            self.block(st.finalbody, env)
            return
        site = getattr(st, "lineno", 0)
        k = self.try_counter.get(site, 0)
        self.try_counter[site] = k + 1
        c = self.oracle.choose(f"try@{site}#{k}", n + 1, self.loop_depth > 0)
        if c == 0:
            self.block(st.body, env)
            self.block(st.orelse, env)
        else:
            self.block(st.body[:c - 1], env)
            h = st.handlers[0]
            if len(st.handlers) > 1:
                h = st.handlers[self.oracle.choose(f"handler@{site}#{k}", len(st.handlers))]
            if h.name:
                env.vars[h.name] = self.fresh("exception", "havoc", args=())
            self.block(h.body, env)
        self.block(st.finalbody, env)


def mutable_attributes(repo):
    """attribute names that some function other than a constructor assigns (`x.attr = ...`): state that may change after an object was built"""
    out = set()
    for s in repo.functions():
        if s.name == "__init__":
            continue
        for n in walk_local(s.node):
            ts = []
            if isinstance(n, ast.Assign):
                ts = n.targets
            elif isinstance(n, (ast.AugAssign, ast.AnnAssign)):
                ts = [n.target]
            for t in ts:
                for x in ast.walk(t):
                    if isinstance(x, ast.Attribute) and isinstance(x.ctx, ast.Store):
                        out.add(x.attr)
    return out
