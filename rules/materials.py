"""Shared machinery for the material-model properties (C08, C09, C10, C11, C12):
option enumeration of the model factories and rest-state evaluation with optilint.tensoreval."""
from __future__ import annotations

import ast
import itertools
from fractions import Fraction

from optilint.model import dotted, walk_local, norm_src
from optilint.tensoreval import (Interp, Dual, Arr, EvalError, Raised, d_fun, d_pow, _A, rat_is_zero, rat_const, Closure, Record, PyFunc, LookupFailed)

MODELS = [
    # (module, factory, kind)
    ("optimism.material.LinearElastic", "create_material_model_functions", "solid"),
    ("optimism.material.Neohookean", "create_material_model_functions", "solid"),
    ("optimism.material.Gent", "create_material_functions", "solid"),
    ("optimism.material.J2Plastic", "create_material_model_functions", "solid"),
    ("optimism.material.HyperViscoelastic", "create_material_model_functions", "solid"),
    ("optimism.material.MultiBranchHyperViscoelastic", "create_material_model_functions", "solid"),
    ("optimism.phasefield.PhaseFieldThreshold", "create_material_model_functions", "phasefield"),
]


class PropDict(dict):
    """Material property dictionary: option keys are explicit entries, every other key is a fresh
    positive symbol."""

    def __init__(self, interp, options, option_keys):
        super().__init__(options)
        self._interp = interp
        self._option_keys = set(option_keys)

    def _symbol(self, key):
        """value of a numeric material constant: a fresh positive symbol (subclasses may attach unit factors)"""
        nm = "prop<" + str(key) + ">"
        self._interp.positive.add(nm)
        return Dual(_A.atom(nm))

    def __missing__(self, key):
        if key in self._option_keys or not isinstance(key, str):
            raise KeyError(key)
        v = self._symbol(key)
        self[key] = v
        return v

    def __getitem__(self, key):
        v = super().__getitem__(key)
        if isinstance(v, str) and v == "present":
            # a key that a scenario only declares present (optional numeric constant): its value is a positive symbol like any other constant
            return self._symbol(key)
        return v

    def get(self, key, default=None):
        if dict.__contains__(self, key):
            return self[key]
        return default


def option_space(ctx, modules):
    """Enumerate (key -> set of literals, optional keys, presence-only keys) of the property dictionaries read by the
    factories of the given modules.

    Primary source: *interpretation* of every factory with a recording property dictionary (`option_space_semantic`):
    whatever mechanism selects the variant -- if/elif chains, `in` tests, dictionary dispatch, `.get` with a default,
    helper functions -- the string literals an option value is compared with / looked up by are observed on the value.
    The syntactic scan of the module text (`option_space_syntactic`, the original enumeration) is united with it, so that an
    option the interpreter could not reach is still tried (a combination the factory rejects is skipped by every caller)."""
    values, optional, presence = option_space_syntactic(ctx, modules)
    presence = set(presence) | set(optional)
    try:
        v2, p2 = option_space_semantic(ctx, modules)
    except Exception as ex:       # the probe is an optimisation of coverage, never a reason to fail
        ctx.notes.append(f"option probe failed: {type(ex).__name__}: {ex}")
        v2, p2 = {}, set()
    for k, lits in v2.items():
        values.setdefault(k, set()).update(lits)
    presence |= p2
    optional = set()
    for k in list(presence):
        if k in values:
            optional.add(k)
            presence.discard(k)
    return values, optional, presence


def option_space_syntactic(ctx, modules):
    """Enumerate (key -> set of literals, optional keys, presence-only keys) from comparisons of
    properties[...] with string literals and `'key' in properties` tests in the given modules."""
    values, optional, presence = {}, set(), set()
    for mname in modules:
        m = ctx.need_module(mname)
        alias = {}
        for n in ast.walk(m.tree):
            if isinstance(n, ast.Assign) and len(n.targets) == 1 and isinstance(n.targets[0], ast.Name) and isinstance(n.value, ast.Subscript) \
                    and isinstance(n.value.value, ast.Name) and n.value.value.id == "properties" and isinstance(n.value.slice, ast.Constant):
                alias[n.targets[0].id] = n.value.slice.value
            # x = properties.get('key', default): the key is optional
            if isinstance(n, ast.Assign) and len(n.targets) == 1 and isinstance(n.targets[0], ast.Name) and isinstance(n.value, ast.Call) \
                    and isinstance(n.value.func, ast.Attribute) and n.value.func.attr == "get" and isinstance(n.value.func.value, ast.Name) \
                    and n.value.func.value.id == "properties" and n.value.args and isinstance(n.value.args[0], ast.Constant) \
                    and isinstance(n.value.args[0].value, str) and len(n.value.args) == 2:
                alias[n.targets[0].id] = n.value.args[0].value
                presence.add(n.value.args[0].value)
                if isinstance(n.value.args[1], ast.Constant) and isinstance(n.value.args[1].value, str):
                    values.setdefault(n.value.args[0].value, set()).add(n.value.args[1].value)
        for n in ast.walk(m.tree):
            if isinstance(n, ast.Compare) and len(n.ops) == 1 and isinstance(n.ops[0], ast.Eq) and isinstance(n.left, ast.Name) \
                    and n.left.id in alias and isinstance(n.comparators[0], ast.Constant) and isinstance(n.comparators[0].value, str):
                values.setdefault(alias[n.left.id], set()).add(n.comparators[0].value)
            if isinstance(n, ast.Compare) and len(n.ops) == 1:
                l, r = n.left, n.comparators[0]
                if isinstance(n.ops[0], ast.Eq) and isinstance(l, ast.Subscript) and isinstance(l.value, ast.Name) and l.value.id == "properties" \
                        and isinstance(l.slice, ast.Constant) and isinstance(r, ast.Constant) and isinstance(r.value, str):
                    values.setdefault(l.slice.value, set()).add(r.value)
                if isinstance(n.ops[0], ast.In) and isinstance(l, ast.Constant) and isinstance(l.value, str) and isinstance(r, ast.Name) and r.id == "properties":
                    presence.add(l.value)
    for k in list(presence):
        if k in values:
            optional.add(k)
            presence.discard(k)
    return values, optional, presence


# ---------------------------------------------------------------- semantic option discovery

_PRESENT, _ABSENT = "<present>", "<absent>"


class _OptToken(Dual):
    """Value of a property key that has no option value in the current probe run.  Numerically it is the positive symbol
    prop<key> (so a factory that computes with it runs on); a comparison with, membership test in, or dictionary lookup by
    string literals is *recorded* as the set of option values of that key."""
    __slots__ = ("key",)

    def __init__(self, key):
        super().__init__(_A.atom("prop<" + str(key) + ">"))
        self.key = key


class _ProbeLog:
    def __init__(self):
        self.values = {}        # key -> set of literals the value was compared with / looked up by
        self.presence = set()   # keys tested with `in` / read with .get(key, default)


class _ProbeProps(dict):
    """Recording property dictionary of one probe run under a partial assignment key -> literal | present | absent."""

    def __init__(self, interp, assignment, log):
        super().__init__()
        self._interp, self._assign, self._log = interp, dict(assignment), log

    def _token(self, key):
        self._interp.positive.add("prop<" + str(key) + ">")
        return _OptToken(key)

    def __contains__(self, key):
        if isinstance(key, str):
            self._log.presence.add(key)
        return self._assign.get(key, _ABSENT) != _ABSENT

    def __getitem__(self, key):
        v = self._assign.get(key)
        if v == _ABSENT and key in self._log.presence:
            raise KeyError(key)
        if v is None or v in (_PRESENT, _ABSENT):
            return self._token(key)
        return v

    def get(self, key, *default):
        if default and default[0] is not None and isinstance(key, str):     # .get(key) / .get(key, None) only passes the value along
            self._log.presence.add(key)
            if isinstance(default[0], str):
                self._log.values.setdefault(key, set()).add(default[0])
        v = self._assign.get(key)
        if v is None or v == _ABSENT:
            if default:
                return default[0]
            return self._token(key) if v is None else None
        return self._token(key) if v == _PRESENT else v

    def keys(self):
        return [k for k, v in self._assign.items() if v != _ABSENT]

    def items(self):
        return [(k, self[k]) for k in self.keys()]


def _strings_of(container):
    if isinstance(container, dict):
        container = list(container.keys())
    if isinstance(container, (list, tuple, set, frozenset)):
        return [x for x in container if isinstance(x, str)]
    return []


class _ProbeInterp(Interp):
    """tensoreval interpreter that records what option tokens are compared with."""
    log = None

    def compare(self, a, op, b):
        for x, y in ((a, b), (b, a)):
            if isinstance(x, _OptToken):
                if isinstance(y, str) and isinstance(op, (ast.Eq, ast.NotEq)):
                    self.log.values.setdefault(x.key, set()).add(y)
                    return isinstance(op, ast.NotEq)
                if x is a and isinstance(op, (ast.In, ast.NotIn)) and _strings_of(y):
                    self.log.values.setdefault(x.key, set()).update(_strings_of(y))
                    return isinstance(op, ast.NotIn)
        return super().compare(a, op, b)

    def eval_index(self, s, env):
        if not isinstance(s, (ast.Slice, ast.Tuple)):
            v = self.eval(s, env)
            if isinstance(v, _OptToken):
                return v
            if isinstance(v, (Dual, Fraction)):
                return self.as_int(v)
            return v
        return super().eval_index(s, env)

    def getitem(self, base, key):
        if isinstance(key, _OptToken) and isinstance(base, dict) and _strings_of(base):
            self.log.values.setdefault(key.key, set()).update(_strings_of(base))
            raise LookupFailed(f"lookup by the value of option '{key.key}' (no such key)")
        return super().getitem(base, key)

    def call_method(self, base, name, args, kwargs):
        if name == "get" and isinstance(base, dict) and args and isinstance(args[0], _OptToken) and _strings_of(base):
            self.log.values.setdefault(args[0].key, set()).update(_strings_of(base))
            return args[1] if len(args) > 1 else None
        if isinstance(base, _OptToken) and name in ("lower", "upper", "strip", "casefold"):
            return base
        return super().call_method(base, name, args, kwargs)

    def e_Attribute(self, e, env):
        if e.attr in ("lower", "upper", "strip", "casefold"):
            base = self.eval(e.value, env)
            if isinstance(base, _OptToken):
                return ("method", base, e.attr)
            if isinstance(base, str):
                return PyFunc("str." + e.attr, lambda it, a, k, base=base, nm=e.attr: getattr(base, nm)(*a))
        return super().e_Attribute(e, env)


def property_factories(ctx, mname):
    """Entry points whose first parameter is used as a property dictionary (subscripted by / tested for string keys):
    the model factories of MODELS in that module plus every top-level function with that role."""
    m = ctx.need_module(mname)
    out = []
    for (mod, fac, kind) in MODELS:
        if mod == mname and ctx.repo.find(f"{mod}:{fac}") is not None:
            out.append(fac)
    for sc in m.scope.children:
        if sc.kind != "function" or not sc.params() or sc.name in out:
            continue
        p = sc.params()[0]
        role = False
        for n in walk_local(sc.node):
            if isinstance(n, ast.Subscript) and isinstance(n.value, ast.Name) and n.value.id == p and isinstance(n.slice, ast.Constant) \
                    and isinstance(n.slice.value, str):
                role = True
            elif isinstance(n, ast.Compare) and len(n.ops) == 1 and isinstance(n.ops[0], (ast.In, ast.NotIn)) and isinstance(n.left, ast.Constant) \
                    and isinstance(n.left.value, str) and isinstance(n.comparators[0], ast.Name) and n.comparators[0].id == p:
                role = True
            elif isinstance(n, ast.Call) and isinstance(n.func, ast.Attribute) and n.func.attr == "get" and isinstance(n.func.value, ast.Name) \
                    and n.func.value.id == p and n.args and isinstance(n.args[0], ast.Constant) and isinstance(n.args[0].value, str):
                role = True
        if role and len(sc.params()) - len([q for q in sc.params() if sc.default_of(q) is not None]) <= 1:
            out.append(sc.name)
    return out


def option_space_semantic(ctx, modules, max_runs=400):
    """(key -> literals, presence-tested keys) observed while interpreting the property factories of `modules` under every
    partial assignment reachable by forking on each observed presence test and each observed literal."""
    values, presence = {}, set()
    for mname in modules:
        mod = ctx.need_module(mname)
        for fac in property_factories(ctx, mname):
            seen, work, runs = set(), [{}], 0
            while work and runs < max_runs:
                A = work.pop(0)
                fz = frozenset(A.items())
                if fz in seen:
                    continue
                seen.add(fz)
                runs += 1
                I = make_interp(ctx.repo, _ProbeInterp)
                I.log = log = _ProbeLog()
                props = _ProbeProps(I, A, log)
                try:
                    I.call(I.module_value(mod, fac), [props], {})
                except (Raised, EvalError):
                    pass
                except (KeyError, IndexError, TypeError, ValueError, AttributeError, ZeroDivisionError, RecursionError):
                    pass
                for k in log.presence:
                    presence.add(k)
                    if k not in A:
                        work.append({**A, k: _PRESENT})
                for k, lits in log.values.items():
                    for s_ in sorted(lits):
                        values.setdefault(k, set()).add(s_)
                        if A.get(k) in (None, _PRESENT):
                            work.append({**A, k: s_})
    return values, presence


def scenarios(values, optional, presence):
    keys = sorted(values) + sorted(presence)
    axes = []
    for k in sorted(values):
        ax = [(k, v) for v in sorted(values[k])]
        if k in optional:
            ax.append((k, None))
        axes.append(ax)
    for k in sorted(presence):
        axes.append([(k, "present"), (k, None)])
    for combo in itertools.product(*axes) if axes else [()]:
        yield {k: v for (k, v) in combo if v is not None}


def make_interp(repo, cls=None):
    I = (cls or Interp)(repo)

    def smf(interp, args, kw):
        A, f = args
        A = interp.num(A)
        if not isinstance(A, Arr) or not A.is_diagonal():
            raise EvalError("spectral function of a non-diagonal argument")
        k = A.shape[0]
        out = [Dual(0)] * (k * k)
        for i in range(k):
            out[i * k + i] = interp.num(interp.call(f, [A.data[i * k + i]], {}))
        return Arr(out, A.shape)
    I.special["optimism.TensorMath:symmetric_matrix_function"] = smf
    I.special["optimism.Math:safe_sqrt"] = lambda interp, args, kw: d_fun("sqrt", interp.num(args[0]))
    return I


def unit_dir(k, eps=True):
    e = Dual(0, 1)
    return Arr([e if (i == j == k) else Dual(0) for i in range(3) for j in range(3)], (3, 3))


def iso_dir():
    e = Dual(0, 1)
    return Arr([e if i == j else Dual(0) for i in range(3) for j in range(3)], (3, 3))


def zero_H():
    return Arr([Dual(0)] * 9, (3, 3))
