"""Shared machinery for the material-model properties (C08, C09, C10, C11, C12):
option enumeration of the model factories and rest-state evaluation with optilint.tensoreval."""
from __future__ import annotations

import ast
import itertools

from optilint.model import dotted, walk_local, norm_src
from optilint.tensoreval import (Interp, Dual, Arr, EvalError, Raised, d_fun, d_pow, _A, rat_is_zero, rat_const, Closure, Record)

MODELS = [
    # (module, factory, kind)
    ("optimism.material.LinearElastic", "create_material_model_functions", "solid"),
    ("optimism.material.Neohookean", "create_material_model_functions", "solid"),
    ("optimism.material.Gent", "create_material_functions", "solid"),
    ("optimism.material.J2Plastic", "create_material_model_functions", "solid"),
    ("optimism.material.HyperViscoelastic", "create_material_model_functions", "solid"),
    ("optimism.material.MultiBranchHyperViscoelastic", "create_material_model_functions", "solid"),
    ("optimism.phasefield.PhaseFieldThreshold", "create_material_model_functions", "phasefield"),
]


class PropDict(dict):
    """Material property dictionary: option keys are explicit entries, every other key is a fresh
    positive symbol."""

    def __init__(self, interp, options, option_keys):
        super().__init__(options)
        self._interp = interp
        self._option_keys = set(option_keys)

    def __missing__(self, key):
        if key in self._option_keys or not isinstance(key, str):
            raise KeyError(key)
        nm = "prop<" + key + ">"
        self._interp.positive.add(nm)
        v = Dual(_A.atom(nm))
        self[key] = v
        return v


def option_space(ctx, modules):
    """Enumerate (key -> set of literals, optional keys, presence-only keys) from comparisons of
    properties[...] with string literals and `'key' in properties` tests in the given modules."""
    values, optional, presence = {}, set(), set()
    for mname in modules:
        m = ctx.need_module(mname)
        alias = {}
        for n in ast.walk(m.tree):
            if isinstance(n, ast.Assign) and len(n.targets) == 1 and isinstance(n.targets[0], ast.Name) and isinstance(n.value, ast.Subscript) \
                    and isinstance(n.value.value, ast.Name) and n.value.value.id == "properties" and isinstance(n.value.slice, ast.Constant):
                alias[n.targets[0].id] = n.value.slice.value
            # x = properties.get('key', default): the key is optional
            if isinstance(n, ast.Assign) and len(n.targets) == 1 and isinstance(n.targets[0], ast.Name) and isinstance(n.value, ast.Call) \
                    and isinstance(n.value.func, ast.Attribute) and n.value.func.attr == "get" and isinstance(n.value.func.value, ast.Name) \
                    and n.value.func.value.id == "properties" and n.value.args and isinstance(n.value.args[0], ast.Constant) \
                    and isinstance(n.value.args[0].value, str) and len(n.value.args) == 2:
                alias[n.targets[0].id] = n.value.args[0].value
                presence.add(n.value.args[0].value)
                if isinstance(n.value.args[1], ast.Constant) and isinstance(n.value.args[1].value, str):
                    values.setdefault(n.value.args[0].value, set()).add(n.value.args[1].value)
        for n in ast.walk(m.tree):
            if isinstance(n, ast.Compare) and len(n.ops) == 1 and isinstance(n.ops[0], ast.Eq) and isinstance(n.left, ast.Name) \
                    and n.left.id in alias and isinstance(n.comparators[0], ast.Constant) and isinstance(n.comparators[0].value, str):
                values.setdefault(alias[n.left.id], set()).add(n.comparators[0].value)
            if isinstance(n, ast.Compare) and len(n.ops) == 1:
                l, r = n.left, n.comparators[0]
                if isinstance(n.ops[0], ast.Eq) and isinstance(l, ast.Subscript) and isinstance(l.value, ast.Name) and l.value.id == "properties" \
                        and isinstance(l.slice, ast.Constant) and isinstance(r, ast.Constant) and isinstance(r.value, str):
                    values.setdefault(l.slice.value, set()).add(r.value)
                if isinstance(n.ops[0], ast.In) and isinstance(l, ast.Constant) and isinstance(l.value, str) and isinstance(r, ast.Name) and r.id == "properties":
                    presence.add(l.value)
    for k in list(presence):
        if k in values:
            optional.add(k)
            presence.discard(k)
    return values, optional, presence


def scenarios(values, optional, presence):
    keys = sorted(values) + sorted(presence)
    axes = []
    for k in sorted(values):
        ax = [(k, v) for v in sorted(values[k])]
        if k in optional:
            ax.append((k, None))
        axes.append(ax)
    for k in sorted(presence):
        axes.append([(k, "present"), (k, None)])
    for combo in itertools.product(*axes) if axes else [()]:
        yield {k: v for (k, v) in combo if v is not None}


def make_interp(repo):
    I = Interp(repo)

    def smf(interp, args, kw):
        A, f = args
        A = interp.num(A)
        if not isinstance(A, Arr) or not A.is_diagonal():
            raise EvalError("spectral function of a non-diagonal argument")
        k = A.shape[0]
        out = [Dual(0)] * (k * k)
        for i in range(k):
            out[i * k + i] = interp.num(interp.call(f, [A.data[i * k + i]], {}))
        return Arr(out, A.shape)
    I.special["optimism.TensorMath:symmetric_matrix_function"] = smf
    I.special["optimism.Math:safe_sqrt"] = lambda interp, args, kw: d_fun("sqrt", interp.num(args[0]))
    return I


def unit_dir(k, eps=True):
    e = Dual(0, 1)
    return Arr([e if (i == j == k) else Dual(0) for i in range(3) for j in range(3)], (3, 3))


def iso_dir():
    e = Dual(0, 1)
    return Arr([e if i == j else Dual(0) for i in range(3) for j in range(3)], (3, 3))


def zero_H():
    return Arr([Dual(0)] * 9, (3, 3))
