"""Edit lists of behaviour-preserving refactorings of TensorMath.py / LinAlg.py used as *preserving* self-test variants of C12
(rules/C12.py: variants).  Each list is a sequence of exact (old, new) replacements; a list applies only when every `old` occurs exactly once.

  A  helper extraction and vectorised idioms: invariants computed by a helper that returns tuples, np.dot / @ / np.sum / np.cross, np.stack(axis=1),
     method argsort + np.sort + np.take, norm along an axis with broadcasting, (V*f(lam))@V.T, sym(V@h@V.T), primals[0] instead of *primals
  B  negated tests with swapped branches (c2 >= 0, c2tol <= c2, b < 0, x1 != x2, cmax == 0, diff < scaleTol), where-based clamp,
     rows of the identity as spherical vectors
  C  temporaries, reordered independent statements, keyword arguments in another order, defjvp by call, Horner loops over coefficient tuples,
     the log series by a loop, jax.grad instead of jacfwd, lax.cond with function branches, linalg.solve instead of inv
  D  matrix form of the solver (2-D arrays, unpacking of rows, matrix-vector products, nested array selections instead of sums of masked
     terms, columns collected in a loop), closed-form helpers through einsum / cross products / np.transpose / np.eye
"""


def multi(pairs):
    def f(src):
        for old, new in pairs:
            if src.count(old) != 1:
                return None
            src = src.replace(old, new)
        return src
    return f


REF_A_TM = [
    ('    cxx = tensor[0,0]\n    cyy = tensor[1,1]\n    czz = tensor[2,2]\n    cxy = 0.5*(tensor[0,1]+tensor[1,0])\n    cyz = 0.5*(tensor[1,2]+tensor[2,1])\n    czx = 0.5*(tensor[2,0]+tensor[0,2])\n\n    c1 = (cxx + cyy + czz)/(3.0)\n\n    cxx -= c1\n    cyy -= c1\n    czz -= c1\n  \n    cxy_cxy = cxy*cxy\n    cyz_cyz = cyz*cyz\n    czx_czx = czx*czx\n    cxx_cyy = cxx*cyy\n    \n    c2 = cxx_cyy + cyy*czz + czz*cxx - cxy_cxy - cyz_cyz - czx_czx\n    \n',
     '    mean, dev6, squares, c2 = _mean_and_deviator(tensor)\n    c1 = mean\n    cxx, cyy, czz, cxy, cyz, czx = dev6\n    cxy_cxy, cyz_cyz, czx_czx, cxx_cyy = squares\n\n'),
    ('def eigen_sym33_non_unit(tensor):\n    """Compute eigen values',
     'def _mean_and_deviator(T):\n    """mean normal part, the six independent components of the symmetrised deviator, products used later, second invariant"""\n    sxy = 0.5*(T[0,1]+T[1,0])\n    syz = 0.5*(T[1,2]+T[2,1])\n    szx = 0.5*(T[2,0]+T[0,2])\n    mean = (T[0,0] + T[1,1] + T[2,2])/(3.0)\n    dxx = T[0,0] - mean\n    dyy = T[1,1] - mean\n    dzz = T[2,2] - mean\n    sq = (sxy*sxy, syz*syz, szx*szx, dxx*dyy)\n    second = sq[3] + dyy*dzz + dzz*dxx - sq[0] - sq[1] - sq[2]\n    return mean, (dxx, dyy, dzz, sxy, syz, szx), sq, second\n\n\ndef eigen_sym33_non_unit(tensor):\n    """Compute eigen values'),
    ('ki_dpr1 = ki_ki*(k_row1[0]*row2[0] + k_row1[1]*row2[1] + k_row1[2]*row2[2])',
     'ki_dpr1 = ki_ki*np.dot(k_row1, row2)'),
    ('ki_dpr2 = ki_ki*(k_row1[0]*row3[0] + k_row1[1]*row3[1] + k_row1[2]*row3[2])',
     'ki_dpr2 = ki_ki*(k_row1 @ row3)'),
    ('a0 = row2[0]*row2[0] + row2[1]*row2[1] + row2[2]*row2[2]',
     'a0 = np.sum(row2*row2)'),
    ('a1 = row3[0]*row3[0] + row3[1]*row3[1] + row3[2]*row3[2]',
     'a1 = row3 @ row3'),
    ('    evec2 = np.array([k_row1[1]*a_row2[2] - k_row1[2]*a_row2[1],\n                      k_row1[2]*a_row2[0] - k_row1[0]*a_row2[2],\n                      k_row1[0]*a_row2[1] - k_row1[1]*a_row2[0]])',
     '    evec2 = np.cross(k_row1, a_row2)'),
    ('    evec1 = np.array([evec2[1]*evec0[2] - evec2[2]*evec0[1],\n                      evec2[2]*evec0[0] - evec2[0]*evec0[2],\n                      evec2[0]*evec0[1] - evec2[1]*evec0[0]])',
     '    evec1 = np.cross(evec2, evec0)'),
    ('    evals = np.array([eval0, eval1, eval2])\n    evecs = np.column_stack((evec0,evec1,evec2))\n\n    #idx = np.arange(3)  # np.argsort(evals)\n    idx = np.argsort(evals)\n    \n    return evals[idx],evecs[:,idx]',
     '    unsorted = np.array([eval0, eval1, eval2])\n    basis = np.stack([evec0, evec1, evec2], axis=1)\n    ascending = unsorted.argsort()\n    return np.sort(unsorted), np.take(basis, ascending, axis=1)'),
    ('    cmax = np.linalg.norm(tensor, ord=np.inf)\n    cmaxInv = if_then_else(cmax > 0.0, 1.0/cmax, 1.0)\n    scaledTensor = cmaxInv * tensor\n   \n    evals, evecs = eigen_sym33_non_unit(scaledTensor)\n    \n    evec0 = evecs[:,0]/np.linalg.norm(evecs[:,0])\n    evec1 = evecs[:,1]/np.linalg.norm(evecs[:,1])\n    evec2 = evecs[:,2]/np.linalg.norm(evecs[:,2])\n    \n    evecs = np.column_stack((evec0,evec1,evec2))\n    evals = cmax*evals\n\n    return (evals,evecs)',
     '    size = np.linalg.norm(tensor, ord=np.inf)\n    safeSize = np.where(size > 0.0, size, 1.0)\n    lam, Q = eigen_sym33_non_unit(tensor/safeSize)\n    lengths = np.linalg.norm(Q, axis=0)\n    return lam*size, Q/lengths'),
    ('    return V@np.diag(func(lam))@V.T',
     '    return (V*func(lam))@V.T'),
    ('    t00 = V[0].T@h@V[0]\n    t11 = V[1].T@h@V[1]\n    t22 = V[2].T@h@V[2]\n    t01 = 0.5*(V[0].T@h@V[1] + V[1].T@h@V[0])\n    t12 = 0.5*(V[1].T@h@V[2] + V[2].T@h@V[1])\n    t20 = 0.5*(V[2].T@h@V[0] + V[0].T@h@V[2])\n\n    sol = np.array([ [t00, t01, t20],\n                     [t01, t11, t12],\n                     [t20, t12, t22] ])\n\n    return sol',
     '    return sym(V@h@V.T)'),
    ('    primal_out = sqrt_symm(*primals)',
     '    primal_out = sqrt_symm(primals[0])'),
]

REF_B_TM = [
    ('    c2Negative = c2 < 0\n    denom = np.where(c2Negative, c2, 1.0)\n    ThreeOverA = np.where(c2Negative, -3.0/denom, 1.0)\n    sqrtThreeOverA = np.where(c2Negative, np.sqrt(ThreeOverA), 1.0)',
     '    noDeviator = c2 >= 0\n    denom = np.where(noDeviator, 1.0, c2)\n    ThreeOverA = np.where(noDeviator, 1.0, -3.0/denom)\n    sqrtThreeOverA = np.where(noDeviator, 1.0, np.sqrt(ThreeOverA))'),
    ('    eval2 = np.where(c2Negative, two_cos_thd3/sqrtThreeOverA, 1.0)',
     '    eval2 = np.where(noDeviator, 1.0, two_cos_thd3/sqrtThreeOverA)'),
    ('    arg = np.minimum(abs(rr), 1.0) # Check in the case rr = -1-eps',
     '    absr = np.abs(rr)\n    arg = np.where(absr > 1.0, 1.0, absr)'),
    ('*np.where(b >= 0.0, 1.0, -1.0)',
     '*np.where(b < 0.0, -1.0, 1.0)'),
    ('    c2tol = (c1*c1)*(-1.0e-30)\n\n    c2lsmall_neg = c2 < c2tol\n    \n    eval0 = if_then_else(c2lsmall_neg, eval0, c1)\n    eval1 = if_then_else(c2lsmall_neg, eval1, c1)\n    eval2 = if_then_else(c2lsmall_neg, eval2, c1)\n\n    evec0 = if_then_else(c2lsmall_neg, evec0, np.array([1.0, 0.0, 0.0]))\n    evec1 = if_then_else(c2lsmall_neg, evec1, np.array([0.0, 1.0, 0.0]))\n    evec2 = if_then_else(c2lsmall_neg, evec2, np.array([0.0, 0.0, 1.0]))',
     '    c2tol = -1.0e-30*c1**2\n\n    spherical = c2tol <= c2\n\n    eval0 = if_then_else(spherical, c1, eval0)\n    eval1 = if_then_else(spherical, c1, eval1)\n    eval2 = if_then_else(spherical, c1, eval2)\n\n    e0, e1, e2 = np.identity(3)\n    evec0 = if_then_else(spherical, e0, evec0)\n    evec1 = if_then_else(spherical, e1, evec1)\n    evec2 = if_then_else(spherical, e2, evec2)'),
    ('    cmaxInv = if_then_else(cmax > 0.0, 1.0/cmax, 1.0)',
     '    cmaxInv = if_then_else(cmax == 0.0, 1.0, 1.0/cmax)'),
    ('        x2_safe = np.where(x2 == x1, x2 + 1.0, x2)\n        return np.where(x2 == x1, df(x1), relative_difference(x1, x2_safe))',
     '        distinct = x1 != x2\n        x2_safe = np.where(distinct, x2, x2 + 1.0)\n        return np.where(distinct, relative_difference(x1, x2_safe), df(x1))'),
]

REF_B_LA = [
    ('        g = np.where(diff >= scaleTol,\n                     scaling(M),\n                     1.0)',
     '        g = np.where(diff < scaleTol, 1.0, scaling(M))'),
]

REF_C_TM = [
    ('    x2 = x*x\n    x4 = x2*x2\n\n    numer = 0.866025403784438713 + 2.12714890259493060 * x + \\\n        ( ( 1.89202064815951569  + 0.739603278343401613 * x ) * x2 + \\\n          ( 0.121973926953064794 + x * (0.00655637626263929360 + 0.0000390884982780803443 * x) ) *x4 )\n\n    denom =     1.0 + 2.26376989330935617* x + \\\n        ( ( 1.80461009751278976 + 0.603976798217196003 * x ) * x2 + \\\n         ( 0.0783255761115461708 + 0.00268525944538021629 * x) * x4 )\n    \n    return numer/denom',
     '    p = (0.0000390884982780803443, 0.00655637626263929360, 0.121973926953064794, 0.739603278343401613,\n         1.89202064815951569, 2.12714890259493060, 0.866025403784438713)\n    q = (0.00268525944538021629, 0.0783255761115461708, 0.603976798217196003, 1.80461009751278976,\n         2.26376989330935617, 1.0)\n    numer = 0.0\n    for coefficient in p:\n        numer = numer*x + coefficient\n    denom = 0.0\n    for coefficient in q:\n        denom = denom*x + coefficient\n    return numer/denom'),
    ('    third2 = 2.0 / 3.0\n    fifth2 = 2.0 / 5.0\n    seventh2 = 2.0 / 7.0\n    ninth2 = 2.0 / 9.0\n    \n    frac = (lam1 - lam2) / (lam1 + lam2)\n    frac2 = frac*frac\n    frac4 = frac2*frac2\n    \n    # relative tolerance of 0.05 for this approx (with more terms its valid over larger range)\n    return (2.0 + third2 * frac2 + fifth2 * frac4 + seventh2 * frac4 * frac2 + ninth2 * frac4 * frac4) / (lam1 + lam2)',
     '    total = lam1 + lam2\n    ratioSquared = ((lam1 - lam2) / total)**2\n    series = 0.0\n    power = 1.0\n    for k in range(5):\n        series = series + 2.0/(2*k + 1)*power\n        power = power*ratioSquared\n    return series/total'),
    ('    return 1/(np.sqrt(lam1) + np.sqrt(lam2))',
     '    r1 = np.sqrt(lam1)\n    r2 = np.sqrt(lam2)\n    total = r2 + r1\n    return 1.0/total'),
    ('    arg = lam1 - lam2\n    return np.exp(lam2)*np.expm1(arg)/arg',
     '    e2 = np.exp(lam2)\n    gap = lam1 - lam2\n    return np.expm1(gap)/gap*e2'),
    ('@sqrt_symm.defjvp\ndef _sqrt_symm_jvp(primals, tangents):\n    primal_out = sqrt_symm(*primals)\n    return primal_out, _symmetric_matrix_function_jvp_helper(Math.safe_sqrt, _sqrt_relative_difference, primals, tangents)\n',
     'def _sqrt_symm_jvp(primals, tangents):\n    tangent_out = _symmetric_matrix_function_jvp_helper(tangents=tangents, primals=primals,\n                                                        relative_difference=_sqrt_relative_difference, func=Math.safe_sqrt)\n    A, = primals\n    return sqrt_symm(A), tangent_out\n\nsqrt_symm.defjvp(_sqrt_symm_jvp)\n'),
    ('    primal_out = log_symm(*primals)\n    return primal_out, _symmetric_matrix_function_jvp_helper(np.log, _log_relative_difference, primals, tangents)',
     '    logarithm = np.log\n    out = (log_symm(*primals), _symmetric_matrix_function_jvp_helper(logarithm, _log_relative_difference, primals, tangents))\n    return out'),
    ('    df = jax.jacfwd(func)\n    h_diag = jax.vmap(df)(lam)\n    def rd(x1, x2):',
     '    symCdot = sym(Cdot)\n    rotated = V.T@symCdot\n    W = rotated@V\n    df = jax.grad(func)\n    def rd(x1, x2):'),
    ('    h31 = rd(lam[2], lam[0])\n    h = np.array([[h_diag[0], h12, h31],\n                  [h12, h_diag[1], h23],\n                  [h31, h23, h_diag[2]]])\n    W = V.T@sym(Cdot)@V\n    h *= W\n',
     '    h31 = rd(lam[2], lam[0])\n    d0, d1, d2 = df(lam[0]), df(lam[1]), df(lam[2])\n    h = np.array([[d0, h12, h31],\n                  [h12, d1, h23],\n                  [h31, h23, d2]])*W\n'),
    ('    evecs = np.column_stack((evec0,evec1,evec2))\n    evals = cmax*evals\n\n    return (evals,evecs)',
     '    result = (evals*cmax, np.array([evec0, evec1, evec2]).T)\n    return result'),
]

REF_C_LA = [
    ('        g = np.where(diff >= scaleTol,\n                     scaling(M),\n                     1.0)\n        \n        X *= g\n        M *= g * g\n        \n        Y = X\n        N = np.linalg.inv(M)\n        I = np.identity(dim)\n        X = 0.5 * X @ (I + N)\n        M = 0.5 * (I + 0.5 * (M + N))',
     '        g = jax.lax.cond(diff >= scaleTol, scaling, lambda unused: 1.0, M)\n        I = np.identity(dim)\n        Y = X*g\n        Ms = M*(g*g)\n        N = np.linalg.solve(Ms, I)\n        X = 0.5 * Y @ (I + N)\n        M = 0.5 * (I + 0.5 * (Ms + N))'),
]

REF_D_TM = [
    ('def trace(A):\n    return A[0, 0] + A[1, 1] + A[2, 2]',
     "def trace(A):\n    return np.einsum('ii', A)"),
    ('    trA = np.trace(A)\n    return 0.5*(trA*trA - A.ravel()@A.T.ravel())',
     "    return 0.5*(np.trace(A)**2 - np.einsum('ij,ji', A, A))"),
    ('    return A[0, 0]*A[1, 1]*A[2, 2] + A[0, 1]*A[1, 2]*A[2, 0] + A[0, 2]*A[1, 0]*A[2, 1] \\\n        - A[0, 0]*A[1, 2]*A[2, 1] - A[0, 1]*A[1, 0]*A[2, 2] - A[0, 2]*A[1, 1]*A[2, 0]',
     '    return A[0] @ np.cross(A[1], A[2])'),
    ('    invA00 = A[1, 1]*A[2, 2] - A[1, 2]*A[2, 1]\n    invA01 = A[0, 2]*A[2, 1] - A[0, 1]*A[2, 2]\n    invA02 = A[0, 1]*A[1, 2] - A[0, 2]*A[1, 1]\n    invA10 = A[1, 2]*A[2, 0] - A[1, 0]*A[2, 2]\n    invA11 = A[0, 0]*A[2, 2] - A[0, 2]*A[2, 0]\n    invA12 = A[0, 2]*A[1, 0] - A[0, 0]*A[1, 2]\n    invA20 = A[1, 0]*A[2, 1] - A[1, 1]*A[2, 0]\n    invA21 = A[0, 1]*A[2, 0] - A[0, 0]*A[2, 1]\n    invA22 = A[0, 0]*A[1, 1] - A[0, 1]*A[1, 0]\n    invA = (1.0/det(A)) * np.array([[invA00, invA01, invA02],\n                                    [invA10, invA11, invA12],\n                                    [invA20, invA21, invA22]])\n    return invA',
     '    adjugate = np.stack([np.cross(A[1], A[2]), np.cross(A[2], A[0]), np.cross(A[0], A[1])], axis=1)\n    return adjugate/det(A)'),
    ('    dil = trace(A)\n    return A - (dil/3)*np.identity(3)',
     '    return A - np.trace(A)/3*np.eye(3)'),
    ('    return 0.5*(A + A.T)',
     '    return (A + np.transpose(A))/2'),
    ('    return 0.5*(A - A.T)',
     '    return A - sym(A)'),
    ('    dev = deviator(tensor)\n    return np.tensordot(dev,dev)',
     '    d = deviator(tensor)\n    return np.sum(d*d)'),
    ('    crow0 = np.array([cxx - eval2, cxy,         czx        ])\n    crow1 = np.array([cxy,         cyy - eval2, cyz        ])\n    crow2 = np.array([czx,         cyz,         czz - eval2])\n\n    #\n    # do QR decomposition with column pivoting\n    #\n    k0 = crow0[0]*crow0[0] + cxy_cxy           + czx_czx\n    k1 = cxy_cxy           + crow1[1]*crow1[1] + cyz_cyz\n    k2 = czx_czx           + cyz_cyz           + crow2[2]*crow2[2]\n',
     '    dev = np.array([[cxx, cxy, czx],\n                    [cxy, cyy, cyz],\n                    [czx, cyz, czz]])\n    shifted = dev - eval2*np.identity(3)\n    crow0, crow1, crow2 = shifted\n\n    # squared lengths of the rows (QR decomposition with column pivoting)\n    k0, k1, k2 = [row @ row for row in shifted]\n'),
    ('    k_row1_0 = if_then_else(k0_largest, crow0[0], 0.0)   \\\n        +         if_then_else(k1_largest, crow1[0], 0.0) \\\n        +         if_then_else(k2_largest, crow2[0], 0.0)\n\n    k_row1_1 = if_then_else(k0_largest, crow0[1], 0.0)   \\\n        +         if_then_else(k1_largest, crow1[1], 0.0) \\\n        +         if_then_else(k2_largest, crow2[1], 0.0)\n\n    k_row1_2 = if_then_else(k0_largest, crow0[2], 0.0)   \\\n        +         if_then_else(k1_largest, crow1[2], 0.0) \\\n        +         if_then_else(k2_largest, crow2[2], 0.0)\n\n    k_row1 = np.array([k_row1_0, k_row1_1, k_row1_2])\n    \n    row2_0 = if_then_else(k0_largest, crow1[0], crow0[0])\n    row2_1 = if_then_else(k0_largest, crow1[1], crow0[1])\n    row2_2 = if_then_else(k0_largest, crow1[2], crow0[2])\n    row2 = np.array([row2_0, row2_1, row2_2])\n\n    row3_0 = if_then_else(k2_largest, crow1[0], crow2[0])\n    row3_1 = if_then_else(k2_largest, crow1[1], crow2[1])\n    row3_2 = if_then_else(k2_largest, crow1[2], crow2[2])\n    row3 = np.array([row3_0, row3_1, row3_2])\n\n    ki_ki = 1.0 / ( if_then_else(k0_largest, k0, 0.0)   \\\n                    + if_then_else(k1_largest, k1, 0.0) \\\n                    + if_then_else(k2_largest, k2, 0.0) )\n',
     '    k_row1 = np.where(k0_largest, crow0, np.where(k1_largest, crow1, crow2))\n    row2 = np.where(k0_largest, crow1, crow0)\n    row3 = np.where(k2_largest, crow1, crow2)\n    ki_ki = 1.0 / np.where(k0_largest, k0, np.where(k1_largest, k1, k2))\n'),
    ('    k_atr11 = cxx*k_row1[0] + cxy*k_row1[1] + czx*k_row1[2]\n    k_atr21 = cxy*k_row1[0] + cyy*k_row1[1] + cyz*k_row1[2]\n    k_atr31 = czx*k_row1[0] + cyz*k_row1[1] + czz*k_row1[2]\n\n    a_atr12 = cxx*a_row2[0] + cxy*a_row2[1] + czx*a_row2[2]\n    a_atr22 = cxy*a_row2[0] + cyy*a_row2[1] + cyz*a_row2[2]\n    a_atr32 = czx*a_row2[0] + cyz*a_row2[1] + czz*a_row2[2]\n\n    rm2xx     = (k_row1[0]*k_atr11 + k_row1[1]*k_atr21 + k_row1[2]*k_atr31)*ki_ki\n    k_a_rm2xy = (k_row1[0]*a_atr12 + k_row1[1]*a_atr22 + k_row1[2]*a_atr32)\n    rm2yy     = (a_row2[0]*a_atr12 + a_row2[1]*a_atr22 + a_row2[2]*a_atr32)*ai_ai',
     '    dev_k = dev @ k_row1\n    dev_a = dev @ a_row2\n\n    rm2xx     = (k_row1 @ dev_k)*ki_ki\n    k_a_rm2xy = k_row1 @ dev_a\n    rm2yy     = (a_row2 @ dev_a)*ai_ai'),
    ('    evals = np.array([eval0, eval1, eval2])\n    evecs = np.column_stack((evec0,evec1,evec2))',
     '    columns = []\n    for vector in (evec0, evec1, evec2):\n        columns.append(vector)\n    evals = np.array([eval0, eval1, eval2])\n    evecs = np.array(columns).T'),
]

# ---- round 2: bolder restructurings written while hardening the rules (each list reproduces one whole-file refactoring)
#  E  JVP rules made by a factory and registered by call, helper with bare matrices and keyword-only callables, jax.grad, custom_jvp by call,
#     divided differences collected in a dictionary comprehension
#  F  Denman-Beavers with a dictionary carry, module level step bound by a lambda, loop run by a private driver
#  G  2x2 block solved by a private function returning a NamedTuple (no named half difference), matrix-vector products, spherical branch on
#     whole arrays, np.take for the sort
#  H  unit wrapper: max-abs norm with a floor instead of a guarded reciprocal, symmetrised input, broadcast normalisation; einsum spectral form
#  J  vectorised tangent helper (meshgrid, array conditions, nested vmap), solver pivot by argmax / np.select
REF_E_TM = [
    ('# error as lam1 -> lam2.\ndef _symmetric_matrix_function_jvp_helper(func, relative_difference, primals, tangents):\n    C, = primals\n    Cdot, = tangents\n\n',
     '# error as lam1 -> lam2.\ndef _symmetric_matrix_function_jvp_helper(C, Cdot, *, func, relative_difference):\n\n'),
    ('\n    df = jax.jacfwd(func)\n    h_diag = jax.vmap(df)(lam)\n    def rd(x1, x2):\n        x2_safe = np.where(x2 == x1, x2 + 1.0, x2)\n        return np.where(x2 == x1, df(x1), relative_difference(x1, x2_safe))\n    h12 = rd(lam[0], lam[1])\n    h23 = rd(lam[1], lam[2])\n    h31 = rd(lam[2], lam[0])\n    h = np.array([[h_diag[0], h12, h31],\n                  [h12, h_diag[1], h23],\n                  [h31, h23, h_diag[2]]])\n    W = V.T@sym(Cdot)@V\n',
     '\n    slope = jax.grad(func)\n    def rd(x1, x2):\n        distinct = x2 != x1\n        x2_safe = np.where(distinct, x2, x2 + 1.0)\n        return np.where(distinct, relative_difference(x1, x2_safe), slope(x1))\n    pairs = {(i, j): rd(lam[i], lam[j]) for i in range(3) for j in range(i + 1, 3)}\n    h = np.array([[slope(lam[i]) if i == j else pairs[(min(i, j), max(i, j))] for j in range(3)] for i in range(3)])\n    W = V.T@sym(Cdot)@V\n'),
    ('\n@sqrt_symm.defjvp\ndef _sqrt_symm_jvp(primals, tangents):\n    primal_out = sqrt_symm(*primals)\n    return primal_out, _symmetric_matrix_function_jvp_helper(Math.safe_sqrt, _sqrt_relative_difference, primals, tangents)\n\n',
     '\ndef _spectral_jvp(matrix_function, scalar_function, relative_difference):\n    """Build the JVP rule of a matrix function created from a scalar function."""\n    def rule(primals, tangents):\n        A = primals[0]\n        dA = tangents[0]\n        value = matrix_function(*primals)\n        tangent = _symmetric_matrix_function_jvp_helper(A, dA, func=scalar_function, relative_difference=relative_difference)\n        return value, tangent\n    return rule\n\nsqrt_symm.defjvp(_spectral_jvp(sqrt_symm, Math.safe_sqrt, _sqrt_relative_difference))\n\n'),
    ('\n@exp_symm.defjvp\ndef _exp_symm_jvp(primals, tangents):\n    primal_out = exp_symm(*primals)\n    return primal_out, _symmetric_matrix_function_jvp_helper(np.exp, _exp_relative_difference, primals, tangents)\n\n\n@jax.custom_jvp\ndef log_symm(A):\n    """Compute the matrix logarithm of a symmetric positive definite matrix."""\n    return symmetric_matrix_function(A, np.log)\n\n',
     '\nexp_symm.defjvp(_spectral_jvp(exp_symm, np.exp, _exp_relative_difference))\n\n\ndef _log_symm(A):\n    """Compute the matrix logarithm of a symmetric positive definite matrix."""\n    return symmetric_matrix_function(A, np.log)\n\nlog_symm = jax.custom_jvp(_log_symm)\n\n'),
    ('\n@log_symm.defjvp\ndef _log_symm_jvp(primals, tangents):\n    primal_out = log_symm(*primals)\n    return primal_out, _symmetric_matrix_function_jvp_helper(np.log, _log_relative_difference, primals, tangents)\n\n',
     '\nlog_symm.defjvp(_spectral_jvp(log_symm, np.log, _log_relative_difference))\n\n'),
    ('    dA, dm = tangents\n    return pow_symm(A, m), _symmetric_matrix_function_jvp_helper(lambda x: np.power(x, m), lambda l1, l2: _pow_relative_difference(l1, l2, m), (A,), (dA,))\n',
     '    dA, dm = tangents\n    callables = dict(func=lambda x: x**m, relative_difference=lambda l1, l2: _pow_relative_difference(l1, l2, m))\n    return pow_symm(A, m), _symmetric_matrix_function_jvp_helper(A, dA, **callables)\n'),
]

REF_F_LA = [
    ('\ndef sqrtm_dbp(A):\n    """ Matrix square root by product form of Denman-Beavers iteration.\n    \n    Translated from the Matrix Function Toolbox\n',
     '\ndef _determinantal_scale(M, dim):\n    return 1.0 / np.abs(np.linalg.det(M))**(1.0/(2.0*dim))\n\n\ndef _dbp_step(carry, *, dim, scaleTol):\n    """One step of the product form Denman-Beavers iteration on the carry dictionary."""\n    nearly_converged = carry["diff"] < scaleTol\n    g = np.where(nearly_converged, 1.0, _determinantal_scale(carry["M"], dim))\n    gg = g * g\n    Y = g * carry["X"]\n    Ms = gg * carry["M"]\n    N = np.linalg.inv(Ms)\n    I = np.identity(dim)\n    X = 0.5 * Y @ (I + N)\n    M = 0.5 * (I + 0.5 * (Ms + N))\n    return {"M": M,\n            "X": X,\n            "count": carry["count"] + 1,\n            "error": np.linalg.norm(M - I, \'fro\'),\n            "diff": np.linalg.norm(X - Y, \'fro\') / np.linalg.norm(X, \'fro\')}\n\n\ndef _run_dbp(A, dim, tol, maxIters, scaleTol):\n    start = dict(X=A, M=A, error=np.finfo(np.dtype("float64")).max, count=0,\n                 diff=2.0*scaleTol) # want to force scaling on first iteration\n    keep_going = lambda c: np.logical_and(c["count"] < maxIters, c["error"] > tol)\n    return jax.lax.while_loop(keep_going, lambda c: _dbp_step(c, dim=dim, scaleTol=scaleTol), start)\n\n\ndef sqrtm_dbp(A):\n    """ Matrix square root by product form of Denman-Beavers iteration.\n\n    Translated from the Matrix Function Toolbox\n'),
    ('    """\n    dim        = A.shape[0]\n    tol        = 0.5 * np.sqrt(dim) * np.finfo(np.dtype("float64")).eps\n    maxIters   = 32\n    scaleTol   = 0.01\n\n    def scaling(M):\n        d  = np.abs(np.linalg.det(M))**(1.0/(2.0*dim))\n        g = 1.0 / d\n        return g\n    \n    def cond_f(loopData):\n        _,_,error,k,_ = loopData\n        p = np.array([k < maxIters, error > tol], dtype=bool)\n        return np.all(p)\n    \n    def body_f(loopData):\n        X, M, error, k, diff = loopData\n        g = np.where(diff >= scaleTol,\n                     scaling(M),\n                     1.0)\n        \n        X *= g\n        M *= g * g\n        \n        Y = X\n        N = np.linalg.inv(M)\n        I = np.identity(dim)\n        X = 0.5 * X @ (I + N)\n        M = 0.5 * (I + 0.5 * (M + N))\n        error = np.linalg.norm(M - I, \'fro\')\n        diff  = np.linalg.norm(X - Y, \'fro\') / np.linalg.norm(X, \'fro\')\n        k += 1\n        return (X, M, error, k, diff)\n\n    X0        = A\n    M0        = A\n    error0    = np.finfo(np.dtype("float64")).max\n    k0        = 0\n    diff0     = 2.0*scaleTol # want to force scaling on first iteration\n    loopData0 = (X0, M0, error0, k0, diff0)\n    \n    X,_,_,k,_ = jax.lax.while_loop(cond_f, body_f, loopData0)\n\n    return X,k\n\n',
     '    """\n    dim = A.shape[0]\n    tol = 0.5 * np.sqrt(dim) * np.finfo(np.dtype("float64")).eps\n    final = _run_dbp(A, dim, tol, maxIters=32, scaleTol=0.01)\n    return final["X"], final["count"]\n\n'),
]

REF_G_TM = [
    ('"""Provide differentiable operations on 3x3 tensors."""\n\n',
     '"""Provide differentiable operations on 3x3 tensors."""\n\nfrom typing import Any, NamedTuple\n\n'),
    ('    return dudX\n\n',
     '    return dudX\n\nclass _BlockRoots(NamedTuple):\n    first: Any\n    second: Any\n\n\ndef _reduced_block_roots(xx, yy, xy_squared):\n    """Eigenvalues of the symmetric 2x2 matrix [[xx, xy], [xy, yy]] by the Wilkinson shift."""\n    half_gap = 0.5*(xx - yy)\n    direction = np.where(half_gap < 0.0, -1.0, 1.0)\n    first = yy + half_gap - direction*Math.safe_sqrt(half_gap*half_gap + xy_squared)\n    return _BlockRoots(first=first, second=xx + yy - first)\n\n\n'),
    ('\n    k_atr11 = cxx*k_row1[0] + cxy*k_row1[1] + czx*k_row1[2]\n    k_atr21 = cxy*k_row1[0] + cyy*k_row1[1] + cyz*k_row1[2]\n    k_atr31 = czx*k_row1[0] + cyz*k_row1[1] + czz*k_row1[2]\n\n    a_atr12 = cxx*a_row2[0] + cxy*a_row2[1] + czx*a_row2[2]\n    a_atr22 = cxy*a_row2[0] + cyy*a_row2[1] + cyz*a_row2[2]\n    a_atr32 = czx*a_row2[0] + cyz*a_row2[1] + czz*a_row2[2]\n\n    rm2xx     = (k_row1[0]*k_atr11 + k_row1[1]*k_atr21 + k_row1[2]*k_atr31)*ki_ki\n    k_a_rm2xy = (k_row1[0]*a_atr12 + k_row1[1]*a_atr22 + k_row1[2]*a_atr32)\n    rm2yy     = (a_row2[0]*a_atr12 + a_row2[1]*a_atr22 + a_row2[2]*a_atr32)*ai_ai\n    rm2xy_rm2xy = k_a_rm2xy*k_a_rm2xy*ai_ai*ki_ki\n\n    #\n    # Wilkinson shift\n    #\n    b = 0.5*(rm2xx-rm2yy)\n\n    sqrtTerm = Math.safe_sqrt(b*b+rm2xy_rm2xy)*np.where(b >= 0.0, 1.0, -1.0)\n    #sqrtTerm = np.sqrt(b*b+rm2xy_rm2xy)*np.sign(b)\n    \n    eval0 = rm2yy + b - sqrtTerm\n    eval1 = rm2xx + rm2yy - eval0\n\n',
     '\n    deviator_matrix = np.array([[cxx, cxy, czx],\n                                [cxy, cyy, cyz],\n                                [czx, cyz, czz]])\n    Dk = deviator_matrix @ k_row1\n    Da = deviator_matrix @ a_row2\n\n    rm2xx     = np.dot(k_row1, Dk)*ki_ki\n    k_a_rm2xy = np.dot(k_row1, Da)\n    rm2yy     = np.dot(a_row2, Da)*ai_ai\n    rm2xy_rm2xy = k_a_rm2xy*k_a_rm2xy*ai_ai*ki_ki\n\n    roots = _reduced_block_roots(rm2xx, rm2yy, rm2xy_rm2xy)\n    eval0 = roots.first\n    eval1 = roots.second\n\n'),
    ('\n    eval0 = eval0 + c1\n    eval1 = eval1 + c1\n    eval2 = eval2 + c1\n    \n    c2tol = (c1*c1)*(-1.0e-30)\n\n    c2lsmall_neg = c2 < c2tol\n    \n    eval0 = if_then_else(c2lsmall_neg, eval0, c1)\n    eval1 = if_then_else(c2lsmall_neg, eval1, c1)\n    eval2 = if_then_else(c2lsmall_neg, eval2, c1)\n\n    evec0 = if_then_else(c2lsmall_neg, evec0, np.array([1.0, 0.0, 0.0]))\n    evec1 = if_then_else(c2lsmall_neg, evec1, np.array([0.0, 1.0, 0.0]))\n    evec2 = if_then_else(c2lsmall_neg, evec2, np.array([0.0, 0.0, 1.0]))\n    \n    evals = np.array([eval0, eval1, eval2])\n    evecs = np.column_stack((evec0,evec1,evec2))\n\n    #idx = np.arange(3)  # np.argsort(evals)\n    idx = np.argsort(evals)\n    \n    return evals[idx],evecs[:,idx]\n\n',
     '\n    spherical = c2 >= -1.0e-30*c1**2\n\n    evals = np.where(spherical, c1*np.ones(3), c1 + np.array([eval0, eval1, eval2]))\n    evecs = np.where(spherical, np.identity(3), np.stack([evec0, evec1, evec2]).T)\n\n    order = np.argsort(evals)\n    return np.take(evals, order), np.take(evecs, order, axis=1)\n\n'),
]

REF_H_TM = [
    ('def eigen_sym33_unit(tensor):\n    cmax = np.linalg.norm(tensor, ord=np.inf)\n    cmaxInv = if_then_else(cmax > 0.0, 1.0/cmax, 1.0)\n    scaledTensor = cmaxInv * tensor\n   \n    evals, evecs = eigen_sym33_non_unit(scaledTensor)\n    \n    evec0 = evecs[:,0]/np.linalg.norm(evecs[:,0])\n    evec1 = evecs[:,1]/np.linalg.norm(evecs[:,1])\n    evec2 = evecs[:,2]/np.linalg.norm(evecs[:,2])\n    \n    evecs = np.column_stack((evec0,evec1,evec2))\n    evals = cmax*evals\n\n    return (evals,evecs)\n\n',
     'def eigen_sym33_unit(tensor):\n    size = np.max(np.abs(tensor))\n    floor = np.finfo(np.dtype("float64")).tiny\n    unit_size = sym(tensor) / np.maximum(size, floor)\n    spectrum = eigen_sym33_non_unit(unit_size)\n    lengths = np.sqrt(np.sum(spectrum[1]*spectrum[1], axis=0))\n    return size*spectrum[0], spectrum[1]/lengths[None, :]\n\n'),
    ('    """Create a function on symmetric matrices from a scalar function."""\n    lam, V = eigen_sym33_unit(A)\n    return V@np.diag(func(lam))@V.T\n\n',
     '    """Create a function on symmetric matrices from a scalar function."""\n    lam, V = eigen_sym33_unit(sym(A))\n    return np.einsum(\'ik,k,jk->ij\', V, func(lam), V)\n\n'),
]

REF_J_TM = [
    ('\n    k_row1_0 = if_then_else(k0_largest, crow0[0], 0.0)   \\\n        +         if_then_else(k1_largest, crow1[0], 0.0) \\\n        +         if_then_else(k2_largest, crow2[0], 0.0)\n\n    k_row1_1 = if_then_else(k0_largest, crow0[1], 0.0)   \\\n        +         if_then_else(k1_largest, crow1[1], 0.0) \\\n        +         if_then_else(k2_largest, crow2[1], 0.0)\n\n    k_row1_2 = if_then_else(k0_largest, crow0[2], 0.0)   \\\n        +         if_then_else(k1_largest, crow1[2], 0.0) \\\n        +         if_then_else(k2_largest, crow2[2], 0.0)\n\n    k_row1 = np.array([k_row1_0, k_row1_1, k_row1_2])\n    \n',
     '\n    shifted = np.array([crow0, crow1, crow2])\n    pivot = np.argmax(np.array([k0, k1, k2]))\n    k_row1 = shifted[pivot]\n    \n'),
    ('\n    ki_ki = 1.0 / ( if_then_else(k0_largest, k0, 0.0)   \\\n                    + if_then_else(k1_largest, k1, 0.0) \\\n                    + if_then_else(k2_largest, k2, 0.0) )\n    \n',
     '\n    ki_ki = 1.0 / np.select([pivot == 0, pivot == 1], [k0, k1], k2)\n    \n'),
    ('    df = jax.jacfwd(func)\n    h_diag = jax.vmap(df)(lam)\n    def rd(x1, x2):\n        x2_safe = np.where(x2 == x1, x2 + 1.0, x2)\n        return np.where(x2 == x1, df(x1), relative_difference(x1, x2_safe))\n    h12 = rd(lam[0], lam[1])\n    h23 = rd(lam[1], lam[2])\n    h31 = rd(lam[2], lam[0])\n    h = np.array([[h_diag[0], h12, h31],\n                  [h12, h_diag[1], h23],\n                  [h31, h23, h_diag[2]]])\n    W = V.T@sym(Cdot)@V\n    h *= W\n\n    t00 = V[0].T@h@V[0]\n    t11 = V[1].T@h@V[1]\n    t22 = V[2].T@h@V[2]\n    t01 = 0.5*(V[0].T@h@V[1] + V[1].T@h@V[0])\n    t12 = 0.5*(V[1].T@h@V[2] + V[2].T@h@V[1])\n    t20 = 0.5*(V[2].T@h@V[0] + V[0].T@h@V[2])\n\n    sol = np.array([ [t00, t01, t20],\n                     [t01, t11, t12],\n                     [t20, t12, t22] ])\n\n    return sol\n\n',
     "    df = jax.jacfwd(func)\n    lam_i, lam_j = np.meshgrid(lam, lam, indexing='ij')\n    repeated = lam_i == lam_j\n    lam_j_safe = np.where(repeated, lam_j + 1.0, lam_j)\n    slopes = jax.vmap(jax.vmap(df))(lam_i)\n    quotients = jax.vmap(jax.vmap(relative_difference))(lam_i, lam_j_safe)\n    h = np.where(repeated, slopes, quotients)\n    rotated = V.T@sym(Cdot)@V\n    return sym(V@(h*rotated)@V.T)\n\n"),
]

# ---- the three independent round-2 refactorings (/tmp/ref2/C12/r1..r3), kept as self-test variants
R2_1_TM = [
    ('"""Provide differentiable operations on 3x3 tensors."""\n\n',
     '"""Provide differentiable operations on 3x3 tensors."""\n\nfrom functools import partial\nfrom typing import Callable, NamedTuple\n\n'),
    ('\n# Helper function to define the JVP for any matrix function created from a\n# scalar function func.\n# To use, you must provide the function\n# relative_difference: lam1, lam2 -> (func(lam1) - func(lam2))/(lam1 - lam2)\n# Ideally, this should be formulated such that it does not suffer from cancellation\n# error as lam1 -> lam2.\ndef _symmetric_matrix_function_jvp_helper(func, relative_difference, primals, tangents):\n    C, = primals\n',
     '\nclass _ScalarFunctionRule(NamedTuple):\n    """A scalar function together with what is needed to differentiate the\n    matrix function created from it.\n\n    func: the scalar function applied to the eigenvalues\n    relative_difference: lam1, lam2 -> (func(lam1) - func(lam2))/(lam1 - lam2)\n      Ideally, this should be formulated such that it does not suffer from\n      cancellation error as lam1 -> lam2.\n    """\n    func: Callable\n    relative_difference: Callable\n\n# Helper function to define the JVP for any matrix function created from a\n# scalar function, described by a _ScalarFunctionRule.\ndef _symmetric_matrix_function_jvp_helper(rule, primals, tangents):\n    func, relative_difference = rule\n    C, = primals\n'),
    ('    return sol\n\n@jax.custom_jvp\ndef sqrt_symm(A):\n',
     '    return sol\n\ndef _sqrt_relative_difference(lam1, lam2):\n    return 1/(np.sqrt(lam1) + np.sqrt(lam2))\n\n_SQRT_RULE = _ScalarFunctionRule(func=Math.safe_sqrt, relative_difference=_sqrt_relative_difference)\n\n@jax.custom_jvp\ndef sqrt_symm(A):\n'),
    ('    """Square root of a symmetric positive semi-definite tensor."""\n    return symmetric_matrix_function(A, Math.safe_sqrt)\n\ndef _sqrt_relative_difference(lam1, lam2):\n    return 1/(np.sqrt(lam1) + np.sqrt(lam2))\n\n',
     '    """Square root of a symmetric positive semi-definite tensor."""\n    return symmetric_matrix_function(A, _SQRT_RULE.func)\n\n'),
    ('    primal_out = sqrt_symm(*primals)\n    return primal_out, _symmetric_matrix_function_jvp_helper(Math.safe_sqrt, _sqrt_relative_difference, primals, tangents)\n\n\n@jax.custom_jvp\ndef exp_symm(A):\n    """Compute the matrix exponential of a symmetric matrix."""\n    return symmetric_matrix_function(A, np.exp)\n\n',
     '    primal_out = sqrt_symm(*primals)\n    return primal_out, _symmetric_matrix_function_jvp_helper(_SQRT_RULE, primals, tangents)\n\n\n'),
    ('\n@exp_symm.defjvp\n',
     '\n_EXP_RULE = _ScalarFunctionRule(func=np.exp, relative_difference=_exp_relative_difference)\n\n@jax.custom_jvp\ndef exp_symm(A):\n    """Compute the matrix exponential of a symmetric matrix."""\n    return symmetric_matrix_function(A, _EXP_RULE.func)\n\n@exp_symm.defjvp\n'),
    ('    primal_out = exp_symm(*primals)\n    return primal_out, _symmetric_matrix_function_jvp_helper(np.exp, _exp_relative_difference, primals, tangents)\n\n\n@jax.custom_jvp\ndef log_symm(A):\n    """Compute the matrix logarithm of a symmetric positive definite matrix."""\n    return symmetric_matrix_function(A, np.log)\n\n',
     '    primal_out = exp_symm(*primals)\n    return primal_out, _symmetric_matrix_function_jvp_helper(_EXP_RULE, primals, tangents)\n\n\n'),
    ('\n@log_symm.defjvp\n',
     '\n_LOG_RULE = _ScalarFunctionRule(func=np.log, relative_difference=_log_relative_difference)\n\n@jax.custom_jvp\ndef log_symm(A):\n    """Compute the matrix logarithm of a symmetric positive definite matrix."""\n    return symmetric_matrix_function(A, _LOG_RULE.func)\n\n@log_symm.defjvp\n'),
    ('    primal_out = log_symm(*primals)\n    return primal_out, _symmetric_matrix_function_jvp_helper(np.log, _log_relative_difference, primals, tangents)\n\n',
     '    primal_out = log_symm(*primals)\n    return primal_out, _symmetric_matrix_function_jvp_helper(_LOG_RULE, primals, tangents)\n\n'),
    ('    """\n    return symmetric_matrix_function(A, lambda x: np.power(x, m))\n\n',
     '    """\n    return symmetric_matrix_function(A, _pow_rule(m).func)\n\ndef _scalar_power(x, m):\n    return np.power(x, m)\n\n'),
    ('\n@pow_symm.defjvp\n',
     '\ndef _pow_rule(m):\n    """The rule for the scalar function x -> x**m, with the exponent bound."""\n    return _ScalarFunctionRule(func=partial(_scalar_power, m=m),\n                               relative_difference=partial(_pow_relative_difference, m=m))\n\n@pow_symm.defjvp\n'),
    ('    dA, dm = tangents\n    return pow_symm(A, m), _symmetric_matrix_function_jvp_helper(lambda x: np.power(x, m), lambda l1, l2: _pow_relative_difference(l1, l2, m), (A,), (dA,))\n',
     '    dA, dm = tangents\n    return pow_symm(A, m), _symmetric_matrix_function_jvp_helper(_pow_rule(m), (A,), (dA,))\n'),
]

R2_1_LA = [
    ('import jax\n',
     'from typing import Any, NamedTuple\n\nimport jax\n'),
    ('from optimism.QuadratureRule import create_padded_quadrature_rule_1D\n\n',
     'from optimism.QuadratureRule import create_padded_quadrature_rule_1D\n\nclass _DenmanBeaversState(NamedTuple):\n    """Loop state of the product form Denman-Beavers iteration in sqrtm_dbp."""\n    X: Any      # current approximation of the square root\n    M: Any      # product iterate, converges to the identity\n    error: Any  # Frobenius norm of M - I\n    k: Any      # iteration count\n    diff: Any   # relative change of X in the last iteration\n\n\nclass _InverseScalingState(NamedTuple):\n    """Loop state of the inverse scaling and squaring iteration in _logm_iss."""\n    X: Any          # A^(1/2^k)\n    j: Any          # number of iterations in which the Pade degree was estimated\n    k: Any          # number of square roots taken\n    m: Any          # Pade degree\n    itk: Any        # iterations used by the last square root\n    converged: Any  # whether the Pade degree has been chosen\n\n\n'),
    ('    \n    def cond_f(loopData):\n        _,_,error,k,_ = loopData\n        p = np.array([k < maxIters, error > tol], dtype=bool)\n        return np.all(p)\n    \n    def body_f(loopData):\n        X, M, error, k, diff = loopData\n        g = np.where(diff >= scaleTol,\n                     scaling(M),\n                     1.0)\n        \n        X *= g\n        M *= g * g\n        \n        Y = X\n        N = np.linalg.inv(M)\n        I = np.identity(dim)\n        X = 0.5 * X @ (I + N)\n        M = 0.5 * (I + 0.5 * (M + N))\n',
     '    \n    def cond_f(state):\n        p = np.array([state.k < maxIters, state.error > tol], dtype=bool)\n        return np.all(p)\n    \n    def body_f(state):\n        g = np.where(state.diff >= scaleTol,\n                     scaling(state.M),\n                     1.0)\n        \n        Y = state.X * g\n        M = state.M * (g * g)\n        \n        N = np.linalg.inv(M)\n        I = np.identity(dim)\n        X = 0.5 * Y @ (I + N)\n        M = 0.5 * (I + 0.5 * (M + N))\n'),
    ('        diff  = np.linalg.norm(X - Y, \'fro\') / np.linalg.norm(X, \'fro\')\n        k += 1\n        return (X, M, error, k, diff)\n\n    X0        = A\n    M0        = A\n    error0    = np.finfo(np.dtype("float64")).max\n    k0        = 0\n    diff0     = 2.0*scaleTol # want to force scaling on first iteration\n    loopData0 = (X0, M0, error0, k0, diff0)\n    \n    X,_,_,k,_ = jax.lax.while_loop(cond_f, body_f, loopData0)\n\n    return X,k\n\n',
     '        diff  = np.linalg.norm(X - Y, \'fro\') / np.linalg.norm(X, \'fro\')\n        return _DenmanBeaversState(X=X, M=M, error=error, k=state.k + 1, diff=diff)\n\n    state0 = _DenmanBeaversState(X=A,\n                                 M=A,\n                                 error=np.finfo(np.dtype("float64")).max,\n                                 k=0,\n                                 diff=2.0*scaleTol) # want to force scaling on first iteration\n    \n    final = jax.lax.while_loop(cond_f, body_f, state0)\n\n    return final.X, final.k\n\n'),
    ('\n    def cond_f(loopData):\n        _,_,k,_,_,converged = loopData\n        conditions = np.array([~converged, k < 16], dtype = bool)\n        return conditions.all()\n',
     '\n    def cond_f(state):\n        conditions = np.array([~state.converged, state.k < 16], dtype = bool)\n        return conditions.all()\n'),
    ('        q += 2\n        m,j,converged = if_then_else((2 * (p - q) // 3 < itk) | (j == 2),\n                                     (p+1,j,True), (0,j,False))\n        return m,j,converged\n\n    def body_f(loopData):\n        X,j,k,m,itk,converged = loopData\n        diff = np.linalg.norm(X - np.identity(dim), ord=1)\n        m,j,converged = if_then_else(diff < c15,\n                                     compute_pade_degree(diff, j, itk),\n                                     (m, j, converged))\n        X,itk = sqrtm_dbp(X)\n        k += 1\n        return X,j,k,m,itk,converged\n\n    X   = A\n    j   = 0\n    k   = 0\n    m   = 0\n    itk = 5\n    converged = False\n    X,j,k,m,itk,converged = jax.lax.while_loop(cond_f, body_f, (X,j,k,m,itk,converged))\n    return X,k,m\n\n',
     '        q += 2\n        degree_found = (2 * (p - q) // 3 < itk) | (j == 2)\n        m = np.where(degree_found, p + 1, 0)\n        return m, j, degree_found\n\n    def body_f(state):\n        diff = np.linalg.norm(state.X - np.identity(dim), ord=1)\n        m,j,converged = if_then_else(diff < c15,\n                                     compute_pade_degree(diff, state.j, state.itk),\n                                     (state.m, state.j, state.converged))\n        X,itk = sqrtm_dbp(state.X)\n        return state._replace(X=X, j=j, k=state.k + 1, m=m, itk=itk, converged=converged)\n\n    state0 = _InverseScalingState(X=A, j=0, k=0, m=0, itk=5, converged=False)\n    final = jax.lax.while_loop(cond_f, body_f, state0)\n    return final.X, final.k, final.m\n\n'),
]

R2_2_TM = [
    ('\ndef eigen_sym33_non_unit(tensor):\n    """Compute eigen values and vectors of a symmetric 3x3 tensor.\n\n    Note, returned eigen vectors may not be unit length\n    Note, this routine involves high powers of the input tensor (~M^8).\n    Thus results can start to denormalize when the infinity norm of the input\n    tensor falls outside the range 1.0e-40 to 1.0e+40.\n    Outside this range use eigen_sym33_unit\n    """\n',
     '\ndef _deviatoric_part_sym33(tensor):\n    """Symmetrize a 3x3 tensor and split off its mean normal part.\n\n    Returns the mean c1 of the diagonal, the six independent components\n    (cxx, cyy, czz, cxy, cyz, czx) of the deviator, and the squares\n    (cxy_cxy, cyz_cyz, czx_czx) of its off-diagonal components.\n    """\n'),
    ('    czx_czx = czx*czx\n    cxx_cyy = cxx*cyy\n',
     '    czx_czx = czx*czx\n\n    return c1, (cxx, cyy, czz, cxy, cyz, czx), (cxy_cxy, cyz_cyz, czx_czx)\n\n\ndef _extreme_deviatoric_eigenvalue(dev, dev_squares):\n    """Compute the eigenvalue of largest magnitude of a deviatoric tensor.\n\n    Uses the trigonometric solution of the characteristic equation.\n    Returns the second invariant c2 (negative unless the deviator vanishes)\n    and the eigenvalue.\n    """\n    cxx, cyy, czz, cxy, cyz, czx = dev\n    cxy_cxy, cyz_cyz, czx_czx = dev_squares\n\n    cxx_cyy = cxx*cyy\n'),
    ('    eval2 = np.where(c2Negative, two_cos_thd3/sqrtThreeOverA, 1.0)\n    \n    crow0 = np.array([cxx - eval2, cxy,         czx        ])\n',
     '    eval2 = np.where(c2Negative, two_cos_thd3/sqrtThreeOverA, 1.0)\n\n    return c2, eval2\n\n\ndef _pivoted_qr_rows(dev, dev_squares, eval2):\n    """QR decomposition with column pivoting of the singular matrix dev - eval2*I.\n\n    Returns the row of largest norm (k_row1), the larger of the two remaining\n    rows after orthogonalization against it (a_row2), and the reciprocals\n    of their squared norms (ki_ki, ai_ai). The rows are not normalized.\n    """\n    cxx, cyy, czz, cxy, cyz, czx = dev\n    cxy_cxy, cyz_cyz, czx_czx = dev_squares\n\n    crow0 = np.array([cxx - eval2, cxy,         czx        ])\n'),
    ('    ai_ai = 1.0 / if_then_else(a0lea1, a1, a0)\n    \n    evec2 = np.array([k_row1[1]*a_row2[2] - k_row1[2]*a_row2[1],\n                      k_row1[2]*a_row2[0] - k_row1[0]*a_row2[2],\n                      k_row1[0]*a_row2[1] - k_row1[1]*a_row2[0]])\n\n',
     '    ai_ai = 1.0 / if_then_else(a0lea1, a1, a0)\n\n    return k_row1, a_row2, ki_ki, ai_ai\n\n\ndef _eigen_in_deflated_plane(dev, k_row1, a_row2, ki_ki, ai_ai):\n    """Solve the 2x2 eigenproblem of dev projected on span(k_row1, a_row2).\n\n    Returns the two eigenvalues and the (non unit) eigenvector of the first.\n    """\n    cxx, cyy, czz, cxy, cyz, czx = dev\n\n'),
    ('    evec0 = if_then_else(both_zero, a_row2, evec0)\n\n',
     '    evec0 = if_then_else(both_zero, a_row2, evec0)\n\n    return eval0, eval1, evec0\n\n\ndef eigen_sym33_non_unit(tensor):\n    """Compute eigen values and vectors of a symmetric 3x3 tensor.\n\n    Note, returned eigen vectors may not be unit length\n    Note, this routine involves high powers of the input tensor (~M^8).\n    Thus results can start to denormalize when the infinity norm of the input\n    tensor falls outside the range 1.0e-40 to 1.0e+40.\n    Outside this range use eigen_sym33_unit\n    """\n    c1, dev, dev_squares = _deviatoric_part_sym33(tensor)\n\n    c2, eval2 = _extreme_deviatoric_eigenvalue(dev, dev_squares)\n\n    k_row1, a_row2, ki_ki, ai_ai = _pivoted_qr_rows(dev, dev_squares, eval2)\n\n    evec2 = np.array([k_row1[1]*a_row2[2] - k_row1[2]*a_row2[1],\n                      k_row1[2]*a_row2[0] - k_row1[0]*a_row2[2],\n                      k_row1[0]*a_row2[1] - k_row1[1]*a_row2[0]])\n\n    eval0, eval1, evec0 = _eigen_in_deflated_plane(dev, k_row1, a_row2, ki_ki, ai_ai)\n\n'),
    ('\n# Helper function to define the JVP for any matrix function created from a\n',
     '\ndef _divided_difference(df, relative_difference, x1, x2):\n    """(f(x1) - f(x2))/(x1 - x2), falling back on the derivative df when x1 == x2."""\n    x2_safe = np.where(x2 == x1, x2 + 1.0, x2)\n    return np.where(x2 == x1, df(x1), relative_difference(x1, x2_safe))\n\ndef _divided_difference_matrix(func, relative_difference, lam):\n    """Matrix of the divided differences of func between all pairs of the eigenvalues lam."""\n    df = jax.jacfwd(func)\n    h_diag = jax.vmap(df)(lam)\n    h12 = _divided_difference(df, relative_difference, lam[0], lam[1])\n    h23 = _divided_difference(df, relative_difference, lam[1], lam[2])\n    h31 = _divided_difference(df, relative_difference, lam[2], lam[0])\n    h = np.array([[h_diag[0], h12, h31],\n                  [h12, h_diag[1], h23],\n                  [h31, h23, h_diag[2]]])\n    return h\n\ndef _rotate_from_eigenbasis_symmetrized(V, h):\n    """Compute the symmetric part of V@h@V.T, entry by entry."""\n    t00 = V[0].T@h@V[0]\n    t11 = V[1].T@h@V[1]\n    t22 = V[2].T@h@V[2]\n    t01 = 0.5*(V[0].T@h@V[1] + V[1].T@h@V[0])\n    t12 = 0.5*(V[1].T@h@V[2] + V[2].T@h@V[1])\n    t20 = 0.5*(V[2].T@h@V[0] + V[0].T@h@V[2])\n\n    sol = np.array([ [t00, t01, t20],\n                     [t01, t11, t12],\n                     [t20, t12, t22] ])\n\n    return sol\n\n# Helper function to define the JVP for any matrix function created from a\n'),
    ('\n    df = jax.jacfwd(func)\n    h_diag = jax.vmap(df)(lam)\n    def rd(x1, x2):\n        x2_safe = np.where(x2 == x1, x2 + 1.0, x2)\n        return np.where(x2 == x1, df(x1), relative_difference(x1, x2_safe))\n    h12 = rd(lam[0], lam[1])\n    h23 = rd(lam[1], lam[2])\n    h31 = rd(lam[2], lam[0])\n    h = np.array([[h_diag[0], h12, h31],\n                  [h12, h_diag[1], h23],\n                  [h31, h23, h_diag[2]]])\n    W = V.T@sym(Cdot)@V\n',
     '\n    h = _divided_difference_matrix(func, relative_difference, lam)\n    W = V.T@sym(Cdot)@V\n'),
    ('    h *= W\n\n    t00 = V[0].T@h@V[0]\n    t11 = V[1].T@h@V[1]\n    t22 = V[2].T@h@V[2]\n    t01 = 0.5*(V[0].T@h@V[1] + V[1].T@h@V[0])\n    t12 = 0.5*(V[1].T@h@V[2] + V[2].T@h@V[1])\n    t20 = 0.5*(V[2].T@h@V[0] + V[0].T@h@V[2])\n\n    sol = np.array([ [t00, t01, t20],\n                     [t01, t11, t12],\n                     [t20, t12, t22] ])\n\n    return sol\n\n@jax.custom_jvp\n',
     '    h *= W\n\n    return _rotate_from_eigenbasis_symmetrized(V, h)\n\n@jax.custom_jvp\n'),
]

R2_2_LA = [
    ('import jax\n',
     'from functools import partial\n\nimport jax\n'),
    ('\ndef sqrtm_dbp(A):\n',
     '\ndef _dbp_scaling(M, dim):\n    """Determinantal scaling factor for the Denman-Beavers iteration."""\n    d  = np.abs(np.linalg.det(M))**(1.0/(2.0*dim))\n    g = 1.0 / d\n    return g\n\n\ndef _dbp_not_converged(loopData, maxIters, tol):\n    _,_,error,k,_ = loopData\n    p = np.array([k < maxIters, error > tol], dtype=bool)\n    return np.all(p)\n\n\ndef _dbp_iteration(loopData, dim, scaleTol):\n    """One step of the product form Denman-Beavers iteration, with scaling\n    as long as the iterates still change by more than scaleTol."""\n    X, M, error, k, diff = loopData\n    g = np.where(diff >= scaleTol,\n                 _dbp_scaling(M, dim),\n                 1.0)\n    \n    X *= g\n    M *= g * g\n    \n    Y = X\n    N = np.linalg.inv(M)\n    I = np.identity(dim)\n    X = 0.5 * X @ (I + N)\n    M = 0.5 * (I + 0.5 * (M + N))\n    error = np.linalg.norm(M - I, \'fro\')\n    diff  = np.linalg.norm(X - Y, \'fro\') / np.linalg.norm(X, \'fro\')\n    k += 1\n    return (X, M, error, k, diff)\n\n\ndef sqrtm_dbp(A):\n'),
    ("\n    def scaling(M):\n        d  = np.abs(np.linalg.det(M))**(1.0/(2.0*dim))\n        g = 1.0 / d\n        return g\n    \n    def cond_f(loopData):\n        _,_,error,k,_ = loopData\n        p = np.array([k < maxIters, error > tol], dtype=bool)\n        return np.all(p)\n    \n    def body_f(loopData):\n        X, M, error, k, diff = loopData\n        g = np.where(diff >= scaleTol,\n                     scaling(M),\n                     1.0)\n        \n        X *= g\n        M *= g * g\n        \n        Y = X\n        N = np.linalg.inv(M)\n        I = np.identity(dim)\n        X = 0.5 * X @ (I + N)\n        M = 0.5 * (I + 0.5 * (M + N))\n        error = np.linalg.norm(M - I, 'fro')\n        diff  = np.linalg.norm(X - Y, 'fro') / np.linalg.norm(X, 'fro')\n        k += 1\n        return (X, M, error, k, diff)\n\n    X0        = A\n",
     '\n    X0        = A\n'),
    ('    \n    X,_,_,k,_ = jax.lax.while_loop(cond_f, body_f, loopData0)\n\n',
     '    \n    X,_,_,k,_ = jax.lax.while_loop(partial(_dbp_not_converged, maxIters=maxIters, tol=tol),\n                                   partial(_dbp_iteration, dim=dim, scaleTol=scaleTol),\n                                   loopData0)\n\n'),
    ('\ndef _logm_iss(A):\n',
     '\ndef _compute_pade_degree(diff, j, itk):\n    """Choose the degree of the Pade approximant of the logarithm from the distance to the identity."""\n    j += 1\n    # Manually force the return type of searchsorted to be 64-bit int, because it\n    # returns 32-bit ints, ignoring the global `jax_enable_x64` flag. This looks\n    # like a bug. I filed an issue (#11375) with Jax to correct this.\n    # If they fix it, the conversions on p and q can be removed.\n    p = np.searchsorted(log_pade_coefficients[2:16], diff, side=\'right\').astype(np.int64)\n    p += 2\n    q = np.searchsorted(log_pade_coefficients[2:16], diff/2.0, side=\'right\').astype(np.int64)\n    q += 2\n    m,j,converged = if_then_else((2 * (p - q) // 3 < itk) | (j == 2),\n                                 (p+1,j,True), (0,j,False))\n    return m,j,converged\n\n\ndef _logm_iss(A):\n'),
    ("\n    def compute_pade_degree(diff, j, itk):\n        j += 1\n        # Manually force the return type of searchsorted to be 64-bit int, because it\n        # returns 32-bit ints, ignoring the global `jax_enable_x64` flag. This looks\n        # like a bug. I filed an issue (#11375) with Jax to correct this.\n        # If they fix it, the conversions on p and q can be removed.\n        p = np.searchsorted(log_pade_coefficients[2:16], diff, side='right').astype(np.int64)\n        p += 2\n        q = np.searchsorted(log_pade_coefficients[2:16], diff/2.0, side='right').astype(np.int64)\n        q += 2\n        m,j,converged = if_then_else((2 * (p - q) // 3 < itk) | (j == 2),\n                                     (p+1,j,True), (0,j,False))\n        return m,j,converged\n\n    def body_f(loopData):\n",
     '\n    def body_f(loopData):\n'),
    ('        m,j,converged = if_then_else(diff < c15,\n                                     compute_pade_degree(diff, j, itk),\n                                     (m, j, converged))\n',
     '        m,j,converged = if_then_else(diff < c15,\n                                     _compute_pade_degree(diff, j, itk),\n                                     (m, j, converged))\n'),
    ('\ndef log_pade_pf(A, n):\n',
     '\ndef _log_pade_increment_transposed(A, x, w):\n    """Transpose of the term of the partial fraction expansion that belongs to the quadrature point x, weight w."""\n    I = np.identity(A.shape[0])\n    B = I + x*A\n    dXT = w*np.linalg.solve(B.T, A.T)\n    return dXT\n\n\ndef log_pade_pf(A, n):\n'),
    ('    """\n    I = np.identity(A.shape[0])\n    X = np.zeros_like(A)\n',
     '    """\n    X = np.zeros_like(A)\n'),
    ('\n    def get_log_inc(A, x, w):\n        B = I + x*A\n        dXT = w*np.linalg.solve(B.T, A.T)\n        return dXT\n\n    dXsTransposed = jax.vmap(get_log_inc, (None, 0, 0))(A, xs, ws)\n    X = np.sum(dXsTransposed, axis=0).T\n',
     '\n    dXsTransposed = jax.vmap(_log_pade_increment_transposed, (None, 0, 0))(A, xs, ws)\n    X = np.sum(dXsTransposed, axis=0).T\n'),
]

R2_3_TM = [
    ('\n    k_row1_0 = if_then_else(k0_largest, crow0[0], 0.0)   \\\n        +         if_then_else(k1_largest, crow1[0], 0.0) \\\n        +         if_then_else(k2_largest, crow2[0], 0.0)\n\n    k_row1_1 = if_then_else(k0_largest, crow0[1], 0.0)   \\\n        +         if_then_else(k1_largest, crow1[1], 0.0) \\\n        +         if_then_else(k2_largest, crow2[1], 0.0)\n\n    k_row1_2 = if_then_else(k0_largest, crow0[2], 0.0)   \\\n        +         if_then_else(k1_largest, crow1[2], 0.0) \\\n        +         if_then_else(k2_largest, crow2[2], 0.0)\n\n    k_row1 = np.array([k_row1_0, k_row1_1, k_row1_2])\n    \n    row2_0 = if_then_else(k0_largest, crow1[0], crow0[0])\n    row2_1 = if_then_else(k0_largest, crow1[1], crow0[1])\n    row2_2 = if_then_else(k0_largest, crow1[2], crow0[2])\n    row2 = np.array([row2_0, row2_1, row2_2])\n\n    row3_0 = if_then_else(k2_largest, crow1[0], crow2[0])\n    row3_1 = if_then_else(k2_largest, crow1[1], crow2[1])\n    row3_2 = if_then_else(k2_largest, crow1[2], crow2[2])\n    row3 = np.array([row3_0, row3_1, row3_2])\n\n',
     '\n    # pivot row: the row of largest norm\n    k_row1 = np.array([if_then_else(k0_largest, crow0[c], 0.0)\n                       + if_then_else(k1_largest, crow1[c], 0.0)\n                       + if_then_else(k2_largest, crow2[c], 0.0) for c in range(3)])\n    \n    # the two remaining rows\n    row2 = np.array([if_then_else(k0_largest, crow1[c], crow0[c]) for c in range(3)])\n    row3 = np.array([if_then_else(k2_largest, crow1[c], crow2[c]) for c in range(3)])\n\n'),
    ('\n    k_atr11 = cxx*k_row1[0] + cxy*k_row1[1] + czx*k_row1[2]\n    k_atr21 = cxy*k_row1[0] + cyy*k_row1[1] + cyz*k_row1[2]\n    k_atr31 = czx*k_row1[0] + cyz*k_row1[1] + czz*k_row1[2]\n\n    a_atr12 = cxx*a_row2[0] + cxy*a_row2[1] + czx*a_row2[2]\n    a_atr22 = cxy*a_row2[0] + cyy*a_row2[1] + cyz*a_row2[2]\n    a_atr32 = czx*a_row2[0] + cyz*a_row2[1] + czz*a_row2[2]\n\n',
     '\n    # products of the deviator with the two basis vectors of the deflated plane\n    dev_rows = ((cxx, cxy, czx),\n                (cxy, cyy, cyz),\n                (czx, cyz, czz))\n    k_atr11, k_atr21, k_atr31 = [r[0]*k_row1[0] + r[1]*k_row1[1] + r[2]*k_row1[2] for r in dev_rows]\n    a_atr12, a_atr22, a_atr32 = [r[0]*a_row2[0] + r[1]*a_row2[1] + r[2]*a_row2[2] for r in dev_rows]\n\n'),
    ('\n    eval0 = eval0 + c1\n    eval1 = eval1 + c1\n    eval2 = eval2 + c1\n    \n',
     '\n    shifted_evals = [ev + c1 for ev in (eval0, eval1, eval2)]\n    \n'),
    ('    \n    eval0 = if_then_else(c2lsmall_neg, eval0, c1)\n    eval1 = if_then_else(c2lsmall_neg, eval1, c1)\n    eval2 = if_then_else(c2lsmall_neg, eval2, c1)\n\n    evec0 = if_then_else(c2lsmall_neg, evec0, np.array([1.0, 0.0, 0.0]))\n    evec1 = if_then_else(c2lsmall_neg, evec1, np.array([0.0, 1.0, 0.0]))\n    evec2 = if_then_else(c2lsmall_neg, evec2, np.array([0.0, 0.0, 1.0]))\n    \n    evals = np.array([eval0, eval1, eval2])\n    evecs = np.column_stack((evec0,evec1,evec2))\n\n',
     '    \n    # a (numerically) spherical tensor gets the triple eigenvalue c1 and the\n    # cartesian basis\n    cartesian_basis = (np.array([1.0, 0.0, 0.0]), np.array([0.0, 1.0, 0.0]), np.array([0.0, 0.0, 1.0]))\n    selected_evals = [if_then_else(c2lsmall_neg, ev, c1) for ev in shifted_evals]\n    selected_evecs = [if_then_else(c2lsmall_neg, evec, e)\n                      for evec, e in zip((evec0, evec1, evec2), cartesian_basis)]\n    \n    evals = np.array(selected_evals)\n    evecs = np.column_stack(selected_evecs)\n\n'),
    ('    \n    evec0 = evecs[:,0]/np.linalg.norm(evecs[:,0])\n    evec1 = evecs[:,1]/np.linalg.norm(evecs[:,1])\n    evec2 = evecs[:,2]/np.linalg.norm(evecs[:,2])\n    \n    evecs = np.column_stack((evec0,evec1,evec2))\n    evals = cmax*evals\n',
     '    \n    evecs = np.column_stack([evecs[:,i]/np.linalg.norm(evecs[:,i]) for i in range(3)])\n    evals = cmax*evals\n'),
    ('        return np.where(x2 == x1, df(x1), relative_difference(x1, x2_safe))\n    h12 = rd(lam[0], lam[1])\n    h23 = rd(lam[1], lam[2])\n    h31 = rd(lam[2], lam[0])\n    h = np.array([[h_diag[0], h12, h31],\n',
     '        return np.where(x2 == x1, df(x1), relative_difference(x1, x2_safe))\n    cyclic_pairs = ((0, 1), (1, 2), (2, 0))\n    h12, h23, h31 = [rd(lam[i], lam[j]) for i, j in cyclic_pairs]\n    h = np.array([[h_diag[0], h12, h31],\n'),
    ('\n    t00 = V[0].T@h@V[0]\n    t11 = V[1].T@h@V[1]\n    t22 = V[2].T@h@V[2]\n    t01 = 0.5*(V[0].T@h@V[1] + V[1].T@h@V[0])\n    t12 = 0.5*(V[1].T@h@V[2] + V[2].T@h@V[1])\n    t20 = 0.5*(V[2].T@h@V[0] + V[0].T@h@V[2])\n\n',
     '\n    t00, t11, t22 = [V[i].T@h@V[i] for i in range(3)]\n    t01, t12, t20 = [0.5*(V[i].T@h@V[j] + V[j].T@h@V[i]) for i, j in cyclic_pairs]\n\n'),
]

R2_3_LA = [
    ('    scaleTol   = 0.01\n\n',
     '    scaleTol   = 0.01\n    I          = np.identity(dim)\n\n'),
    ('        N = np.linalg.inv(M)\n        I = np.identity(dim)\n        X = 0.5 * X @ (I + N)\n',
     '        N = np.linalg.inv(M)\n        X = 0.5 * X @ (I + N)\n'),
    ('    """\n    dim = A.shape[0]\n    c15 = log_pade_coefficients[15]\n',
     '    """\n    I = np.identity(A.shape[0])\n    c15 = log_pade_coefficients[15]\n'),
    ("        # If they fix it, the conversions on p and q can be removed.\n        p = np.searchsorted(log_pade_coefficients[2:16], diff, side='right').astype(np.int64)\n        p += 2\n        q = np.searchsorted(log_pade_coefficients[2:16], diff/2.0, side='right').astype(np.int64)\n        q += 2\n        m,j,converged = if_then_else((2 * (p - q) // 3 < itk) | (j == 2),\n",
     "        # If they fix it, the conversions on p and q can be removed.\n        p, q = [np.searchsorted(log_pade_coefficients[2:16], d, side='right').astype(np.int64) + 2\n                for d in (diff, diff/2.0)]\n        m,j,converged = if_then_else((2 * (p - q) // 3 < itk) | (j == 2),\n"),
    ('        X,j,k,m,itk,converged = loopData\n        diff = np.linalg.norm(X - np.identity(dim), ord=1)\n        m,j,converged = if_then_else(diff < c15,\n',
     '        X,j,k,m,itk,converged = loopData\n        diff = np.linalg.norm(X - I, ord=1)\n        m,j,converged = if_then_else(diff < c15,\n'),
]

#  K  the rules take the eigen decomposition themselves and hand (lam, V) to the tangent helper
#  L  dict dispatch: a table kind -> {scalar function, relative difference} looked up by the primal and by the rule
#  M  rule object: a plain class with __init__ and methods (derivative, divided difference with the fallback)
REF_K_TM = [
    ('# error as lam1 -> lam2.\ndef _symmetric_matrix_function_jvp_helper(func, relative_difference, primals, tangents):\n    C, = primals\n    Cdot, = tangents\n\n    # it is tempting to compute the primal output here as \n    # V@np.diag(func(lam))@V.T\n    # and avoid the cost of doing the eigendecomp twice.\n    # Hoever, this will not attach the custom jvp to the primal output\n    # computation, making higher order derivatives wrong!\n    lam, V = eigen_sym33_unit(C)\n\n',
     '# error as lam1 -> lam2.\ndef _symmetric_matrix_function_jvp_helper(func, relative_difference, spectrum, Cdot):\n    lam, V = spectrum\n\n'),
    ('    primal_out = sqrt_symm(*primals)\n    return primal_out, _symmetric_matrix_function_jvp_helper(Math.safe_sqrt, _sqrt_relative_difference, primals, tangents)\n\n',
     '    primal_out = sqrt_symm(*primals)\n    return primal_out, _symmetric_matrix_function_jvp_helper(Math.safe_sqrt, _sqrt_relative_difference, eigen_sym33_unit(primals[0]), tangents[0])\n\n'),
    ('    primal_out = exp_symm(*primals)\n    return primal_out, _symmetric_matrix_function_jvp_helper(np.exp, _exp_relative_difference, primals, tangents)\n\n',
     '    primal_out = exp_symm(*primals)\n    return primal_out, _symmetric_matrix_function_jvp_helper(np.exp, _exp_relative_difference, eigen_sym33_unit(primals[0]), tangents[0])\n\n'),
    ('    primal_out = log_symm(*primals)\n    return primal_out, _symmetric_matrix_function_jvp_helper(np.log, _log_relative_difference, primals, tangents)\n\n',
     '    primal_out = log_symm(*primals)\n    return primal_out, _symmetric_matrix_function_jvp_helper(np.log, _log_relative_difference, eigen_sym33_unit(primals[0]), tangents[0])\n\n'),
    ('    dA, dm = tangents\n    return pow_symm(A, m), _symmetric_matrix_function_jvp_helper(lambda x: np.power(x, m), lambda l1, l2: _pow_relative_difference(l1, l2, m), (A,), (dA,))\n',
     '    dA, dm = tangents\n    return pow_symm(A, m), _symmetric_matrix_function_jvp_helper(lambda x: np.power(x, m), lambda l1, l2: _pow_relative_difference(l1, l2, m), eigen_sym33_unit(A), dA)\n'),
]

REF_L_TM = [
    ('\n@jax.custom_jvp\ndef sqrt_symm(A):\n    """Square root of a symmetric positive semi-definite tensor."""\n    return symmetric_matrix_function(A, Math.safe_sqrt)\n\ndef _sqrt_relative_difference(lam1, lam2):\n    return 1/(np.sqrt(lam1) + np.sqrt(lam2))\n\n@sqrt_symm.defjvp\ndef _sqrt_symm_jvp(primals, tangents):\n    primal_out = sqrt_symm(*primals)\n    return primal_out, _symmetric_matrix_function_jvp_helper(Math.safe_sqrt, _sqrt_relative_difference, primals, tangents)\n\n\n@jax.custom_jvp\ndef exp_symm(A):\n    """Compute the matrix exponential of a symmetric matrix."""\n    return symmetric_matrix_function(A, np.exp)\n\n',
     '\ndef _sqrt_relative_difference(lam1, lam2):\n    return 1/(np.sqrt(lam1) + np.sqrt(lam2))\n\n'),
    ('    return np.exp(lam2)*np.expm1(arg)/arg\n\n@exp_symm.defjvp\ndef _exp_symm_jvp(primals, tangents):\n    primal_out = exp_symm(*primals)\n    return primal_out, _symmetric_matrix_function_jvp_helper(np.exp, _exp_relative_difference, primals, tangents)\n\n\n@jax.custom_jvp\ndef log_symm(A):\n    """Compute the matrix logarithm of a symmetric positive definite matrix."""\n    return symmetric_matrix_function(A, np.log)\n\n',
     '    return np.exp(lam2)*np.expm1(arg)/arg\n\n'),
    ('\n@log_symm.defjvp\n',
     '\n_SPECTRAL = {\n    "sqrt": {"f": Math.safe_sqrt, "quotient": _sqrt_relative_difference},\n    "exp": {"f": np.exp, "quotient": _exp_relative_difference},\n    "log": {"f": np.log, "quotient": _log_relative_difference},\n}\n\ndef _spectral_value(kind, A):\n    return symmetric_matrix_function(A, _SPECTRAL[kind]["f"])\n\ndef _spectral_tangent(kind, primals, tangents):\n    entry = _SPECTRAL.get(kind)\n    return _symmetric_matrix_function_jvp_helper(entry["f"], entry["quotient"], primals, tangents)\n\n@jax.custom_jvp\ndef sqrt_symm(A):\n    """Square root of a symmetric positive semi-definite tensor."""\n    return _spectral_value("sqrt", A)\n\n@sqrt_symm.defjvp\ndef _sqrt_symm_jvp(primals, tangents):\n    primal_out = sqrt_symm(*primals)\n    return primal_out, _spectral_tangent("sqrt", primals, tangents)\n\n\n@jax.custom_jvp\ndef exp_symm(A):\n    """Compute the matrix exponential of a symmetric matrix."""\n    return _spectral_value("exp", A)\n\n@exp_symm.defjvp\ndef _exp_symm_jvp(primals, tangents):\n    primal_out = exp_symm(*primals)\n    return primal_out, _spectral_tangent("exp", primals, tangents)\n\n\n@jax.custom_jvp\ndef log_symm(A):\n    """Compute the matrix logarithm of a symmetric positive definite matrix."""\n    return _spectral_value("log", A)\n\n@log_symm.defjvp\n'),
    ('    primal_out = log_symm(*primals)\n    return primal_out, _symmetric_matrix_function_jvp_helper(np.log, _log_relative_difference, primals, tangents)\n\n',
     '    primal_out = log_symm(*primals)\n    return primal_out, _spectral_tangent("log", primals, tangents)\n\n'),
]

REF_M_TM = [
    ('# error as lam1 -> lam2.\ndef _symmetric_matrix_function_jvp_helper(func, relative_difference, primals, tangents):\n    C, = primals\n',
     '# error as lam1 -> lam2.\nclass _SpectralRule:\n    """A scalar function and the quotient needed to differentiate the matrix function made from it."""\n    def __init__(self, func, relative_difference):\n        self.func = func\n        self.relative_difference = relative_difference\n\n    def derivative(self):\n        return jax.jacfwd(self.func)\n\n    def divided_difference(self, x1, x2):\n        x2_safe = np.where(x2 == x1, x2 + 1.0, x2)\n        return np.where(x2 == x1, self.derivative()(x1), self.relative_difference(x1, x2_safe))\n\n\ndef _symmetric_matrix_function_jvp_helper(rule, primals, tangents):\n    C, = primals\n'),
    ('\n    df = jax.jacfwd(func)\n    h_diag = jax.vmap(df)(lam)\n    def rd(x1, x2):\n        x2_safe = np.where(x2 == x1, x2 + 1.0, x2)\n        return np.where(x2 == x1, df(x1), relative_difference(x1, x2_safe))\n    h12 = rd(lam[0], lam[1])\n    h23 = rd(lam[1], lam[2])\n    h31 = rd(lam[2], lam[0])\n    h = np.array([[h_diag[0], h12, h31],\n',
     '\n    h_diag = jax.vmap(rule.derivative())(lam)\n    h12 = rule.divided_difference(lam[0], lam[1])\n    h23 = rule.divided_difference(lam[1], lam[2])\n    h31 = rule.divided_difference(lam[2], lam[0])\n    h = np.array([[h_diag[0], h12, h31],\n'),
    ('    return sol\n\n@jax.custom_jvp\ndef sqrt_symm(A):\n',
     '    return sol\n\ndef _sqrt_relative_difference(lam1, lam2):\n    return 1/(np.sqrt(lam1) + np.sqrt(lam2))\n\n_SQRT = _SpectralRule(Math.safe_sqrt, _sqrt_relative_difference)\n\n@jax.custom_jvp\ndef sqrt_symm(A):\n'),
    ('    """Square root of a symmetric positive semi-definite tensor."""\n    return symmetric_matrix_function(A, Math.safe_sqrt)\n\ndef _sqrt_relative_difference(lam1, lam2):\n    return 1/(np.sqrt(lam1) + np.sqrt(lam2))\n\n',
     '    """Square root of a symmetric positive semi-definite tensor."""\n    return symmetric_matrix_function(A, _SQRT.func)\n\n'),
    ('    primal_out = sqrt_symm(*primals)\n    return primal_out, _symmetric_matrix_function_jvp_helper(Math.safe_sqrt, _sqrt_relative_difference, primals, tangents)\n\n',
     '    primal_out = sqrt_symm(*primals)\n    return primal_out, _symmetric_matrix_function_jvp_helper(_SQRT, primals, tangents)\n\n'),
    ('    primal_out = exp_symm(*primals)\n    return primal_out, _symmetric_matrix_function_jvp_helper(np.exp, _exp_relative_difference, primals, tangents)\n\n',
     '    primal_out = exp_symm(*primals)\n    return primal_out, _symmetric_matrix_function_jvp_helper(_SpectralRule(np.exp, _exp_relative_difference), primals, tangents)\n\n'),
    ('    primal_out = log_symm(*primals)\n    return primal_out, _symmetric_matrix_function_jvp_helper(np.log, _log_relative_difference, primals, tangents)\n\n',
     '    primal_out = log_symm(*primals)\n    return primal_out, _symmetric_matrix_function_jvp_helper(_SpectralRule(relative_difference=_log_relative_difference, func=np.log), primals, tangents)\n\n'),
    ('    dA, dm = tangents\n    return pow_symm(A, m), _symmetric_matrix_function_jvp_helper(lambda x: np.power(x, m), lambda l1, l2: _pow_relative_difference(l1, l2, m), (A,), (dA,))\n',
     '    dA, dm = tangents\n    return pow_symm(A, m), _symmetric_matrix_function_jvp_helper(_SpectralRule(lambda x: np.power(x, m), lambda l1, l2: _pow_relative_difference(l1, l2, m)), (A,), (dA,))\n'),
]

# ---- /verif/preserving/C08-r6 (helper signature (func, rd, C, Cdot), body split in three, rd closure at module level, partial in pow_symm,
#      final stage of the solver moved to a private function)
R2_C08R6_TM = [
    ('"""Provide differentiable operations on 3x3 tensors."""\n\n',
     '"""Provide differentiable operations on 3x3 tensors."""\n\nfrom functools import partial\n\n'),
    ('\n    eval0 = eval0 + c1\n',
     '\n    return _shift_and_sort_eigenpairs(c1, c2, eval0, eval1, eval2, evec0, evec1, evec2)\n\n\ndef _shift_and_sort_eigenpairs(c1, c2, eval0, eval1, eval2, evec0, evec1, evec2):\n    """Final stage of eigen_sym33_non_unit.\n\n    Takes the eigenpairs of the deviatoric part of the tensor, adds the\n    spherical part c1 back to the eigenvalues, falls back on a triple\n    eigenvalue c1 with the coordinate axes as eigenvectors when the second\n    invariant c2 of the deviator (which is non-positive) vanishes,\n    and sorts the pairs by ascending eigenvalue.\n    """\n    eval0 = eval0 + c1\n'),
    ('\n# Helper function to define the JVP for any matrix function created from a\n# scalar function func.\n',
     '\n# Helper functions to define the JVP for any matrix function created from a\n# scalar function func.\n'),
    ('# error as lam1 -> lam2.\ndef _symmetric_matrix_function_jvp_helper(func, relative_difference, primals, tangents):\n    C, = primals\n    Cdot, = tangents\n\n    # it is tempting to compute the primal output here as \n',
     '# error as lam1 -> lam2.\ndef _symmetric_matrix_function_jvp_helper(func, relative_difference, C, Cdot):\n    # it is tempting to compute the primal output here as \n'),
    ('\n    df = jax.jacfwd(func)\n    h_diag = jax.vmap(df)(lam)\n    def rd(x1, x2):\n        x2_safe = np.where(x2 == x1, x2 + 1.0, x2)\n        return np.where(x2 == x1, df(x1), relative_difference(x1, x2_safe))\n    h12 = rd(lam[0], lam[1])\n',
     "\n    h = _spectral_difference_quotients(func, relative_difference, lam)\n    W = V.T@sym(Cdot)@V\n    h *= W\n\n    return _rotate_to_global_frame(V, h)\n\n\ndef _safe_relative_difference(df, relative_difference, x1, x2):\n    # (func(x1) - func(x2))/(x1 - x2), falling back on the derivative df of func\n    # when the arguments coincide\n    x2_safe = np.where(x2 == x1, x2 + 1.0, x2)\n    return np.where(x2 == x1, df(x1), relative_difference(x1, x2_safe))\n\n\ndef _spectral_difference_quotients(func, relative_difference, lam):\n    # Symmetric matrix of the derivative of the matrix function in the principal\n    # frame: func'(lam_i) on the diagonal, difference quotients of func between\n    # the eigenvalues lam_i, lam_j off the diagonal.\n    df = jax.jacfwd(func)\n    h_diag = jax.vmap(df)(lam)\n    rd = partial(_safe_relative_difference, df, relative_difference)\n    h12 = rd(lam[0], lam[1])\n"),
    ('    h31 = rd(lam[2], lam[0])\n    h = np.array([[h_diag[0], h12, h31],\n                  [h12, h_diag[1], h23],\n                  [h31, h23, h_diag[2]]])\n    W = V.T@sym(Cdot)@V\n    h *= W\n\n    t00 = V[0].T@h@V[0]\n',
     '    h31 = rd(lam[2], lam[0])\n    return np.array([[h_diag[0], h12, h31],\n                     [h12, h_diag[1], h23],\n                     [h31, h23, h_diag[2]]])\n\n\ndef _rotate_to_global_frame(V, h):\n    # Symmetrized components of h, given in the principal frame V, in the global frame\n    t00 = V[0].T@h@V[0]\n'),
    ('def _sqrt_symm_jvp(primals, tangents):\n    primal_out = sqrt_symm(*primals)\n    return primal_out, _symmetric_matrix_function_jvp_helper(Math.safe_sqrt, _sqrt_relative_difference, primals, tangents)\n\n',
     'def _sqrt_symm_jvp(primals, tangents):\n    A, = primals\n    dA, = tangents\n    return sqrt_symm(A), _symmetric_matrix_function_jvp_helper(Math.safe_sqrt, _sqrt_relative_difference, A, dA)\n\n'),
    ('def _exp_symm_jvp(primals, tangents):\n    primal_out = exp_symm(*primals)\n    return primal_out, _symmetric_matrix_function_jvp_helper(np.exp, _exp_relative_difference, primals, tangents)\n\n',
     'def _exp_symm_jvp(primals, tangents):\n    A, = primals\n    dA, = tangents\n    return exp_symm(A), _symmetric_matrix_function_jvp_helper(np.exp, _exp_relative_difference, A, dA)\n\n'),
    ('def _log_symm_jvp(primals, tangents):\n    primal_out = log_symm(*primals)\n    return primal_out, _symmetric_matrix_function_jvp_helper(np.log, _log_relative_difference, primals, tangents)\n\n',
     'def _log_symm_jvp(primals, tangents):\n    A, = primals\n    dA, = tangents\n    return log_symm(A), _symmetric_matrix_function_jvp_helper(np.log, _log_relative_difference, A, dA)\n\n'),
    ('    """\n    return symmetric_matrix_function(A, lambda x: np.power(x, m))\n\n',
     '    """\n    return symmetric_matrix_function(A, partial(_scalar_power, m=m))\n\ndef _scalar_power(x, m):\n    return np.power(x, m)\n\n'),
    ('    dA, dm = tangents\n    return pow_symm(A, m), _symmetric_matrix_function_jvp_helper(lambda x: np.power(x, m), lambda l1, l2: _pow_relative_difference(l1, l2, m), (A,), (dA,))\n',
     '    dA, dm = tangents\n    return pow_symm(A, m), _symmetric_matrix_function_jvp_helper(partial(_scalar_power, m=m), partial(_pow_relative_difference, m=m), A, dA)\n'),
]

#  N  the eigen solvers return a NamedTuple (values, vectors); callers read the fields by name
REF_N_TM = [
    ('"""Provide differentiable operations on 3x3 tensors."""\n\n',
     '"""Provide differentiable operations on 3x3 tensors."""\n\nfrom typing import Any, NamedTuple\n\n'),
    ('    return dudX\n\n',
     '    return dudX\n\nclass EigenPairs(NamedTuple):\n    """Eigenvalues in ascending order and the matrix whose columns are the eigenvectors."""\n    values: Any\n    vectors: Any\n\n\n'),
    ('    \n    return evals[idx],evecs[:,idx]\n\n',
     '    \n    return EigenPairs(values=evals[idx], vectors=evecs[:,idx])\n\n'),
    ('   \n    evals, evecs = eigen_sym33_non_unit(scaledTensor)\n    \n',
     '   \n    scaled = eigen_sym33_non_unit(scaledTensor)\n    evals = scaled.values\n    evecs = scaled.vectors\n    \n'),
    ('\n    return (evals,evecs)\n\n',
     '\n    return EigenPairs(evals, evecs)\n\n'),
    ('    """Create a function on symmetric matrices from a scalar function."""\n    lam, V = eigen_sym33_unit(A)\n    return V@np.diag(func(lam))@V.T\n\n',
     '    """Create a function on symmetric matrices from a scalar function."""\n    spectrum = eigen_sym33_unit(A)\n    return spectrum.vectors@np.diag(func(spectrum.values))@spectrum.vectors.T\n\n'),
]

