"""Edit lists of behaviour-preserving refactorings of TensorMath.py / LinAlg.py used as *preserving* self-test variants of C12
(rules/C12.py: variants).  Each list is a sequence of exact (old, new) replacements; a list applies only when every `old` occurs exactly once.

  A  helper extraction and vectorised idioms: invariants computed by a helper that returns tuples, np.dot / @ / np.sum / np.cross, np.stack(axis=1),
     method argsort + np.sort + np.take, norm along an axis with broadcasting, (V*f(lam))@V.T, sym(V@h@V.T), primals[0] instead of *primals
  B  negated tests with swapped branches (c2 >= 0, c2tol <= c2, b < 0, x1 != x2, cmax == 0, diff < scaleTol), where-based clamp,
     rows of the identity as spherical vectors
  C  temporaries, reordered independent statements, keyword arguments in another order, defjvp by call, Horner loops over coefficient tuples,
     the log series by a loop, jax.grad instead of jacfwd, lax.cond with function branches, linalg.solve instead of inv
  D  matrix form of the solver (2-D arrays, unpacking of rows, matrix-vector products, nested array selections instead of sums of masked
     terms, columns collected in a loop), closed-form helpers through einsum / cross products / np.transpose / np.eye
"""


def multi(pairs):
    def f(src):
        for old, new in pairs:
            if src.count(old) != 1:
                return None
            src = src.replace(old, new)
        return src
    return f


REF_A_TM = [
    ('    cxx = tensor[0,0]\n    cyy = tensor[1,1]\n    czz = tensor[2,2]\n    cxy = 0.5*(tensor[0,1]+tensor[1,0])\n    cyz = 0.5*(tensor[1,2]+tensor[2,1])\n    czx = 0.5*(tensor[2,0]+tensor[0,2])\n\n    c1 = (cxx + cyy + czz)/(3.0)\n\n    cxx -= c1\n    cyy -= c1\n    czz -= c1\n  \n    cxy_cxy = cxy*cxy\n    cyz_cyz = cyz*cyz\n    czx_czx = czx*czx\n    cxx_cyy = cxx*cyy\n    \n    c2 = cxx_cyy + cyy*czz + czz*cxx - cxy_cxy - cyz_cyz - czx_czx\n    \n',
     '    mean, dev6, squares, c2 = _mean_and_deviator(tensor)\n    c1 = mean\n    cxx, cyy, czz, cxy, cyz, czx = dev6\n    cxy_cxy, cyz_cyz, czx_czx, cxx_cyy = squares\n\n'),
    ('def eigen_sym33_non_unit(tensor):\n    """Compute eigen values',
     'def _mean_and_deviator(T):\n    """mean normal part, the six independent components of the symmetrised deviator, products used later, second invariant"""\n    sxy = 0.5*(T[0,1]+T[1,0])\n    syz = 0.5*(T[1,2]+T[2,1])\n    szx = 0.5*(T[2,0]+T[0,2])\n    mean = (T[0,0] + T[1,1] + T[2,2])/(3.0)\n    dxx = T[0,0] - mean\n    dyy = T[1,1] - mean\n    dzz = T[2,2] - mean\n    sq = (sxy*sxy, syz*syz, szx*szx, dxx*dyy)\n    second = sq[3] + dyy*dzz + dzz*dxx - sq[0] - sq[1] - sq[2]\n    return mean, (dxx, dyy, dzz, sxy, syz, szx), sq, second\n\n\ndef eigen_sym33_non_unit(tensor):\n    """Compute eigen values'),
    ('ki_dpr1 = ki_ki*(k_row1[0]*row2[0] + k_row1[1]*row2[1] + k_row1[2]*row2[2])',
     'ki_dpr1 = ki_ki*np.dot(k_row1, row2)'),
    ('ki_dpr2 = ki_ki*(k_row1[0]*row3[0] + k_row1[1]*row3[1] + k_row1[2]*row3[2])',
     'ki_dpr2 = ki_ki*(k_row1 @ row3)'),
    ('a0 = row2[0]*row2[0] + row2[1]*row2[1] + row2[2]*row2[2]',
     'a0 = np.sum(row2*row2)'),
    ('a1 = row3[0]*row3[0] + row3[1]*row3[1] + row3[2]*row3[2]',
     'a1 = row3 @ row3'),
    ('    evec2 = np.array([k_row1[1]*a_row2[2] - k_row1[2]*a_row2[1],\n                      k_row1[2]*a_row2[0] - k_row1[0]*a_row2[2],\n                      k_row1[0]*a_row2[1] - k_row1[1]*a_row2[0]])',
     '    evec2 = np.cross(k_row1, a_row2)'),
    ('    evec1 = np.array([evec2[1]*evec0[2] - evec2[2]*evec0[1],\n                      evec2[2]*evec0[0] - evec2[0]*evec0[2],\n                      evec2[0]*evec0[1] - evec2[1]*evec0[0]])',
     '    evec1 = np.cross(evec2, evec0)'),
    ('    evals = np.array([eval0, eval1, eval2])\n    evecs = np.column_stack((evec0,evec1,evec2))\n\n    #idx = np.arange(3)  # np.argsort(evals)\n    idx = np.argsort(evals)\n    \n    return evals[idx],evecs[:,idx]',
     '    unsorted = np.array([eval0, eval1, eval2])\n    basis = np.stack([evec0, evec1, evec2], axis=1)\n    ascending = unsorted.argsort()\n    return np.sort(unsorted), np.take(basis, ascending, axis=1)'),
    ('    cmax = np.linalg.norm(tensor, ord=np.inf)\n    cmaxInv = if_then_else(cmax > 0.0, 1.0/cmax, 1.0)\n    scaledTensor = cmaxInv * tensor\n   \n    evals, evecs = eigen_sym33_non_unit(scaledTensor)\n    \n    evec0 = evecs[:,0]/np.linalg.norm(evecs[:,0])\n    evec1 = evecs[:,1]/np.linalg.norm(evecs[:,1])\n    evec2 = evecs[:,2]/np.linalg.norm(evecs[:,2])\n    \n    evecs = np.column_stack((evec0,evec1,evec2))\n    evals = cmax*evals\n\n    return (evals,evecs)',
     '    size = np.linalg.norm(tensor, ord=np.inf)\n    safeSize = np.where(size > 0.0, size, 1.0)\n    lam, Q = eigen_sym33_non_unit(tensor/safeSize)\n    lengths = np.linalg.norm(Q, axis=0)\n    return lam*size, Q/lengths'),
    ('    return V@np.diag(func(lam))@V.T',
     '    return (V*func(lam))@V.T'),
    ('    t00 = V[0].T@h@V[0]\n    t11 = V[1].T@h@V[1]\n    t22 = V[2].T@h@V[2]\n    t01 = 0.5*(V[0].T@h@V[1] + V[1].T@h@V[0])\n    t12 = 0.5*(V[1].T@h@V[2] + V[2].T@h@V[1])\n    t20 = 0.5*(V[2].T@h@V[0] + V[0].T@h@V[2])\n\n    sol = np.array([ [t00, t01, t20],\n                     [t01, t11, t12],\n                     [t20, t12, t22] ])\n\n    return sol',
     '    return sym(V@h@V.T)'),
    ('    primal_out = sqrt_symm(*primals)',
     '    primal_out = sqrt_symm(primals[0])'),
]

REF_B_TM = [
    ('    c2Negative = c2 < 0\n    denom = np.where(c2Negative, c2, 1.0)\n    ThreeOverA = np.where(c2Negative, -3.0/denom, 1.0)\n    sqrtThreeOverA = np.where(c2Negative, np.sqrt(ThreeOverA), 1.0)',
     '    noDeviator = c2 >= 0\n    denom = np.where(noDeviator, 1.0, c2)\n    ThreeOverA = np.where(noDeviator, 1.0, -3.0/denom)\n    sqrtThreeOverA = np.where(noDeviator, 1.0, np.sqrt(ThreeOverA))'),
    ('    eval2 = np.where(c2Negative, two_cos_thd3/sqrtThreeOverA, 1.0)',
     '    eval2 = np.where(noDeviator, 1.0, two_cos_thd3/sqrtThreeOverA)'),
    ('    arg = np.minimum(abs(rr), 1.0) # Check in the case rr = -1-eps',
     '    absr = np.abs(rr)\n    arg = np.where(absr > 1.0, 1.0, absr)'),
    ('*np.where(b >= 0.0, 1.0, -1.0)',
     '*np.where(b < 0.0, -1.0, 1.0)'),
    ('    c2tol = (c1*c1)*(-1.0e-30)\n\n    c2lsmall_neg = c2 < c2tol\n    \n    eval0 = if_then_else(c2lsmall_neg, eval0, c1)\n    eval1 = if_then_else(c2lsmall_neg, eval1, c1)\n    eval2 = if_then_else(c2lsmall_neg, eval2, c1)\n\n    evec0 = if_then_else(c2lsmall_neg, evec0, np.array([1.0, 0.0, 0.0]))\n    evec1 = if_then_else(c2lsmall_neg, evec1, np.array([0.0, 1.0, 0.0]))\n    evec2 = if_then_else(c2lsmall_neg, evec2, np.array([0.0, 0.0, 1.0]))',
     '    c2tol = -1.0e-30*c1**2\n\n    spherical = c2tol <= c2\n\n    eval0 = if_then_else(spherical, c1, eval0)\n    eval1 = if_then_else(spherical, c1, eval1)\n    eval2 = if_then_else(spherical, c1, eval2)\n\n    e0, e1, e2 = np.identity(3)\n    evec0 = if_then_else(spherical, e0, evec0)\n    evec1 = if_then_else(spherical, e1, evec1)\n    evec2 = if_then_else(spherical, e2, evec2)'),
    ('    cmaxInv = if_then_else(cmax > 0.0, 1.0/cmax, 1.0)',
     '    cmaxInv = if_then_else(cmax == 0.0, 1.0, 1.0/cmax)'),
    ('        x2_safe = np.where(x2 == x1, x2 + 1.0, x2)\n        return np.where(x2 == x1, df(x1), relative_difference(x1, x2_safe))',
     '        distinct = x1 != x2\n        x2_safe = np.where(distinct, x2, x2 + 1.0)\n        return np.where(distinct, relative_difference(x1, x2_safe), df(x1))'),
]

REF_B_LA = [
    ('        g = np.where(diff >= scaleTol,\n                     scaling(M),\n                     1.0)',
     '        g = np.where(diff < scaleTol, 1.0, scaling(M))'),
]

REF_C_TM = [
    ('    x2 = x*x\n    x4 = x2*x2\n\n    numer = 0.866025403784438713 + 2.12714890259493060 * x + \\\n        ( ( 1.89202064815951569  + 0.739603278343401613 * x ) * x2 + \\\n          ( 0.121973926953064794 + x * (0.00655637626263929360 + 0.0000390884982780803443 * x) ) *x4 )\n\n    denom =     1.0 + 2.26376989330935617* x + \\\n        ( ( 1.80461009751278976 + 0.603976798217196003 * x ) * x2 + \\\n         ( 0.0783255761115461708 + 0.00268525944538021629 * x) * x4 )\n    \n    return numer/denom',
     '    p = (0.0000390884982780803443, 0.00655637626263929360, 0.121973926953064794, 0.739603278343401613,\n         1.89202064815951569, 2.12714890259493060, 0.866025403784438713)\n    q = (0.00268525944538021629, 0.0783255761115461708, 0.603976798217196003, 1.80461009751278976,\n         2.26376989330935617, 1.0)\n    numer = 0.0\n    for coefficient in p:\n        numer = numer*x + coefficient\n    denom = 0.0\n    for coefficient in q:\n        denom = denom*x + coefficient\n    return numer/denom'),
    ('    third2 = 2.0 / 3.0\n    fifth2 = 2.0 / 5.0\n    seventh2 = 2.0 / 7.0\n    ninth2 = 2.0 / 9.0\n    \n    frac = (lam1 - lam2) / (lam1 + lam2)\n    frac2 = frac*frac\n    frac4 = frac2*frac2\n    \n    # relative tolerance of 0.05 for this approx (with more terms its valid over larger range)\n    return (2.0 + third2 * frac2 + fifth2 * frac4 + seventh2 * frac4 * frac2 + ninth2 * frac4 * frac4) / (lam1 + lam2)',
     '    total = lam1 + lam2\n    ratioSquared = ((lam1 - lam2) / total)**2\n    series = 0.0\n    power = 1.0\n    for k in range(5):\n        series = series + 2.0/(2*k + 1)*power\n        power = power*ratioSquared\n    return series/total'),
    ('    return 1/(np.sqrt(lam1) + np.sqrt(lam2))',
     '    r1 = np.sqrt(lam1)\n    r2 = np.sqrt(lam2)\n    total = r2 + r1\n    return 1.0/total'),
    ('    arg = lam1 - lam2\n    return np.exp(lam2)*np.expm1(arg)/arg',
     '    e2 = np.exp(lam2)\n    gap = lam1 - lam2\n    return np.expm1(gap)/gap*e2'),
    ('@sqrt_symm.defjvp\ndef _sqrt_symm_jvp(primals, tangents):\n    primal_out = sqrt_symm(*primals)\n    return primal_out, _symmetric_matrix_function_jvp_helper(Math.safe_sqrt, _sqrt_relative_difference, primals, tangents)\n',
     'def _sqrt_symm_jvp(primals, tangents):\n    tangent_out = _symmetric_matrix_function_jvp_helper(tangents=tangents, primals=primals,\n                                                        relative_difference=_sqrt_relative_difference, func=Math.safe_sqrt)\n    A, = primals\n    return sqrt_symm(A), tangent_out\n\nsqrt_symm.defjvp(_sqrt_symm_jvp)\n'),
    ('    primal_out = log_symm(*primals)\n    return primal_out, _symmetric_matrix_function_jvp_helper(np.log, _log_relative_difference, primals, tangents)',
     '    logarithm = np.log\n    out = (log_symm(*primals), _symmetric_matrix_function_jvp_helper(logarithm, _log_relative_difference, primals, tangents))\n    return out'),
    ('    df = jax.jacfwd(func)\n    h_diag = jax.vmap(df)(lam)\n    def rd(x1, x2):',
     '    symCdot = sym(Cdot)\n    rotated = V.T@symCdot\n    W = rotated@V\n    df = jax.grad(func)\n    def rd(x1, x2):'),
    ('    h31 = rd(lam[2], lam[0])\n    h = np.array([[h_diag[0], h12, h31],\n                  [h12, h_diag[1], h23],\n                  [h31, h23, h_diag[2]]])\n    W = V.T@sym(Cdot)@V\n    h *= W\n',
     '    h31 = rd(lam[2], lam[0])\n    d0, d1, d2 = df(lam[0]), df(lam[1]), df(lam[2])\n    h = np.array([[d0, h12, h31],\n                  [h12, d1, h23],\n                  [h31, h23, d2]])*W\n'),
    ('    evecs = np.column_stack((evec0,evec1,evec2))\n    evals = cmax*evals\n\n    return (evals,evecs)',
     '    result = (evals*cmax, np.array([evec0, evec1, evec2]).T)\n    return result'),
]

REF_C_LA = [
    ('        g = np.where(diff >= scaleTol,\n                     scaling(M),\n                     1.0)\n        \n        X *= g\n        M *= g * g\n        \n        Y = X\n        N = np.linalg.inv(M)\n        I = np.identity(dim)\n        X = 0.5 * X @ (I + N)\n        M = 0.5 * (I + 0.5 * (M + N))',
     '        g = jax.lax.cond(diff >= scaleTol, scaling, lambda unused: 1.0, M)\n        I = np.identity(dim)\n        Y = X*g\n        Ms = M*(g*g)\n        N = np.linalg.solve(Ms, I)\n        X = 0.5 * Y @ (I + N)\n        M = 0.5 * (I + 0.5 * (Ms + N))'),
]

REF_D_TM = [
    ('def trace(A):\n    return A[0, 0] + A[1, 1] + A[2, 2]',
     "def trace(A):\n    return np.einsum('ii', A)"),
    ('    trA = np.trace(A)\n    return 0.5*(trA*trA - A.ravel()@A.T.ravel())',
     "    return 0.5*(np.trace(A)**2 - np.einsum('ij,ji', A, A))"),
    ('    return A[0, 0]*A[1, 1]*A[2, 2] + A[0, 1]*A[1, 2]*A[2, 0] + A[0, 2]*A[1, 0]*A[2, 1] \\\n        - A[0, 0]*A[1, 2]*A[2, 1] - A[0, 1]*A[1, 0]*A[2, 2] - A[0, 2]*A[1, 1]*A[2, 0]',
     '    return A[0] @ np.cross(A[1], A[2])'),
    ('    invA00 = A[1, 1]*A[2, 2] - A[1, 2]*A[2, 1]\n    invA01 = A[0, 2]*A[2, 1] - A[0, 1]*A[2, 2]\n    invA02 = A[0, 1]*A[1, 2] - A[0, 2]*A[1, 1]\n    invA10 = A[1, 2]*A[2, 0] - A[1, 0]*A[2, 2]\n    invA11 = A[0, 0]*A[2, 2] - A[0, 2]*A[2, 0]\n    invA12 = A[0, 2]*A[1, 0] - A[0, 0]*A[1, 2]\n    invA20 = A[1, 0]*A[2, 1] - A[1, 1]*A[2, 0]\n    invA21 = A[0, 1]*A[2, 0] - A[0, 0]*A[2, 1]\n    invA22 = A[0, 0]*A[1, 1] - A[0, 1]*A[1, 0]\n    invA = (1.0/det(A)) * np.array([[invA00, invA01, invA02],\n                                    [invA10, invA11, invA12],\n                                    [invA20, invA21, invA22]])\n    return invA',
     '    adjugate = np.stack([np.cross(A[1], A[2]), np.cross(A[2], A[0]), np.cross(A[0], A[1])], axis=1)\n    return adjugate/det(A)'),
    ('    dil = trace(A)\n    return A - (dil/3)*np.identity(3)',
     '    return A - np.trace(A)/3*np.eye(3)'),
    ('    return 0.5*(A + A.T)',
     '    return (A + np.transpose(A))/2'),
    ('    return 0.5*(A - A.T)',
     '    return A - sym(A)'),
    ('    dev = deviator(tensor)\n    return np.tensordot(dev,dev)',
     '    d = deviator(tensor)\n    return np.sum(d*d)'),
    ('    crow0 = np.array([cxx - eval2, cxy,         czx        ])\n    crow1 = np.array([cxy,         cyy - eval2, cyz        ])\n    crow2 = np.array([czx,         cyz,         czz - eval2])\n\n    #\n    # do QR decomposition with column pivoting\n    #\n    k0 = crow0[0]*crow0[0] + cxy_cxy           + czx_czx\n    k1 = cxy_cxy           + crow1[1]*crow1[1] + cyz_cyz\n    k2 = czx_czx           + cyz_cyz           + crow2[2]*crow2[2]\n',
     '    dev = np.array([[cxx, cxy, czx],\n                    [cxy, cyy, cyz],\n                    [czx, cyz, czz]])\n    shifted = dev - eval2*np.identity(3)\n    crow0, crow1, crow2 = shifted\n\n    # squared lengths of the rows (QR decomposition with column pivoting)\n    k0, k1, k2 = [row @ row for row in shifted]\n'),
    ('    k_row1_0 = if_then_else(k0_largest, crow0[0], 0.0)   \\\n        +         if_then_else(k1_largest, crow1[0], 0.0) \\\n        +         if_then_else(k2_largest, crow2[0], 0.0)\n\n    k_row1_1 = if_then_else(k0_largest, crow0[1], 0.0)   \\\n        +         if_then_else(k1_largest, crow1[1], 0.0) \\\n        +         if_then_else(k2_largest, crow2[1], 0.0)\n\n    k_row1_2 = if_then_else(k0_largest, crow0[2], 0.0)   \\\n        +         if_then_else(k1_largest, crow1[2], 0.0) \\\n        +         if_then_else(k2_largest, crow2[2], 0.0)\n\n    k_row1 = np.array([k_row1_0, k_row1_1, k_row1_2])\n    \n    row2_0 = if_then_else(k0_largest, crow1[0], crow0[0])\n    row2_1 = if_then_else(k0_largest, crow1[1], crow0[1])\n    row2_2 = if_then_else(k0_largest, crow1[2], crow0[2])\n    row2 = np.array([row2_0, row2_1, row2_2])\n\n    row3_0 = if_then_else(k2_largest, crow1[0], crow2[0])\n    row3_1 = if_then_else(k2_largest, crow1[1], crow2[1])\n    row3_2 = if_then_else(k2_largest, crow1[2], crow2[2])\n    row3 = np.array([row3_0, row3_1, row3_2])\n\n    ki_ki = 1.0 / ( if_then_else(k0_largest, k0, 0.0)   \\\n                    + if_then_else(k1_largest, k1, 0.0) \\\n                    + if_then_else(k2_largest, k2, 0.0) )\n',
     '    k_row1 = np.where(k0_largest, crow0, np.where(k1_largest, crow1, crow2))\n    row2 = np.where(k0_largest, crow1, crow0)\n    row3 = np.where(k2_largest, crow1, crow2)\n    ki_ki = 1.0 / np.where(k0_largest, k0, np.where(k1_largest, k1, k2))\n'),
    ('    k_atr11 = cxx*k_row1[0] + cxy*k_row1[1] + czx*k_row1[2]\n    k_atr21 = cxy*k_row1[0] + cyy*k_row1[1] + cyz*k_row1[2]\n    k_atr31 = czx*k_row1[0] + cyz*k_row1[1] + czz*k_row1[2]\n\n    a_atr12 = cxx*a_row2[0] + cxy*a_row2[1] + czx*a_row2[2]\n    a_atr22 = cxy*a_row2[0] + cyy*a_row2[1] + cyz*a_row2[2]\n    a_atr32 = czx*a_row2[0] + cyz*a_row2[1] + czz*a_row2[2]\n\n    rm2xx     = (k_row1[0]*k_atr11 + k_row1[1]*k_atr21 + k_row1[2]*k_atr31)*ki_ki\n    k_a_rm2xy = (k_row1[0]*a_atr12 + k_row1[1]*a_atr22 + k_row1[2]*a_atr32)\n    rm2yy     = (a_row2[0]*a_atr12 + a_row2[1]*a_atr22 + a_row2[2]*a_atr32)*ai_ai',
     '    dev_k = dev @ k_row1\n    dev_a = dev @ a_row2\n\n    rm2xx     = (k_row1 @ dev_k)*ki_ki\n    k_a_rm2xy = k_row1 @ dev_a\n    rm2yy     = (a_row2 @ dev_a)*ai_ai'),
    ('    evals = np.array([eval0, eval1, eval2])\n    evecs = np.column_stack((evec0,evec1,evec2))',
     '    columns = []\n    for vector in (evec0, evec1, evec2):\n        columns.append(vector)\n    evals = np.array([eval0, eval1, eval2])\n    evecs = np.array(columns).T'),
]
