"""Order elevation and edge extraction decided on their *results* (shared by C03 rule c/ and C13 rule D3/).

`Mesh.create_higher_order_mesh_from_simplex_mesh` is interpreted (rules/C03_interp.MeshInterp) on small simplex meshes whose
connectivity is concrete (shared edges traversed in every combination of local side numbers, cyclically rotated vertex orders,
boundary edges) and whose vertex coordinates are *symbols*.  The elevated mesh it returns is compared with the specification,
independent of how the code is organised (loops, helpers, closures, in-place buffers, `_replace`, ...):

  * connectivity has one row per element and one column per node of the target parent element, every entry is a node number
    0 <= n < nNodes, and every node number is used;
  * the vertex columns keep the simplex connectivity (vertex node numbers unchanged);
  * node k of element t sits at the affine image  x = xi0 X_v0 + xi1 X_v1 + (1 - xi0 - xi1) X_v2  of the reference node
    (xi0, xi1) = parentElement.coordinates[k]  (an exact identity in the symbolic vertex coordinates; for the nodes on a face this
    says that both neighbours of an edge see the shared nodes in matching -- i.e. mutually reversed -- order);
  * no two node numbers carry the same coordinates (no duplicate nodes);
  * the parent elements stored on the mesh are those of the requested order.

The same affine map is what FunctionSpace.map_element_shape_grads / compute_element_volumes are compared against in rules/C03.py,
so the "two conventions agree" obligation is a consequence of two comparisons with one specification.

REFUTED is issued only for a derived fact (a node number, a coordinate identity that fails); anything that cannot be interpreted
is UNDECIDED.
"""
from __future__ import annotations

from fractions import Fraction

from optilint.tensoreval import Dual, Arr, EvalError, Raised, Unknown, Record, _A
from .C03_interp import MeshInterp, fresh_interp, int_arr, ints_of, const_of, rows_of

ME = "optimism.Mesh"
IP = "optimism.Interpolants"

ERRS = (EvalError, Raised, KeyError, IndexError, TypeError, AttributeError, ValueError, RecursionError)

# name -> (number of vertices, triangles).  Orientation is irrelevant for polynomial identities in symbolic coordinates; what matters is
# which local sides are shared and in which rotation.
SAMPLE_MESHES = {
    "pair": (4, [(0, 1, 2), (1, 3, 2)]),                       # shared edge: side 1 of t0 / side 2 of t1
    "fan": (5, [(0, 1, 2), (2, 3, 0), (4, 0, 3)]),              # sides 2|1 and 2|1 ... rotated vertex orders
    "strip": (6, [(0, 1, 3), (3, 1, 4), (4, 1, 2), (5, 4, 2)]),  # sides 1|0, 1|0 reversed rotation, 2|1
    "wheel": (6, [(0, 1, 2), (1, 0, 3), (4, 2, 1), (0, 2, 5)]),  # every side of t0 shared: sides 0|0, 1|1, 2|0
}


def sym_coords(n, prefix="X"):
    return Arr([Dual(_A.atom(f"{prefix}{i}{c}")) for i in range(n) for c in "xy"], (n, 2))


def eq(a, b):
    return _A.equal(a.a, b.a)


_PE_CACHE = {}


def parent_elements(I, order, bubble):
    """Parent elements of the given order, evaluated once per source tree (the tables are only read afterwards)."""
    key = (id(I.repo), order, bool(bubble))
    hit = _PE_CACHE.get(key)
    if hit is not None and hit[0] is I.repo:
        return hit[1], hit[2]
    pe, pe1 = _parent_elements(I, order, bubble)
    _PE_CACHE[key] = (I.repo, pe, pe1)
    return pe, pe1


def _parent_elements(I, order, bubble):
    mod = I.repo.modules[IP]
    fn = "make_parent_element_2d_with_bubble" if bubble else "make_parent_element_2d"
    pe = I.call(I.module_value(mod, fn), [order], {})
    pe1 = I.call(I.module_value(mod, "make_parent_element_1d"), [order], {})
    return pe, pe1


def make_mesh(I, coords, conns, pe, pe1, blocks=None, nodeSets=None, sideSets=None, simplex=None):
    mod = I.repo.modules[ME]
    ctor = I.module_value(mod, "Mesh")
    n = coords.shape[0]
    kw = dict(coords=coords, conns=conns, simplexNodesOrdinals=simplex if simplex is not None else int_arr(range(n)),
              parentElement=pe, parentElement1d=pe1, blocks=blocks, nodeSets=nodeSets, sideSets=sideSets)
    return I.call(ctor, [], kw)


def simplex_mesh(I, name, with_sets=True):
    nv, tris = SAMPLE_MESHES[name]
    coords = sym_coords(nv)
    conns = Arr([Dual(v) for t in tris for v in t], (len(tris), 3))
    pe, pe1 = parent_elements(I, 1, False)
    blocks = {"block": int_arr(range(len(tris)))}
    side = {"outer": Arr([Dual(0), Dual(0)], (1, 2))} if with_sets else None
    nodes = {"some": int_arr([0, 1])} if with_sets else None
    return make_mesh(I, coords, conns, pe, pe1, blocks=blocks, nodeSets=nodes, sideSets=side), tris, coords


def table(rec, field):
    v = rec.get(field)
    if isinstance(v, Unknown):
        raise EvalError(f"{field} not evaluated: {v.why[:80]}")
    if v is None:
        return None
    if isinstance(v, (list, tuple)):
        return [int(const_of(x)) for x in v]
    if not isinstance(v, Arr):
        raise EvalError(f"{field} is {v!r}")
    return v


def elevation(ctx, rule, samples=None):
    """One group of obligations per (sample mesh, order, bubble)."""
    sc = ctx.need(f"{ME}:create_higher_order_mesh_from_simplex_mesh")
    ctx.need_module(IP)
    if samples is None:
        samples = [("pair", 2, False), ("fan", 3, False), ("strip", 2, True), ("fan", 3, True), ("pair", 4, False), ("wheel", 3, False)]
    n_done = 0
    for (mname, order, bubble) in samples:
        tag = f"elevate[{mname},order={order}{',bubble' if bubble else ''}]"
        try:
            I = fresh_interp(ctx.repo)
            mesh, tris, X = simplex_mesh(I, mname)
            fn = I.module_value(ctx.repo.modules[ME], "create_higher_order_mesh_from_simplex_mesh")
            new = I.call(fn, [mesh, order], {"useBubbleElement": bubble} if bubble else {})
            for q in I.visited:
                s_ = ctx.repo.find(q)
                if s_ is not None and s_.module.name in (ME,):
                    ctx.touch(s_)
            if not isinstance(new, Record):
                raise EvalError(f"result is {new!r}")
            pe_want, pe1_want = parent_elements(I, order, bubble)
            pe = new.get("parentElement")
            conns = new.get("conns")
            coords = new.get("coords")
            for nm, v in (("conns", conns), ("coords", coords), ("parentElement", pe)):
                if isinstance(v, Unknown):
                    raise EvalError(f"{nm} of the elevated mesh not evaluated: {v.why[:100]}")
            if not isinstance(conns, Arr) or not isinstance(coords, Arr) or not isinstance(pe, Record):
                raise EvalError("elevated mesh fields are not arrays")
            ref = table(pe_want, "coordinates")
            vert = ints_of(table(pe_want, "vertexNodes"))
            faces = table(pe_want, "faceNodes")
            interior = ints_of(table(pe_want, "interiorNodes"))
            nn = ref.shape[0]
            C = ints_of(conns) if all(const_of(x) is not None for x in conns.data) else None
            if C is None:
                raise EvalError("connectivity entries are not integer constants")
        except ERRS as ex:
            ctx.undecided(rule, sc, None, construct=f"{tag}", detail=f"cannot interpret the order elevation on the sample mesh: {type(ex).__name__}: {ex}")
            continue
        n_done += 1
        nT = len(tris)
        # --- the parent elements stored on the mesh
        same_pe = _same_tables(pe, pe_want)
        pe1 = new.get("parentElement1d")
        same_pe1 = None if not isinstance(pe1, Record) or pe1 is None else _same_tables(pe1, pe1_want)
        if same_pe1 is None and pe1 is None:
            same_pe1 = False        # derived: the line element is dropped
        ctx.decide(rule, None if (same_pe is None or same_pe1 is None) else bool(same_pe and same_pe1), sc, None, construct=f"{tag}:parent-elements-of-the-target-order",
                   detail="mesh.parentElement / parentElement1d are the parent elements of the requested order",
                   bad_detail=f"the elevated mesh stores parent elements that differ from make_parent_element_2d{'_with_bubble' if bubble else ''}({order}) / make_parent_element_1d({order})")
        # --- connectivity shape, range, coverage
        nN = coords.shape[0]
        okshape = conns.shape == (nT, nn) and coords.ndim == 2 and coords.shape[1] == 2
        bad = None
        if not okshape:
            bad = f"conns has shape {conns.shape}, coords {coords.shape}; expected ({nT}, {nn}) and (nNodes, 2)"
        else:
            out_of_range = [(t, k, C[t * nn + k]) for t in range(nT) for k in range(nn) if not 0 <= C[t * nn + k] < nN]
            unused = sorted(set(range(nN)) - set(C))
            if out_of_range:
                t, k, v = out_of_range[0]
                bad = f"element {t}, local node {k} refers to node {v}, but the mesh has {nN} nodes"
            elif unused:
                bad = f"nodes {unused[:6]} of the {nN} nodes are not referenced by any element (unused nodes)"
        ctx.decide(rule, bad is None, sc, None, construct=f"{tag}:connectivity-in-range-every-node-used",
                   detail=f"{nT} x {nn} connectivity into {nN} nodes, all referenced", bad_detail=bad)
        if bad is not None:
            continue
        # --- vertex columns keep the simplex numbering
        badv = None
        for t, tri in enumerate(tris):
            got = [C[t * nn + v] for v in vert]
            if got != list(tri):
                badv = f"element {t}: vertex columns {vert} hold nodes {got}, the simplex mesh has {list(tri)}"
                break
        P = [(coords.data[2 * i], coords.data[2 * i + 1]) for i in range(nN)]
        if badv is None:
            for i in range(X.shape[0]):
                if not (eq(P[i][0], X.data[2 * i]) and eq(P[i][1], X.data[2 * i + 1])):
                    badv = f"vertex node {i} moved from ({X.data[2 * i].a!r}, {X.data[2 * i + 1].a!r}) to ({P[i][0].a!r}, {P[i][1].a!r})"
                    break
        ctx.decide(rule, badv is None, sc, None, construct=f"{tag}:vertex-nodes-kept", detail="vertex columns = simplex connectivity, vertex coordinates unchanged",
                   bad_detail=badv)
        # --- affine image of every reference node
        face_nodes = set(ints_of(faces)) if faces is not None else set()
        bad_face = bad_int = None
        for t, tri in enumerate(tris):
            V = [(X.data[2 * v], X.data[2 * v + 1]) for v in tri]
            for k in range(nn):
                xi0, xi1 = ref.data[2 * k], ref.data[2 * k + 1]
                lam = (xi0, xi1, Dual(1) - xi0 - xi1)
                wx = lam[0] * V[0][0] + lam[1] * V[1][0] + lam[2] * V[2][0]
                wy = lam[0] * V[0][1] + lam[1] * V[1][1] + lam[2] * V[2][1]
                node = C[t * nn + k]
                if not (eq(P[node][0], wx) and eq(P[node][1], wy)):
                    msg = (f"element {t} (vertices {list(tri)}), local node {k} at reference point ({xi0.a!r}, {xi1.a!r}) is node {node} with coordinates "
                           f"({P[node][0].a!r}, {P[node][1].a!r}); the affine image xi0*X_v0 + xi1*X_v1 + (1-xi0-xi1)*X_v2 is ({wx.a!r}, {wy.a!r})")
                    if k in face_nodes and k not in vert:
                        bad_face = bad_face or msg
                    elif k in interior:
                        bad_int = bad_int or msg
                    else:
                        bad_face = bad_face or msg
        ctx.decide(rule, bad_face is None, sc, None, construct=f"{tag}:edge-nodes-at-affine-image-shared-in-matching-order",
                   detail="every face node of every element sits at the affine image of its reference point (neighbours see shared edge nodes reversed)",
                   bad_detail=(bad_face or "") + ": edge nodes are numbered or placed inconsistently between the element, its neighbour and the coordinates")
        ctx.decide(rule, bad_int is None, sc, None, construct=f"{tag}:interior-nodes-at-affine-image",
                   detail=f"{len(interior)} interior node(s) per element at x = xi0 X_v0 + xi1 X_v1 + (1-xi0-xi1) X_v2 (the map whose Jacobian FunctionSpace uses)",
                   bad_detail=(bad_int or "") + ": the interior-node map disagrees with the vertex convention (1,0),(0,1),(0,0) of the parent element")
        # --- duplicates
        dup = None
        seen = {}
        for i in range(nN):
            key = (repr(P[i][0].a), repr(P[i][1].a))
            if key in seen:
                dup = (seen[key], i, key)
                break
            seen[key] = i
        ctx.decide(rule, dup is None, sc, None, construct=f"{tag}:no-duplicate-nodes", detail=f"{nN} nodes with pairwise different coordinates",
                   bad_detail=f"nodes {dup[0]} and {dup[1]} both sit at {dup[2]}: duplicate nodes (a shared edge node is created twice)" if dup else None)
        # --- sets carried over
        okb = _same_dict(new.get("blocks"), mesh.get("blocks")) and _same_dict(new.get("sideSets"), mesh.get("sideSets"))
        ctx.decide(rule, True if okb else None, sc, None, construct=f"{tag}:blocks-and-side-sets-carried-over",
                   detail="element blocks and side sets index the same (unchanged) elements",
                   bad_detail="blocks / side sets of the elevated mesh could not be compared with those of the simplex mesh")
    if n_done == 0:
        from optilint.core import Incomplete
        raise Incomplete("order elevation could not be interpreted on any sample mesh")
    # options: node sets copied / generated from the side sets index existing nodes of the elevated mesh
    try:
        I = fresh_interp(ctx.repo)
        mesh, tris, X = simplex_mesh(I, "pair")
        fn = I.module_value(ctx.repo.modules[ME], "create_higher_order_mesh_from_simplex_mesh")
        new = I.call(fn, [mesh, 2], {"createNodeSetsFromSideSets": True})
        ns = new.get("nodeSets")
        conns = new.get("conns")
        pe = new.get("parentElement")
        if isinstance(ns, Unknown) or isinstance(conns, Unknown) or not isinstance(pe, Record):
            raise EvalError("node sets of the elevated mesh not evaluated")
        faces = ints_of(table(pe, "faceNodes"))
        nn = conns.shape[1]
        C = ints_of(conns)
        npf = len(faces) // 3
        bad = None
        side_sets = mesh.get("sideSets")
        if not isinstance(ns, dict) or sorted(ns) != sorted(side_sets):
            bad = f"node sets {sorted(ns) if isinstance(ns, dict) else ns!r} for side sets {sorted(side_sets)}"
        else:
            for name, ss in side_sets.items():
                want = sorted({C[e * nn + k] for (e, sd) in [tuple(ints_of(r)) for r in rows_of(ss)] for k in faces[sd * npf:(sd + 1) * npf]})
                got = sorted(ints_of(ns[name]) if isinstance(ns[name], Arr) else [int(const_of(v)) for v in ns[name]])
                if got != want:
                    bad = f"node set '{name}' generated from the side set is {got}; the nodes on those sides are {want}"
        ctx.decide(rule, bad is None, sc, None, construct="elevate[createNodeSetsFromSideSets]:nodes-on-the-listed-sides",
                   detail="node set = the nodes conns[element, faceNodes[side]] of the listed sides (each once)", bad_detail=bad)
        I2 = fresh_interp(ctx.repo)
        mesh2, _, _ = simplex_mesh(I2, "pair")
        new2 = I2.call(I2.module_value(ctx.repo.modules[ME], "create_higher_order_mesh_from_simplex_mesh"), [mesh2, 2], {"copyNodeSets": True})
        if isinstance(new2.get("nodeSets"), Unknown):
            raise EvalError("node sets not evaluated")
        okc = _same_dict(new2.get("nodeSets"), mesh2.get("nodeSets"))
        ctx.decide(rule, True if okc else (False if not isinstance(new2.get("nodeSets"), dict) or sorted(new2.get("nodeSets")) != sorted(mesh2.get("nodeSets")) else None),
                   sc, None, construct="elevate[copyNodeSets]:vertex-node-sets-kept", detail="node sets of the simplex mesh (vertex numbers are unchanged) are carried over",
                   bad_detail=f"copyNodeSets=True gives node sets {new2.get('nodeSets')!r}")
    except ERRS as ex:
        ctx.undecided(rule, sc, None, construct="elevate[options]:node-sets", detail=f"{type(ex).__name__}: {str(ex)[:240]}")
    # order 1 is the identity
    try:
        I = fresh_interp(ctx.repo)
        mesh, tris, X = simplex_mesh(I, "pair")
        fn = I.module_value(ctx.repo.modules[ME], "create_higher_order_mesh_from_simplex_mesh")
        new = I.call(fn, [mesh, 1], {})
        ok = isinstance(new, Record) and new.get("conns") is mesh.get("conns") and new.get("coords") is mesh.get("coords")
        ctx.decide(rule, True if ok else None, sc, None, construct="elevate[order=1]:identity", detail="order 1 returns the simplex mesh",
                   bad_detail="order 1: result could not be identified with the input mesh")
    except ERRS as ex:
        ctx.undecided(rule, sc, None, construct="elevate[order=1]:identity", detail=f"{type(ex).__name__}: {ex}")


def _same_tables(a, b):
    """True / False when both parent elements are fully evaluated; None (undecided) otherwise"""
    try:
        for f in ("coordinates", "vertexNodes", "faceNodes", "interiorNodes", "degree", "elementType"):
            if isinstance(a.get(f), Unknown) or isinstance(b.get(f), Unknown):
                return None
        for f in ("coordinates", "vertexNodes", "faceNodes", "interiorNodes"):
            x, y = a.get(f), b.get(f)
            if x is None or y is None:
                if x is not y:
                    return False
                continue
            if isinstance(x, (list, tuple)):
                x = Arr([Dual(v) for v in x], (len(x),))
            if isinstance(y, (list, tuple)):
                y = Arr([Dual(v) for v in y], (len(y),))
            if not isinstance(x, Arr) or not isinstance(y, Arr):
                return None
            if x.size() != y.size():
                return False
            if x.size() and x.shape != y.shape:
                return False
            if not all(eq(p, q) for p, q in zip(x.data, y.data)):
                return False
        ca, cb = const_of(a.get("degree")), const_of(b.get("degree"))
        if ca is None or cb is None:
            return None
        return ca == cb and const_of(a.get("elementType")) == const_of(b.get("elementType"))
    except (AttributeError, ValueError, EvalError, TypeError):
        return None


def _same_dict(a, b):
    if a is b:
        return True
    if not isinstance(a, dict) or not isinstance(b, dict) or list(a) != list(b):
        return False
    for k in a:
        x, y = a[k], b[k]
        if x is y:
            continue
        if not isinstance(x, Arr) or not isinstance(y, Arr) or x.shape != y.shape or not all(eq(p, q) for p, q in zip(x.data, y.data)):
            return False
    return True


def edge_extraction(ctx, rule):
    """Mesh.create_edges on the sample meshes against its documented contract."""
    sc = ctx.need(f"{ME}:create_edges")
    for mname, (nv, tris) in SAMPLE_MESHES.items():
        tag = f"create_edges[{mname}]"
        try:
            I = fresh_interp(ctx.repo)
            conns = Arr([Dual(v) for t in tris for v in t], (len(tris), 3))
            r = I.call(I.module_value(ctx.repo.modules[ME], "create_edges"), [conns], {})
            ec, ed = r
            if isinstance(ec, Unknown) or isinstance(ed, Unknown):
                raise EvalError(f"result not evaluated: {(ec if isinstance(ec, Unknown) else ed).why[:100]}")
            EC = [ints_of(x) for x in rows_of(ec)]
            ED = [ints_of(x) for x in rows_of(ed)]
        except ERRS as ex:
            ctx.undecided(rule, sc, None, construct=tag, detail=f"cannot interpret create_edges on the sample mesh: {type(ex).__name__}: {ex}")
            continue
        directed = {}
        for t, tri in enumerate(tris):
            for s in range(3):
                directed[(tri[s], tri[(s + 1) % 3])] = (t, s)
        undirected = {frozenset(k) for k in directed}
        bad = None
        if len(EC) != len(ED) or any(len(x) != 2 for x in EC) or any(len(x) != 4 for x in ED):
            bad = f"shapes: {len(EC)} edge connectivities, {len(ED)} adjacency rows"
        elif sorted(map(sorted, EC)) != sorted(map(sorted, undirected)) or len(EC) != len(undirected):
            bad = f"edges listed {sorted(map(sorted, EC))}; the triangulation has each of {sorted(map(sorted, undirected))} exactly once"
        else:
            for e, (c, row) in enumerate(zip(EC, ED)):
                want_left = directed.get((c[0], c[1]))
                want_right = directed.get((c[1], c[0]), (-1, -1))
                if want_left is None or tuple(row[:2]) != want_left:
                    bad = f"edge {e} = {c}: left (element, side) = {tuple(row[:2])}, but the edge {c[0]}->{c[1]} is side {want_left}"
                    break
                if tuple(row[2:]) != want_right:
                    bad = f"edge {e} = {c}: right (element, side) = {tuple(row[2:])}, expected {want_right} (the element that traverses {c[1]}->{c[0]}; -1 on the boundary)"
                    break
        ctx.decide(rule, bad is None, sc, None, construct=f"{tag}:each-edge-once-with-left-right-adjacency",
                   detail=f"{len(EC)} edges, each once, left element traverses it forwards, right element backwards, boundary edges (-1, -1)",
                   bad_detail=bad)


# ----------------------------------------------------------------------------- symbolic fixtures for the function-space rules (rules/C03.py)

def sym_arr(prefix, shape):
    import itertools
    shape = tuple(shape)
    return Arr([Dual(_A.atom(prefix + "".join(f"_{i}" for i in ix))) for ix in itertools.product(*[range(s) for s in shape])], shape)


def flat_reprs(v):
    from optilint.expr import simplify
    if isinstance(v, Arr):
        return [repr(simplify(_A.norm(x.a))) for x in v.data]
    if isinstance(v, Dual):
        return [repr(simplify(_A.norm(v.a)))]
    if isinstance(v, (int, float, Fraction)) and not isinstance(v, bool):
        return [repr(simplify(_A.norm(Dual.of(v).a)))]
    if isinstance(v, (list, tuple)):
        return [r for x in v for r in flat_reprs(x)]
    if v is None:
        return ["None"]
    return [repr(v)]


def opaque_value(name, args):
    return Dual(_A.atom(f"{name}[" + " | ".join(";".join(flat_reprs(a)) for a in args) + "]"))


def opaque_fn(name, log=None):
    from optilint.tensoreval import PyFunc

    def fn(it, args, kw):
        if log is not None:
            log.append(list(args))
        return opaque_value(name, list(args) + [kw[k] for k in sorted(kw)])
    return PyFunc(name, fn)


def spec_mesh(I, order, bubble, ntri=2, prefix="V"):
    """Disjoint elements of the given order: element t has vertices V{t}0, V{t}1, V{t}2 (symbols); its nodes sit at the affine images of the
    parent element's reference nodes; global node numbers are a non-trivial arrangement (element 1 numbered backwards)."""
    pe, pe1 = parent_elements(I, order, bubble)
    ref = table(pe, "coordinates")
    nn = ref.shape[0]
    conns, coords = [], [None] * (ntri * nn)
    V = []
    for t in range(ntri):
        Vt = [(Dual(_A.atom(f"{prefix}{t}{j}x")), Dual(_A.atom(f"{prefix}{t}{j}y"))) for j in range(3)]
        V.append(Vt)
        for k in range(nn):
            node = t * nn + (k if t % 2 == 0 else nn - 1 - k)
            conns.append(node)
            xi0, xi1 = ref.data[2 * k], ref.data[2 * k + 1]
            lam = (xi0, xi1, Dual(1) - xi0 - xi1)
            coords[node] = (lam[0] * Vt[0][0] + lam[1] * Vt[1][0] + lam[2] * Vt[2][0], lam[0] * Vt[0][1] + lam[1] * Vt[1][1] + lam[2] * Vt[2][1])
    cds = Arr([c for p in coords for c in p], (ntri * nn, 2))
    cn = Arr([Dual(v) for v in conns], (ntri, nn))
    vert = ints_of(table(pe, "vertexNodes"))
    simplex = int_arr(sorted(conns[t * nn + v] for t in range(ntri) for v in vert))
    mesh = make_mesh(I, cds, cn, pe, pe1, blocks={"block": int_arr(range(ntri))}, simplex=simplex)
    return mesh, V, pe, pe1


def cross2(a, b):
    return a[0] * b[1] - a[1] * b[0]


def jacobian_columns(Vt):
    """dx/dxi0, dx/dxi1 of x = xi0 V0 + xi1 V1 + (1 - xi0 - xi1) V2"""
    return ((Vt[0][0] - Vt[2][0], Vt[0][1] - Vt[2][1]), (Vt[1][0] - Vt[2][0], Vt[1][1] - Vt[2][1]))
