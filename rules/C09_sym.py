"""Symbolic harness for the J2 plasticity model (property C09).

Nothing in here looks at statement shapes, local names or helper names.  The model is reached through its public
interface only -- the factory `create_material_model_functions(properties)` and the closures it returns
(`compute_energy_density(H, state, dt)`, `compute_state_new(H, state, dt)`, `compute_initial_state()`), whatever Python
mechanism builds them (nested defs, lambdas, functools.partial, module-level helpers, dispatch tables) -- and
*interpreted* by optilint.tensoreval on symbolic inputs (exact rational functions, algebraic sqrt atoms).

Three devices make the interpretation total enough for the obligations of C09:

  * path exploration (`explore`): every comparison the interpreter cannot decide (|dev E|^2 > c, trial stress > flow
    stress ...) forks the run; outcomes are memoised on the *normalised difference expression*, so that the same test
    made again elsewhere (by a helper, by the residual, in another closure) takes the same outcome.  The result is the
    list of feasible paths with the decisions (expression, sign) taken on each;
  * the scalar solve `ScalarRootFind.find_root(f, x0, bracket, settings)` is a recorder: it stores the residual closure,
    the guess and the bracket (keywords or positions) and returns a symbolic root; the analysis evaluates the recorded
    residual itself wherever it needs it;
  * spectral functions of non-diagonal symmetric tensors (`TensorMath.symmetric_matrix_function`, i.e. log / exp / sqrt /
    pow of a matrix) become opaque symmetric matrices *interned on the value of their argument and on the scalar function*
    (applied to a probe symbol), so that two closures computing the same strain measure obtain the same atoms; on diagonal
    arguments they are applied entrywise.
"""
from __future__ import annotations

from fractions import Fraction

from optilint.core import Incomplete
from optilint import tensoreval as te
from optilint.tensoreval import Dual, Arr, EvalError, Raised, _A, rat_is_zero, rat_sign, rat_const, Record, ONE
from optilint.expr import simplify
from . import materials as mt

J2 = "optimism.material.J2Plastic"
HARD = "optimism.material.Hardening"
SRF = "optimism.ScalarRootFind"
TM = "optimism.TensorMath"

INTERP_ERRORS = (EvalError, Raised, KeyError, IndexError, TypeError, AttributeError, ZeroDivisionError, ValueError, RecursionError)


# ------------------------------------------------------------------ path exploration

class Path:
    def __init__(self, trail, value, error):
        self.trail = trail          # [(key, difference expression, sign chosen)]
        self.value = value
        self.error = error

    def signs(self):
        return {k: s for (k, d, s) in self.trail}

    def label(self):
        return "".join("+" if s > 0 else "-" for (_, _, s) in self.trail) or "."


def explore(run, max_paths=48):
    """run(policy) -> value.  Calls `run` once per feasible combination of outcomes of the comparisons the interpreter
    cannot decide; `policy` is the sign oracle handed to Interp.policy."""
    paths, stack = [], [[]]
    while stack:
        if len(paths) >= max_paths:
            raise Incomplete(f"more than {max_paths} paths")
        forced = stack.pop()
        trail, memo = [], {}

        def policy(d, forced=forced, trail=trail, memo=memo):
            d = _A.norm(d)
            k = repr(d)
            if k in memo:
                return memo[k]
            i = len(trail)
            if i < len(forced):
                if forced[i][0] != k:
                    raise EvalError("path replay diverged")
                s = forced[i][1]
            else:
                s = 1
                stack.append([(t[0], t[2]) for t in trail] + [(k, -1)])
            trail.append((k, d, s))
            memo[k] = s
            memo[repr(_A.norm(-d))] = -s
            return s
        policy.peek = lambda d, memo=memo: memo.get(repr(_A.norm(d)))
        try:
            value, error = run(policy), None
        except INTERP_ERRORS as ex:
            value, error = None, ex
        paths.append(Path(trail, value, error))
    return paths


def replay_policy(path):
    """Sign oracle that repeats the decisions of `path`; an unseen test is an error (the two computations differ)."""
    memo = {}
    for (k, d, s) in path.trail:
        memo[k] = s
        memo[repr(_A.norm(-d))] = -s

    def policy(d):
        k = repr(_A.norm(d))
        if k not in memo:
            raise EvalError(f"comparison not met on the reference path: {k[:80]}")
        return memo[k]
    policy.peek = lambda d: memo.get(repr(_A.norm(d)))
    return policy


# ------------------------------------------------------------------ values

def atom(name):
    return Dual(_A.atom(name))


def generic(prefix, n=3):
    return Arr([atom(f"{prefix}{i}{j}") for i in range(n) for j in range(n)], (n, n))


def generic_sym(prefix):
    return Arr([atom(f"{prefix}{min(i, j)}{max(i, j)}") for i in range(3) for j in range(3)], (3, 3))


def ident3():
    return Arr([Dual(1 if i == j else 0) for i in range(3) for j in range(3)], (3, 3))


def zeros3():
    return Arr([Dual(0)] * 9, (3, 3))


def trace3(M):
    return M.data[0] + M.data[4] + M.data[8]


def sub3(A, B):
    return Arr([x - y for x, y in zip(A.data, B.data)], A.shape)


def scale3(A, c):
    return Arr([x * c for x in A.data], A.shape)


def dev3(A):
    tr = trace3(A) / Dual(3)
    return Arr([A.data[i * 3 + j] - (tr if i == j else Dual(0)) for i in range(3) for j in range(3)], (3, 3))


def ddot(A, B):
    return te.sum_d(x * y for x, y in zip(A.data, B.data))


def d_equal(x, y):
    return _A.equal(_A.norm(simplify(x.a)), _A.norm(simplify(y.a)))


def arr_equal(X, Y):
    return isinstance(X, Arr) and isinstance(Y, Arr) and X.size() == Y.size() and all(d_equal(x, y) for x, y in zip(X.data, Y.data))


def all_atoms(v):
    out = set()
    for x in (v.data if isinstance(v, Arr) else [v]):
        out |= x.a.atoms() | x.b.atoms()
    return out


def short(r, n=140):
    s = repr(r.a if isinstance(r, Dual) else r)
    return s if len(s) <= n else s[:n] + "..."


FAMILIES = {
    # one-parameter families of trial strains  t * D + q * I  (D a fixed unit-free deviatoric direction, t > 0)
    "axial": [[Fraction(1), 0, 0], [0, Fraction(-1, 2), 0], [0, 0, Fraction(-1, 2)]],
    "shear": [[0, Fraction(1), 0], [Fraction(1), 0, 0], [0, 0, 0]],
}


def family_matrix(name, t="t", q="q"):
    D = FAMILIES[name]
    tt, qq = atom(t), atom(q)
    return Arr([tt * Dual(D[i][j]) + (qq if i == j else Dual(0)) for i in range(3) for j in range(3)], (3, 3))


# ------------------------------------------------------------------ the harness

class Solve:
    """One recorded call of the scalar root finder."""
    def __init__(self, f, x0, lo, hi, settings):
        self.f, self.x0, self.lo, self.hi, self.settings = f, x0, lo, hi, settings


class Run:
    path = None
    preset = None

    def __init__(self, value, solves, spectral, interp):
        self.value, self.solves, self.spectral, self.interp = value, solves, spectral, interp
        self.branch_mismatch = getattr(interp, "branch_mismatch", [])


class Harness:
    """Builds J2 models for option scenarios and runs their closures on symbolic data."""

    ROOT = "eqpsRoot"

    def __init__(self, ctx):
        self.ctx = ctx
        self.mod = ctx.need_module(J2)
        ctx.need_module(HARD)
        fac = [f for (m, f, k) in mt.MODELS if m == J2]
        self.factory = fac[0] if fac else "create_material_model_functions"
        self.fscope = ctx.need(f"{J2}:{self.factory}")
        self.values, self.optional, self.presence = mt.option_space(ctx, [J2, HARD])
        self.option_keys = set(self.values) | self.presence | self.optional
        fr = ctx.repo.find(f"{SRF}:find_root")
        if fr is None:
            raise Incomplete(f"anchor {SRF}:find_root not found in the source tree")
        self.find_root_params = fr.params()
        self._spectral_ids = {}
        self._exp_args = {}
        self._roles = {}
        self.visited = set()

    # ---- option vocabulary
    def kinematics(self):
        kin = sorted(self.values.get("kinematics", []))
        if len(kin) < 2:
            raise Incomplete(f"kinematics options found: {kin}")
        return kin + ([None] if "kinematics" in self.optional else [])

    def scenario(self, kin, hardening="linear", perfect=False, rate=False):
        if hardening not in self.values.get("hardening model", ()):
            raise Incomplete(f"hardening law '{hardening}' is not among the options {sorted(self.values.get('hardening model', []))}")
        sc = {"hardening model": hardening}
        if kin is not None:
            sc["kinematics"] = kin
        # optional numeric constants (read with a default) are given: the general case is the one with all constants present
        for k in sorted(self.presence - {"rate sensitivity"}):
            sc.setdefault(k, "present")
        if perfect:
            sc["hardening modulus"] = Dual(0)
        if rate:
            if "rate sensitivity" not in self.presence | self.optional:
                raise Incomplete("rate sensitivity option not found")
            sc["rate sensitivity"] = "present"
            sc["rate sensitivity exponent"] = Dual(1)        # admissible constant for which the power law is a polynomial
        return sc

    # ---- interpretation
    def _spectral(self, interp, args, kw, log):
        A, f = interp.num(args[0]), args[1]
        if not isinstance(A, Arr) or A.shape != (3, 3):
            raise EvalError("spectral function of a non 3x3 argument")
        if A.is_diagonal():
            out = [Dual(0)] * 9
            for i in range(3):
                out[i * 4] = interp.num(interp.call(f, [A.data[i * 4]], {}))
            R = Arr(out, (3, 3))
            log.append((A, self._scalar_signature(interp, f), R))
            return R
        if any(not rat_is_zero(x.b) for x in A.data):
            raise EvalError("derivative through a spectral function of a non-diagonal tensor")
        sig = self._scalar_signature(interp, f)
        key = (sig, tuple(repr(_A.norm(simplify(x.a))) for x in A.data))
        k = self._spectral_ids.setdefault(key, len(self._spectral_ids))
        R = generic_sym(f"spec{k}_")
        log.append((A, sig, R))
        return R

    def _scalar_signature(self, interp, f):
        """What a scalar function does to a probe symbol (with transcendental functions opaque): identifies exp / log / pow ..."""
        saved, pol = te.OPAQUE[0], interp.policy
        te.OPAQUE[0] = True
        try:
            interp.policy = None
            v = interp.num(interp.call(f, [atom("@z")], {}))
            return repr(v.a)
        except INTERP_ERRORS:
            return repr(f)
        finally:
            te.OPAQUE[0] = saved
            interp.policy = pol

    # ---- exp / log of positive scalars with log(exp(a) * b^k) = a + k log(b)   (coaxial finite-deformation states)
    def _install_logexp(self, I):
        reg = self._exp_args

        def d_exp(x):
            x = I.num(x)
            if isinstance(x, Arr):
                return x.map(d_exp)
            if not rat_is_zero(x.b):
                raise EvalError("derivative through the normalising exponential")
            if rat_is_zero(x.a):
                return Dual(1)
            nm = "exp[" + repr(_A.norm(simplify(x.a))) + "]"
            reg[nm] = x.a
            I.positive.add(nm)
            return atom(nm)

        def log_of_monomial(m, c):
            out = Dual(0)
            if c <= 0:
                raise EvalError("logarithm of a non-positive constant")
            if c != 1:
                out = out + atom(f"log[{c}]")
            for (a_, e_) in m:
                if a_ in reg:
                    out = out + Dual(reg[a_]) * Dual(e_)
                elif a_ in I.positive:
                    out = out + atom(f"log[{a_}]") * Dual(e_)
                else:
                    raise EvalError(f"logarithm of a quantity of unknown sign ({a_})")
            return out

        def d_log(y):
            y = I.num(y)
            if isinstance(y, Arr):
                return y.map(d_log)
            if not rat_is_zero(y.b):
                raise EvalError("derivative through the normalising logarithm")
            r = _A.norm(simplify(y.a))
            if len(r.n.t) != 1 or len(r.d.t) != 1:
                return te.d_fun("log", y)          # opaque (OPAQUE mode) or an error
            (mn, cn), = r.n.t.items()
            (md, cd), = r.d.t.items()
            if cn < 0 and cd < 0:
                cn, cd = -cn, -cd
            return log_of_monomial(mn, cn) - log_of_monomial(md, cd)
        I.ext_special["jax.numpy.exp"] = lambda it, a, k: d_exp(a[0])
        I.ext_special["jax.numpy.log"] = lambda it, a, k: d_log(a[0])
        I.ext_special["jax.numpy.log1p"] = lambda it, a, k: d_log(it.num(a[0]) + Dual(1)) if not isinstance(it.num(a[0]), Arr) else it.num(a[0]).map(lambda v: d_log(v + Dual(1)))
        for nm in ("exp", "log", "log1p"):
            I.ext_special["numpy." + nm] = I.ext_special["jax.numpy." + nm]

    def interp(self, policy=None, root=None, solves=None, spectral=None, logexp=False, positive=()):
        I = mt.make_interp(self.ctx.repo)
        I.positive.update(positive)
        if logexp:
            self._install_logexp(I)
        I.policy = policy
        solves = solves if solves is not None else []
        spectral = spectral if spectral is not None else []
        names = self.find_root_params

        def find_root(interp, args, kw):
            a = dict(zip(names, args))
            a.update(kw)
            if len(names) < 3 or any(n not in a for n in names[:3]):
                raise EvalError("find_root call with missing arguments")
            br = a[names[2]]
            if isinstance(br, Arr):
                if br.size() != 2:
                    raise EvalError("bracket is not a pair")
                lo, hi = br.ravel().data
            elif isinstance(br, (tuple, list)) and len(br) == 2:
                lo, hi = interp.num(br[0]), interp.num(br[1])
            else:
                raise EvalError(f"bracket {br!r}")
            if not getattr(interp, "shadow", False):
                solves.append(Solve(a[names[0]], a[names[1]], lo, hi, a.get(names[3]) if len(names) > 3 else None))
            interp.positive.add(self.ROOT)
            return (root if root is not None else atom(self.ROOT), None)
        I.special[f"{SRF}:find_root"] = find_root
        I.branch_mismatch = []
        I.shadow = False

        def shape_of(v):
            if isinstance(v, Arr):
                return v.shape
            if isinstance(v, (tuple, list)):
                return tuple(shape_of(x) for x in v)
            return ()

        def lax_cond(interp, args, kw):
            """jax.lax.cond(pred, f, g, *operands): the taken branch gives the value; the other branch is interpreted as well (no new
            decisions, nothing recorded) because both must return the same structure -- a difference is a definite defect."""
            if len(args) < 3:
                raise EvalError("lax.cond with keyword arguments")
            operands = list(args[3:]) + ([kw["operand"]] if "operand" in kw else [])
            args = list(args[:3]) + operands
            c = interp.truth(args[0])
            take, other = (args[1], args[2]) if c else (args[2], args[1])
            res = interp.call(take, list(args[3:]), {})
            peek = getattr(interp.policy, "peek", None)
            if peek is not None and not interp.shadow:
                pol = interp.policy

                def known(d):
                    v = peek(d)
                    if v is None:
                        raise EvalError("undecided comparison in the branch not taken")
                    return v
                known.peek = peek
                n_sp = len(spectral)
                interp.shadow, interp.policy = True, known
                try:
                    alt = interp.call(other, list(args[3:]), {})
                    if shape_of(alt) != shape_of(res):
                        interp.branch_mismatch.append((shape_of(res), shape_of(alt)))
                except INTERP_ERRORS:
                    pass
                finally:
                    interp.shadow, interp.policy = False, pol
                    del spectral[n_sp:]
            return res
        I.ext_special["jax.lax.cond"] = lax_cond
        I.special[f"{TM}:symmetric_matrix_function"] = lambda interp, args, kw: self._spectral(interp, args, kw, spectral)
        I.ext_special["jax.scipy.linalg.expm"] = lambda interp, args, kw: self._spectral(
            interp, [args[0], te.PyFunc("exp", lambda it, a, k: te.d_fun("exp", it.num(a[0])))], kw, spectral)
        I.positive.update({"dt", "t", "s0", "x"})
        return I, solves, spectral

    def props(self, I, sc):
        return mt.PropDict(I, sc, self.option_keys)

    def model(self, I, sc):
        m = I.call(I.module_value(self.mod, self.factory), [self.props(I, sc)], {})
        if not isinstance(m, (Record, dict)):
            raise EvalError(f"the factory returned {m!r}")
        return m

    @staticmethod
    def member(model, name):
        v = model.get(name)
        if v is None:
            raise EvalError(f"the model has no {name}")
        return v

    def call(self, sc, name, args, policy=None, root=None, opaque=True, logexp=False, positive=()):
        """Interpret model.<name>(*args) for scenario sc."""
        I, solves, spectral = self.interp(policy, root, logexp=logexp, positive=positive)
        saved = te.OPAQUE[0]
        te.OPAQUE[0] = opaque
        try:
            model = self.model(I, sc)
            v = I.call(self.member(model, name), list(args), {})
        finally:
            te.OPAQUE[0] = saved
            self.visited |= I.visited
        return Run(v, solves, spectral, I)

    def paths(self, sc, name, args, root=None, preset=None, max_paths=48, **kw):
        """All feasible paths of model.<name>(*args); `preset` (a Path) fixes the outcomes of the comparisons already met on it."""
        def run(pol):
            if preset is not None:
                base = replay_policy(preset)

                def pol2(d, pol=pol, base=base):
                    try:
                        return base(d)
                    except EvalError:
                        return pol(d)
                pol2.peek = lambda d, pol=pol, base=base: base.peek(d) if base.peek(d) is not None else pol.peek(d)
                return self.call(sc, name, args, policy=pol2, root=root, **kw)
            return self.call(sc, name, args, policy=pol, root=root, **kw)
        ps = explore(run, max_paths)
        for p in ps:
            if p.value is not None:
                p.value.path = p
                p.value.preset = preset
        return ps

    def initial_state(self, sc):
        v = self.call(sc, "compute_initial_state", []).value
        if not isinstance(v, Arr):
            raise EvalError(f"initial state is {v!r}")
        return v.ravel()

    # ---- roles of the state slots
    def roles(self, kin):
        """(n, index of the equivalent plastic strain, indices of the 3x3 tensor segment), found by use: on a yielding step from the
        virgin state with a generic displacement gradient, the slot whose new value moves with the root of the scalar solve at a
        constant non-zero rate is the equivalent plastic strain (the tensor slots move with the flow direction, which depends on the
        strain, or through the matrix exponential)."""
        if kin in self._roles:
            return self._roles[kin]
        sc = self.scenario(kin)
        s0 = self.initial_state(sc)
        n = s0.shape[0]
        dt = atom("dt")
        hits, n_y, errs = None, 0, []
        for p in explore(lambda pol: self.call(sc, "compute_state_new", [generic("h"), s0, dt], policy=pol)):
            if p.error is not None:
                errs.append(str(p.error))
                continue
            if not isinstance(p.value.value, Arr):
                continue
            new = p.value.value.ravel()
            if new.shape[0] != n:
                raise EvalError(f"state update changes the state length {n} -> {new.shape[0]}")
            if not p.value.solves or self.ROOT not in all_atoms(new):
                continue
            n_y += 1
            cand = set()
            for i in range(n):
                d = _A.norm(simplify(_A.diff(new.data[i].a, self.ROOT)))
                c = rat_const(d)
                if c is not None and c != 0:
                    cand.add(i)
            hits = cand if hits is None else hits & cand
        if not n_y or hits is None or len(hits) != 1:
            raise EvalError(f"slot of the equivalent plastic strain not identified ({n_y} yielding paths, candidates {sorted(hits or [])}; {errs[:1]})")
        ie = hits.pop()
        seg = [i for i in range(n) if i != ie]
        if len(seg) != 9:
            raise EvalError(f"state has {n} slots: one scalar and a 3x3 tensor expected")
        self._roles[kin] = (n, ie, seg)
        return self._roles[kin]

    def make_state(self, kin, eqps, tensor):
        n, ie, seg = self.roles(kin)
        data = [None] * n
        data[ie] = eqps
        for k, i in enumerate(seg):
            data[i] = tensor.data[k]
        return Arr(data, (n,))

    def split_state(self, kin, state):
        n, ie, seg = self.roles(kin)
        state = state.ravel()
        if state.shape[0] != n:
            raise EvalError(f"state of length {state.shape[0]}, expected {n}")
        return state.data[ie], Arr([state.data[i] for i in seg], (3, 3))

    # ---- stop criterion of the scalar solve
    def settings_roles(self):
        """(record type name, {role: field}) of the settings record of the root finder, found by interpreting its public factory
        `get_settings` on one probe symbol per parameter: the field that receives the parameter documented (and proved by C17 O4/O6)
        to bound |f| at convergence is the 'residual' tolerance, the one that bounds |step| the 'step' tolerance."""
        if "_settings_roles" in self.__dict__:
            return self._settings_roles
        gs = self.ctx.repo.find(f"{SRF}:get_settings")
        srf = self.ctx.repo.module(SRF)
        if gs is None or srf is None:
            raise EvalError(f"{SRF}:get_settings not found")
        params = gs.params()
        I, _, _ = self.interp()
        rec = I.call(I.module_value(srf, "get_settings"), [], {p: atom("@set:" + p) for p in params})
        if not isinstance(rec, Record):
            raise EvalError(f"get_settings returned {rec!r}")
        field_of = {}
        for f, v in zip(rec.fields, rec.values):
            for p in params:
                if isinstance(v, Dual) and d_equal(v, atom("@set:" + p)):
                    field_of.setdefault(p, []).append(f)
        roles = {}
        for role, p in (("residual", "r_tol"), ("step", "x_tol")):
            if len(field_of.get(p, [])) != 1:
                raise EvalError(f"the field of the settings record that receives get_settings({p}=...) was not identified: {field_of.get(p)}")
            roles[role] = field_of[p][0]
        self._settings_roles = (rec.tname, tuple(rec.fields), roles)
        return self._settings_roles

    def solver_tolerances(self, run, solve):
        """(residual tolerance, step tolerance) of one recorded scalar solve, as symbolic values."""
        st = solve.settings
        tname, fields, roles = self.settings_roles()
        if not isinstance(st, Record) or st.tname != tname or tuple(st.fields) != fields:
            raise EvalError(f"the settings handed to the root finder are {st!r}, not the record built by get_settings")
        out = []
        for role in ("residual", "step"):
            v = run.interp.num(st.get(roles[role]))
            if not isinstance(v, Dual):
                raise EvalError(f"the {role} tolerance of the scalar solve is {v!r}")
            out.append(v)
        return tuple(out)

    def residual(self, run, solve, e):
        """value of the recorded residual at e (evaluated under the decisions of the run that recorded it)"""
        I = run.interp
        saved, pol = te.OPAQUE[0], I.policy
        te.OPAQUE[0] = True
        path, preset = getattr(run, "path", None), getattr(run, "preset", None)
        if path is not None:
            # no new decisions after the fact: only the outcomes fixed on the recording path (and its preset) are available
            memo = {}
            for pp in (preset, path):
                for (k, d, s) in (pp.trail if pp is not None else []):
                    memo[k] = s
                    memo[repr(_A.norm(-d))] = -s

            def fixed(d):
                k = repr(_A.norm(d))
                if k not in memo:
                    raise EvalError(f"the residual makes a comparison that the recording run did not make: {k[:80]}")
                return memo[k]
            I.policy = fixed
        try:
            return I.num(I.call(solve.f, [e], {}))
        finally:
            te.OPAQUE[0] = saved
            I.policy = pol
