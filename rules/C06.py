"""C06 -- trust-region subproblem steps: radius, Cauchy decrease, hard case (structural clauses).

  D1  boundary steps have norm equal to the radius: for the four projection helpers the returned
      z + tau*d satisfies  zz + 2 tau <z,d> + tau^2 <d,d> = Delta^2  identically (algebraic atom
      s^2 = (Delta^2-zz) dd + zd^2); update_step_length_squared is the expansion of <z+ad, z+ad>; the
      preconditioned recurrences have the published (Gould et al.) form and are fed the *current*
      rPr, z, d; exits labelled boundary / negative-curvature return the projected point under the
      matching guard, interior exits return the iterate under the residual guard;
  D2  dogleg: each return under its path condition (scaled Cauchy point has norm^2 = Delta^2; cp only
      when inside; Newton point only when inside; otherwise the boundary point on cp + tau (newton - cp));
      the Cauchy point is a non-positive multiple of the gradient on both curvature branches;
  D3  eigen-solver index spaces: with sig, v = eigh(A), v : [space, mode]; every product, sum and return in
      treigen.solve type-checks and the step is a space vector.
Not decided: model decrease >= Cauchy decrease, Newton residual of interior steps, secular iteration accuracy,
validity of the CG invariants behind the recurrences.
"""
from __future__ import annotations

import ast

from optilint.cfg import cfg_of
from optilint.model import dotted, FuncVal, walk_local
from optilint.core import Incomplete
from optilint.expr import Algebra, NotPolynomial, Rat, Poly
from optilint.absdom import SignEnv, is_nonpos, TOP
from .common import return_normal_form, normal_form, sem_same, src, expand, canon, same, calls_in, single_def, def_value, const_value, actual, cond_atoms

LEVEL = "other"
RULE_TEXT = ("obligations = (projection helper x norm identity) + (labelled exit x guard/point) + (recurrence x form/currentness) + "
             "(dogleg return x path condition) + (expression in treigen.solve x index-space type)")
EXPLANATION = ("Static analysis of EquationSolver.py, EquationSolverSubspace.py, treigen/treigen.py: exact algebraic identities "
               "(normal forms with an algebraic square-root atom and Gram atoms) for the boundary projections, dominator "
               "rules for labelled exits, and an index-space type system (space vs eigen-mode axes) for the eigen solver. "
               "Optimality of steps is not decided.")

ES = "optimism.EquationSolver"
ESS = "optimism.EquationSolverSubspace"
TE = "optimism.treigen.treigen"


def run(ctx):
    for m in (ES, ESS, TE):
        ctx.need_module(m)
    ctx.guard(d1_projections, ctx)
    ctx.guard(d1_recurrences, ctx)
    ctx.guard(d1_exits, ctx)
    ctx.guard(d2_dogleg, ctx)
    ctx.guard(d2_cauchy, ctx)
    ctx.guard(d3_types, ctx)
    ctx.guard(d3_hard_case_multiplier, ctx)
    ctx.guard(d3_pole_offset, ctx)
    ctx.trust("numpy.linalg.eigh returns eigenvalues ascending and eigenvectors as COLUMNS of the second result")
    ctx.trust("Gould, Lucidi, Roma, Toint (1999) recurrences for <z,d>_M and <d,d>_M in preconditioned CG")
    ctx.assume("trust-region radius > 0")


# ------------------------------------------------------------------ D1: projections

def _tau_of_return(ret, zname, dname):
    """return z + tau*d  ->  tau expression"""
    e = ret
    if not (isinstance(e, ast.BinOp) and isinstance(e.op, ast.Add)):
        return None
    for a, b in ((e.left, e.right), (e.right, e.left)):
        if isinstance(a, ast.Name) and a.id == zname and isinstance(b, ast.BinOp) and isinstance(b.op, ast.Mult):
            for t, d in ((b.left, b.right), (b.right, b.left)):
                if isinstance(d, ast.Name) and d.id == dname:
                    return t
    return None


def d1_projections(ctx):
    rule = "D1/T7-boundary-norm-identity"
    helpers = [(f"{ES}:project_to_boundary", None), (f"{ES}:project_to_boundary_with_coefs", None),
               (f"{ESS}:project_to_boundary_with_coefs", None), (f"{ES}:preconditioned_project_to_boundary", "mult_by_approx_hessian")]
    for q, op in helpers:
        sc = ctx.need(q)
        cfg = cfg_of(sc)
        ps = sc.params()
        zn, dn, tr, zz = ps[0], ps[1], ps[2], ps[3]
        rets = cfg.returns()
        if len(rets) != 1:
            ctx.undecided(rule, sc, None, construct="returns", detail=f"{len(rets)} returns")
            continue
        r = rets[0]
        # normal form of the return value: locals expanded (z, d kept), small helpers / sibling projections inlined
        ret_nf = return_normal_form(sc, stop=(zn, dn))
        tau = _tau_of_return(ret_nf, zn, dn) if ret_nf is not None else None
        if tau is None:
            ctx.refuted(rule, sc, r.ast, construct="returns-z+tau*d",
                        detail=f"returns `{src(ret_nf if ret_nf is not None else r.ast.value)[:160]}`, not {zn} + tau*{dn}: the result does not lie on the ray from z along d")
            continue
        lin = {op: "M"} if op else {}
        A = Algebra(vector_atoms={zn, dn}, linear_ops=lin)
        try:
            tau_e = tau
            T = A.lower(tau_e)
            # the inner products the caller's zz belongs to
            if len(ps) >= 6 and op is None and "zd" in ps:
                ZD, DD = A.atom(ps[4]), A.atom(ps[5])
            else:
                dvec = ast.parse(f"{op}({dn})" if op else dn, mode="eval").body
                ZD = A._bilinear(ast.Name(id=zn, ctx=ast.Load()), dvec)
                DD = A._bilinear(ast.Name(id=dn, ctx=ast.Load()), dvec)
            normsq = A.norm(A.atom(zz) + A.const(2) * T * ZD + T * T * DD)
            want = A.lower(ast.parse(f"{tr}**2", mode="eval").body)
            ok = A.equal(normsq, want)
            detail = f"zz + 2 tau zd + tau^2 dd normalises to {tr}^2 with tau = {src(tau_e)[:80]}"
            bad = f"|z + tau d|^2 normalises to {normsq!r}, not {tr}^2 (tau = {src(tau_e)[:100]})"
        except NotPolynomial as ex:
            ok, detail, bad = None, "", f"cannot normalise: {ex}"
        ctx.decide(rule, ok, sc, r.ast, construct="norm-of-result-is-radius", detail=detail, bad_detail=bad)
        # the positive root is taken: tau = (+sqrt(.) - zd)/dd
        pos = "np.sqrt" in src(tau)
        te = tau
        negroot = False
        for n in ast.walk(te):
            if isinstance(n, ast.UnaryOp) and isinstance(n.op, ast.USub) and isinstance(n.operand, ast.Call) and (dotted(n.operand.func) or "").endswith("sqrt"):
                negroot = True
            if isinstance(n, ast.BinOp) and isinstance(n.op, ast.Sub) and isinstance(n.right, ast.Call) and (dotted(n.right.func) or "").endswith("sqrt"):
                negroot = True
        ctx.decide(rule, pos and not negroot, sc, r.ast, construct="forward-root",
                   detail="tau uses the +sqrt branch (continues along d)",
                   bad_detail="tau uses the -sqrt branch: the projection goes backwards along d")
    # update_step_length_squared = <z + a d, z + a d>
    us = ctx.need(f"{ES}:update_step_length_squared")
    r = us.returns()
    a_, zz_, zd_, dd_ = us.params()
    A = Algebra()
    try:
        got = A.lower(r[0])
        want = A.lower(ast.parse(f"{zz_} + 2*{a_}*{zd_} + {a_}*{a_}*{dd_}", mode="eval").body)
        ok = A.equal(got, want)
    except (NotPolynomial, IndexError):
        ok = None
    ctx.decide(rule, ok, us, r[0] if r else None, construct="update_step_length_squared",
               detail="zz + 2 a zd + a^2 dd", bad_detail=f"update_step_length_squared returns `{src(r[0]) if r else '?'}`, not the expansion of <z+a d, z+a d>")


# ------------------------------------------------------------------ D1: recurrences

def d1_recurrences(ctx):
    rule = "D1/T7-recurrences"
    pre = ctx.need(f"{ES}:cg_inner_products_preconditioned")
    unp = ctx.need(f"{ES}:cg_inner_products_unpreconditioned")
    for sc, wants in ((pre, ("beta*(zd + alpha*dd)", "rPr + beta*beta*dd")), (unp, None)):
        cfg = cfg_of(sc)
        rets = cfg.returns()
        ps = sc.params()
        if len(rets) != 1 or not isinstance(rets[0].ast.value, ast.Tuple) or len(rets[0].ast.value.elts) != 2:
            ctx.undecided(rule, sc, None, construct="returns", detail="unexpected return shape")
            continue
        r = rets[0]
        e0, e1 = r.ast.value.elts
        if wants:
            A = Algebra()
            try:
                # zd' uses the OLD dd: expand sequentially with reaching definitions
                g0 = A.lower(expand(cfg, r, e0))
                g1 = A.lower(expand(cfg, r, e1))
                # names in the function are parameters; `zd`/`dd` redefined -> __in suffix for entry values
                def norm_in(x):
                    return ast.parse(x.replace("zd", "zd__in").replace("dd", "dd__in"), mode="eval").body
                w0 = A.lower(norm_in(wants[0]))
                w1 = A.lower(norm_in(wants[1]))
                ok0, ok1 = A.equal(g0, w0), A.equal(g1, w1)
                ctx.decide(rule, ok0, sc, e0, construct="zd-recurrence", detail=f"zd' = {g0!r}",
                           bad_detail=f"<z,d>_M recurrence is {g0!r}, expected beta*(zd + alpha*dd)")
                ctx.decide(rule, ok1, sc, e1, construct="dd-recurrence", detail=f"dd' = {g1!r}",
                           bad_detail=f"<d,d>_M recurrence is {g1!r}, expected rPr + beta^2*dd")
            except NotPolynomial as ex:
                ctx.undecided(rule, sc, r.ast, construct="recurrence", detail=str(ex))
        else:
            zname, dname = ps[5], ps[6]
            A = Algebra(vector_atoms={zname, dname})
            try:
                g0 = A.lower(expand(cfg, r, e0, stop=(zname, dname)))
                g1 = A.lower(expand(cfg, r, e1, stop=(zname, dname)))
                w0 = A._bilinear(ast.Name(id=zname, ctx=ast.Load()), ast.Name(id=dname, ctx=ast.Load()))
                w1 = A._bilinear(ast.Name(id=dname, ctx=ast.Load()), ast.Name(id=dname, ctx=ast.Load()))
                ctx.decide(rule, A.equal(g0, w0), sc, e0, construct="zd-direct", detail="zd = <z,d>",
                           bad_detail=f"unpreconditioned zd is {g0!r}, not <z,d>")
                ctx.decide(rule, A.equal(g1, w1), sc, e1, construct="dd-direct", detail="dd = <d,d>",
                           bad_detail=f"unpreconditioned dd is {g1!r}, not <d,d>")
            except NotPolynomial as ex:
                ctx.undecided(rule, sc, r.ast, construct="direct", detail=str(ex))
    # same signature (they are stored in one slot)
    ctx.decide(rule, pre.params() == unp.params(), pre, None, construct="siblings-same-signature",
               detail="both recurrence functions take the same parameters",
               bad_detail=f"recurrence siblings differ in signature: {pre.params()} vs {unp.params()}")
    # call site: arguments are current
    cg = ctx.need(f"{ES}:solve_trust_region_minimization")
    cfg = cfg_of(cg)
    loops = [n for n in cfg.nodes if n.kind == "for"]
    if not loops:
        raise Incomplete("CG loop not found")
    loop = loops[0]
    calls = []
    for n in cfg.nodes:
        if n.kind == "stmt" and n.ast is not None and loop in n.loops:
            for c in ast.walk(n.ast):
                if isinstance(c, ast.Call) and isinstance(c.func, ast.Name):
                    vals = ctx.repo.resolve(c.func, cg)
                    if any(isinstance(v, FuncVal) and v.scope in (pre, unp) for v in vals):
                        calls.append((n, c))
    if len(calls) != 1:
        ctx.undecided(rule, cg, None, construct="recurrence-call", detail=f"{len(calls)} recurrence calls in the CG loop")
        return
    n, c = calls[0]
    ps = pre.params()
    # roles: alpha, beta, zd, dd, rPr, z, d
    for pname in (ps[4], ps[5], ps[6], ps[0], ps[1]):
        a = actual(c, ps, pname)
        if not isinstance(a, ast.Name):
            ctx.undecided(rule, cg, c, construct=f"current:{pname}", detail=f"argument {src(a)}")
            continue
        defs = cfg.reaching(n, a.id)
        ok = len(defs) == 1 and loop in defs[0].loops and cfg.dominates(defs[0], n) and \
            not cfg.paths_between(defs[0], n, avoid=[]) is False
        # the definition must be executed in the same iteration: it dominates the call and lies in the loop
        ctx.decide(rule, len(defs) == 1 and loop in defs[0].loops and cfg.dominates(defs[0], n), cg, c,
                   construct=f"recurrence-argument-current:{pname}",
                   detail=f"`{a.id}` passed as {pname} is defined in the same iteration by `{src(defs[0].ast) if defs else '?'}`",
                   bad_detail=f"`{a.id}` passed as {pname} can still hold a value from before this iteration's update "
                              f"(reaching definitions: {[src(d.ast) if d.ast is not None else 'entry' for d in defs]}): the recurrence would use a stale quantity")
    # old zd, dd must be the previous iteration's values (not yet overwritten in this iteration)
    for pname in (ps[2], ps[3]):
        a = actual(c, ps, pname)
        if isinstance(a, ast.Name):
            defs = cfg.reaching(n, a.id)
            stale_ok = all((d is n) or (loop not in d.loops) or not cfg.dominates(d, n) or d is n for d in defs)
            # definitions inside the loop that dominate the call would mean the value was already overwritten
            over = [d for d in defs if loop in d.loops and d is not n and cfg.dominates(d, n)]
            ctx.decide(rule, not over, cg, c, construct=f"recurrence-argument-previous:{pname}",
                       detail=f"`{a.id}` still holds the previous iteration's value",
                       bad_detail=f"`{a.id}` was already overwritten in this iteration by `{src(over[0].ast) if over else ''}`")
    # the result is stored back to zd, dd in this order and zz takes the predicted squared length
    if isinstance(n.ast, ast.Assign) and isinstance(n.ast.targets[0], ast.Tuple):
        tnames = [t.id if isinstance(t, ast.Name) else None for t in n.ast.targets[0].elts]
        zd_a, dd_a = actual(c, ps, ps[2]), actual(c, ps, ps[3])
        ok = tnames == [src(zd_a), src(dd_a)]
        ctx.decide(rule, ok, cg, n.ast, construct="recurrence-result-order", detail=f"{tnames} = recurrence(...)",
                   bad_detail=f"recurrence results stored into {tnames}, expected [{src(zd_a)}, {src(dd_a)}]")


# ------------------------------------------------------------------ D1: labelled exits

def _label_of(ctx, scope, e):
    d = src(e)
    if "negCurveString" in d:
        return "negcurve"
    if "boundaryString" in d:
        return "boundary"
    if "interiorString" in d:
        return "interior_" if isinstance(e, ast.BinOp) else "interior"
    return "?"


def d1_exits(ctx):
    rule = "D1/T1-labelled-exits"
    for q, proj_names in ((f"{ES}:solve_trust_region_minimization", ("project_to_boundary_with_coefs",)),
                          (f"{ESS}:trust_region_cg", ("project_to_boundary_with_coefs",))):
        sc = ctx.need(q)
        cfg = cfg_of(sc)
        loops = [n for n in cfg.nodes if n.kind == "for"]
        n_lab = 0
        for r in cfg.returns():
            v = r.ast.value
            if not isinstance(v, ast.Tuple):
                continue
            labs = [(_label_of(ctx, sc, e), i) for i, e in enumerate(v.elts) if _label_of(ctx, sc, e) != "?"]
            if not labs:
                continue
            lab = labs[0][0]
            first = v.elts[0]
            n_lab += 1
            if lab in ("boundary", "negcurve"):
                # point: projection of the current z along the current d
                pe = expand(cfg, r, first, depth=1) if isinstance(first, ast.Name) else first
                from .common import unwrap_call
                pe = unwrap_call(pe, sc, stop_names=proj_names)
                okp = isinstance(pe, ast.Call) and (dotted(pe.func) or "").split(".")[-1] in proj_names
                shown = src(pe)
                okargs = False
                if okp:
                    a = pe.args
                    okargs = len(a) >= 4 and all(isinstance(x, ast.Name) for x in a[:2])
                    # zz, zd, dd arguments (if present) must be the tracked values of the same z, d
                    dnode = single_def(cfg, r, first.id) if isinstance(first, ast.Name) else r
                    if okargs and dnode is not None and len(a) >= 6:
                        for x in a[3:6]:
                            if isinstance(x, ast.Name):
                                for dd_ in cfg.reaching(dnode, x.id):
                                    pass
                ctx.decide(rule, okp and okargs, sc, r.ast, construct=f"{lab}-exit-returns-projection",
                           detail=f"returns {shown[:70]}",
                           bad_detail=f"exit labelled {lab} returns `{shown[:90]}`, not the projection onto the trust-region boundary")
                # guard
                facts = [(c, l) for (c, l) in cfg.edge_facts(r) if c.kind == "cond" and loops and loops[0] in c.loops]
                texts = []
                for (c, l) in facts:
                    for (a_, pol) in cond_atoms(c.ast, l):
                        texts.append((canon(expand(cfg, c, a_, depth=1)), pol, a_))
                if lab == "negcurve":
                    okg = any(pol and isinstance(a_, ast.Compare) and isinstance(a_.ops[0], ast.LtE) and const_value(a_.comparators[0]) == 0
                              and "curvature" in src(a_.left) for (t, pol, a_) in texts)
                    ctx.decide(rule, okg, sc, r.ast, construct="negcurve-exit-guard", detail="under curvature <= 0",
                               bad_detail="exit labelled negative-curvature is not guarded by `curvature <= 0`")
                else:
                    okg = False
                    for (t, pol, a_) in texts:
                        if pol and isinstance(a_, ast.Compare) and isinstance(a_.ops[0], ast.Gt):
                            rhs = a_.comparators[0]
                            if same(rhs, "trSize ** 2") or same(rhs, "trSize * trSize"):
                                okg = True
                    ctx.decide(rule, okg, sc, r.ast, construct="boundary-exit-guard", detail="under |z+alpha d|^2 > trSize^2",
                               bad_detail="exit labelled boundary is not guarded by `(step length)^2 > trSize**2`")
            elif lab == "interior":
                # returns the iterate itself; under residual guard unless it is the zero-gradient early exit
                ok = isinstance(first, ast.Name)
                if ok:
                    defs = cfg.reaching(r, first.id)
                    ok = all(d.kind == "stmt" and not (isinstance(getattr(d.ast, "value", None), ast.Call) and
                                                       isinstance(d.ast.value.func, ast.Name) and d.ast.value.func.id in proj_names) for d in defs)
                facts = [src(c.ast) for (c, l) in cfg.edge_facts(r) if c.kind == "cond" and l]
                okg = any("cgTolSquared" in f or "TolSquared" in f for f in facts)
                ctx.decide(rule, ok and okg, sc, r.ast, construct="interior-exit", detail=f"returns the unprojected iterate under {facts[-1:] }",
                           bad_detail=f"exit labelled interior: returns `{src(first)}` under {facts}; expected the iterate under the residual tolerance guard")
            else:
                ctx.proved(rule, sc, r.ast, construct="iteration-cap-exit", detail="labelled 'interior_' (iteration cap)")
        if n_lab < 3:
            ctx.undecided(rule, sc, None, construct="labelled-exits", detail=f"{n_lab} labelled exits found")
    # role names from the boundary exit: project_to_boundary_with_coefs(z, d, trSize, ZZ, ZD, DD)
    cg = ctx.need(f"{ES}:solve_trust_region_minimization")
    cfg = cfg_of(cg)
    roles = None
    for c in calls_in(cg):
        if isinstance(c.func, ast.Name) and c.func.id == "project_to_boundary_with_coefs" and len(c.args) == 6 \
                and all(isinstance(a, ast.Name) for a in c.args):
            roles = [a.id for a in c.args]
    if roles is None:
        raise Incomplete("projection call with tracked inner products not found in the CG solver")
    Zn, Dn, TRn, ZZ, ZD, DD = roles
    for n in cfg.nodes:
        if n.kind == "cond" and isinstance(n.ast, ast.Compare) and isinstance(n.ast.ops[0], ast.Gt) and isinstance(n.ast.left, ast.Name):
            rhs = n.ast.comparators[0]
            if same(rhs, f"{TRn} ** 2") or same(rhs, f"{TRn} * {TRn}"):
                e = expand(cfg, n, n.ast.left, depth=1)
                ok = isinstance(e, ast.Call) and isinstance(e.func, ast.Name) and e.func.id == "update_step_length_squared" \
                    and [src(a) for a in e.args[1:]] == [ZZ, ZD, DD] and isinstance(e.args[0], ast.Name)
                if ok:
                    # the step length is the one used for the tentative step z + alpha*d
                    al = e.args[0].id
                    ok = any(isinstance(m.ast, ast.Assign) and same(m.ast.value, f"{Zn} + {al} * {Dn}") for m in cfg.nodes
                             if m.kind == "stmt" and m.ast is not None)
                ctx.decide(rule, ok, cg, n.ast, construct="predicted-length", detail=f"{src(n.ast.left)} = {src(e)}",
                           bad_detail=f"the length compared with the radius is `{src(e)}`, not update_step_length_squared(alpha, {ZZ}, {ZD}, {DD}) for the step z + alpha*d")
    # zz is advanced to the predicted value when the step is taken
    zzdefs = [n for n in cfg.nodes if n.kind == "stmt" and isinstance(n.ast, ast.Assign) and isinstance(n.ast.targets[0], ast.Name)
              and n.ast.targets[0].id == ZZ and n.loops]
    ok = len(zzdefs) == 1 and isinstance(zzdefs[0].ast.value, ast.Name) and \
        "update_step_length_squared" in src(expand(cfg, zzdefs[0], zzdefs[0].ast.value, depth=1))
    ctx.decide(rule, ok, cg, zzdefs[0].ast if zzdefs else None, construct="zz-advanced",
               detail="zz <- predicted |z + alpha d|^2", bad_detail="zz is not advanced to the predicted squared step length inside the CG loop")
    # initial dd for both modes
    pre_if = [n for n in cfg.nodes if n.kind == "stmt" and isinstance(n.ast, ast.Assign) and isinstance(n.ast.targets[0], ast.Name)
              and n.ast.targets[0].id == DD and not n.loops]
    for n in pre_if:
        facts = [(src(c.ast), l) for (c, l) in cfg.edge_facts(n) if c.kind == "cond"]
        precond_mode = any("use_preconditioned_inner_product_for_cg" in t and l for (t, l) in facts)
        rn, pn = cg.params()[1], cg.params()[3]
        e = expand(cfg, n, n.ast.value, stop=(rn, Dn))
        if precond_mode:
            ok = same(e, f"{rn} @ {pn}({rn})")
            want = "r@precond(r)  (= <d0,d0>_M for d0 = -M^-1 r)"
        else:
            ok = same(e, f"{Dn} @ {Dn}")
            want = "d@d"
        ctx.decide(rule, ok, cg, n.ast, construct=f"initial-dd:{'M' if precond_mode else 'I'}", detail=f"dd0 = {src(e)}",
                   bad_detail=f"initial dd = `{src(e)}`, expected {want}")


# ------------------------------------------------------------------ D2: dogleg

def d2_dogleg(ctx):
    rule = "D2/T1-dogleg"
    dg = ctx.need(f"{ES}:dogleg_step")
    cfg = cfg_of(dg)
    cp, nw, tr, mm = dg.params()
    # named squared norms
    def sq_of(name):
        for n in cfg.nodes:
            if n.kind == "stmt" and isinstance(n.ast, ast.Assign) and isinstance(n.ast.targets[0], ast.Name):
                if same(n.ast.value, f"{name} @ {mm}({name})"):
                    return n.ast.targets[0].id
        return None
    cc, nn = sq_of(cp), sq_of(nw)
    tt = None
    for n in cfg.nodes:
        if n.kind == "stmt" and isinstance(n.ast, ast.Assign) and isinstance(n.ast.targets[0], ast.Name) and \
                (same(n.ast.value, f"{tr}*{tr}") or same(n.ast.value, f"{tr}**2")):
            tt = n.ast.targets[0].id
    if not (cc and nn and tt):
        ctx.undecided(rule, dg, None, construct="squared-norms", detail=f"cc={cc} nn={nn} tt={tt}")
        return
    def facts_of(r):
        out = []
        for (c, l) in cfg.edge_facts(r):
            if c.kind == "cond":
                for (a, pol) in cond_atoms(c.ast, l):
                    out.append((a, pol))
        return out
    def implies_le(facts, a, b):
        """facts imply a <= b (a, b variable names)"""
        for (f, pol) in facts:
            if isinstance(f, ast.Compare) and len(f.ops) == 1 and isinstance(f.left, ast.Name) and isinstance(f.comparators[0], ast.Name):
                l, r_, op = f.left.id, f.comparators[0].id, type(f.ops[0]).__name__
                if not pol:
                    op = {"Gt": "LtE", "GtE": "Lt", "Lt": "GtE", "LtE": "Gt"}[op]
                if (l, r_) == (a, b) and op in ("Lt", "LtE"):
                    return True
                if (l, r_) == (b, a) and op in ("Gt", "GtE"):
                    return True
        return False
    for r in cfg.returns():
        v = r.ast.value
        fs = facts_of(r)
        if isinstance(v, ast.Name) and v.id == cp:
            ok = implies_le(fs, cc, tt)
            ctx.decide(rule, ok, dg, r.ast, construct="return-cauchy-point", detail="Cauchy point returned only when inside the region",
                       bad_detail="the Cauchy point can be returned without `cc < tt` holding: the step may leave the trust region")
        elif isinstance(v, ast.Name) and v.id == nw:
            ok = implies_le(fs, nn, tt)
            ctx.decide(rule, ok, dg, r.ast, construct="return-newton-point", detail="quasi-Newton point returned only when inside the region",
                       bad_detail="the quasi-Newton point can be returned without `nn <= tt` holding: the step may leave the trust region")
        elif isinstance(v, ast.BinOp) and isinstance(v.op, ast.Mult):
            # cp * sqrt(tt/cc): squared M-norm = s^2 * cc
            s = v.right if same(v.left, cp) else v.left if same(v.right, cp) else None
            A = Algebra()
            ok = None
            if s is not None:
                try:
                    S = A.lower(s)
                    ok = A.equal(A.norm(S * S * A.atom(cc)), A.atom(tt))
                except NotPolynomial:
                    ok = None
            okg = any(pol and isinstance(f, ast.Compare) and same(f, f"{cc} >= {tt}") for (f, pol) in fs)
            ctx.decide(rule, (ok and okg) if ok is not None else None, dg, r.ast, construct="return-scaled-cauchy-point",
                       detail=f"|{src(v)}|^2_M = {tt} under {cc} >= {tt}",
                       bad_detail=f"scaled Cauchy point `{src(v)}`: squared norm does not normalise to {tt}, or it is not returned under `{cc} >= {tt}`")
        elif isinstance(v, ast.Call) and isinstance(v.func, ast.Name) and v.func.id == "preconditioned_project_to_boundary":
            pp_ = ctx.need(f"{ES}:preconditioned_project_to_boundary").params()
            a = [actual(v, pp_, p_) for p_ in pp_]
            ok = len(a) == 5 and all(x is not None for x in a) and same(a[0], cp) and same(a[1], f"{nw} - {cp}") and same(a[2], tr) and same(a[3], cc) and same(a[4], mm)
            # guard: Cauchy point inside and Newton point outside (either spelling of the negated test)
            okg = implies_le(fs, cc, tt) and (any(pol and same(f, f"{nn} > {tt}") for (f, pol) in fs) or
                                             any((not pol) and same(f, f"{nn} <= {tt}") for (f, pol) in fs) or implies_le(fs, tt, nn))
            ctx.decide(rule, ok and okg, dg, r.ast, construct="return-dogleg-boundary-point",
                       detail="boundary point on cp + tau (newton - cp), cp inside, newton outside",
                       bad_detail=f"dogleg boundary point `{src(v)[:100]}` does not start at the Cauchy point along (newton - cauchy) with zz = cc, "
                                  f"or is not taken exactly when cp is inside and the Newton point outside")
        else:
            ctx.undecided(rule, dg, r.ast, construct=f"return:{src(v)[:40]}", detail="unrecognised dogleg return")


def d2_cauchy(ctx):
    rule = "D2/T8-cauchy-direction"
    trm = ctx.need(f"{ES}:trust_region_minimize")
    cfg = cfg_of(trm)
    # the variable handed to dogleg_step as Cauchy point
    cpname = None
    radius = None
    for c in calls_in(trm):
        if isinstance(c.func, ast.Name) and c.func.id == "dogleg_step" and c.args and isinstance(c.args[0], ast.Name):
            cpname = c.args[0].id
            if len(c.args) > 2 and isinstance(c.args[2], ast.Name):
                radius = c.args[2].id
    # the gradient: the local defined by a call of the objective's gradient method
    aliases = {st.targets[0].id for st in ast.walk(trm.node) if isinstance(st, ast.Assign) and isinstance(st.targets[0], ast.Name)
               and isinstance(st.value, ast.Attribute) and st.value.attr == "gradient"}
    gnames = {st.targets[0].id for st in ast.walk(trm.node) if isinstance(st, ast.Assign) and isinstance(st.targets[0], ast.Name)
              and isinstance(st.value, ast.Call) and ((isinstance(st.value.func, ast.Attribute) and st.value.func.attr == "gradient")
                                                      or (isinstance(st.value.func, ast.Name) and st.value.func.id in aliases))}
    if cpname is None:
        raise Incomplete("dogleg_step call not found in trust_region_minimize")
    defs = [n for n in cfg.nodes if n.kind == "stmt" and any(cc == cpname for (cc, w) in cfg.defs_of(n))]
    for k_, n in enumerate(defs):
        a = n.ast
        facts = []
        for (c, l) in cfg.edge_facts(n):
            if c.kind == "cond":
                for (at, pol) in cond_atoms(c.ast, l):
                    facts.append((at, pol))
        def resolver(name, n=n):
            d = single_def(cfg, n, name)
            return def_value(d, name) if d is not None else None
        env = SignEnv(facts, assumptions={radius or "trSize": "+"}, expander=resolver)
        if isinstance(a, ast.Assign):
            v = a.value
            # coefficient of g
            coef = None
            if isinstance(v, ast.BinOp) and isinstance(v.op, ast.Mult):
                for x, y in ((v.left, v.right), (v.right, v.left)):
                    if isinstance(y, ast.Name) and y.id in gnames:
                        coef = x
                    elif isinstance(y, ast.UnaryOp) and isinstance(y.op, ast.USub) and isinstance(y.operand, ast.Name) and y.operand.id in gnames:
                        coef = ast.UnaryOp(op=ast.USub(), operand=x)
            if coef is None:
                ctx.undecided(rule, trm, a, construct=f"cauchy-def:{k_}", detail=f"`{src(a)[:60]}` is not a multiple of the gradient")
                continue
            s = env.sign(coef)
            ok = True if is_nonpos(s) else (None if s == TOP else False)
            ctx.decide(rule, ok, trm, a, construct=f"cauchy-coefficient:def{k_}",
                       detail=f"coefficient of g has sign {s} ({'; '.join(env.used[-2:])})",
                       bad_detail=f"Cauchy point `{src(a)}`: coefficient of the gradient has sign {s}; it must be <= 0 (steepest descent)")
        elif isinstance(a, ast.AugAssign) and isinstance(a.op, ast.Mult):
            s = env.sign(a.value)
            ok = True if s in ("+", "0+") else (None if s == TOP else False)
            ctx.decide(rule, ok, trm, a, construct=f"cauchy-rescale:def{k_}", detail=f"rescaled by a factor of sign {s}",
                       bad_detail=f"Cauchy point rescaled by `{src(a.value)}` of sign {s}: direction may flip")


# ------------------------------------------------------------------ D3: index-space types

class TypeErr(Exception):
    pass


SC, TOPT = "Scalar", "?"


def _vec(a):
    return ("Vec", a)


def _mat(a, b):
    return ("Mat", a, b)


class SpaceTyper:
    """Types: 'Scalar', ('Vec', axis), ('Mat', row axis, col axis), '?'.  Axes: 'S' (space), 'M' (mode)."""

    def __init__(self, ctx, scope, env, report):
        self.ctx = ctx
        self.scope = scope
        self.env = dict(env)
        self.report = report      # callable(node, message)
        self.checked = 0

    def ty(self, e):
        t = self._ty(e)
        return t

    def _elementwise(self, e, a, b):
        if a == TOPT or b == TOPT:
            return TOPT
        if a == SC:
            return b
        if b == SC:
            return a
        if a == b:
            return a
        self.report(e, f"elementwise operation between {self.show(a)} and {self.show(b)}")
        return TOPT

    @staticmethod
    def show(t):
        if t == SC or t == TOPT:
            return t
        if t[0] == "Vec":
            return f"vector over {'space' if t[1] == 'S' else 'eigen-modes'}"
        return f"matrix [{t[1]},{t[2]}]"

    def _matmul(self, e, a, b):
        self.checked += 1
        if TOPT in (a, b):
            return TOPT
        if a == SC or b == SC:
            self.report(e, "matrix product with a scalar")
            return TOPT
        if a[0] == "Vec" and b[0] == "Vec":
            if a[1] != b[1]:
                self.report(e, f"inner product of a {self.show(a)} with a {self.show(b)}")
            return SC
        if a[0] == "Mat" and b[0] == "Vec":
            if a[2] != b[1]:
                self.report(e, f"{self.show(a)} applied to a {self.show(b)} (column axis {a[2]} != {b[1]})")
            return _vec(a[1])
        if a[0] == "Vec" and b[0] == "Mat":
            if a[1] != b[1]:
                self.report(e, f"{self.show(a)} times {self.show(b)}")
            return _vec(b[2])
        if a[0] == "Mat" and b[0] == "Mat":
            if a[2] != b[1]:
                self.report(e, f"{self.show(a)} times {self.show(b)}")
            return _mat(a[1], b[2])
        return TOPT

    def _ty(self, e):
        if isinstance(e, ast.Constant):
            return SC
        if isinstance(e, ast.Name):
            return self.env.get(e.id, TOPT)
        if isinstance(e, ast.Attribute):
            if e.attr == "T":
                t = self._ty(e.value)
                if t != TOPT and t != SC and t[0] == "Mat":
                    return _mat(t[2], t[1])
                return t
            return TOPT
        if isinstance(e, ast.UnaryOp):
            return self._ty(e.operand)
        if isinstance(e, ast.BinOp):
            a, b = self._ty(e.left), self._ty(e.right)
            if isinstance(e.op, ast.MatMult):
                return self._matmul(e, a, b)
            if isinstance(e.op, ast.Pow):
                return a
            self.checked += 1
            return self._elementwise(e, a, b)
        if isinstance(e, ast.IfExp):
            a, b = self._ty(e.body), self._ty(e.orelse)
            return a if a == b else self._elementwise(e, a, b)
        if isinstance(e, ast.Compare):
            self._ty(e.left)
            for c in e.comparators:
                self._ty(c)
            return SC
        if isinstance(e, ast.BoolOp):
            for v in e.values:
                self._ty(v)
            return SC
        if isinstance(e, ast.Subscript):
            t = self._ty(e.value)
            if t in (TOPT, SC):
                return TOPT
            idx = e.slice
            if t[0] == "Vec":
                return SC if not isinstance(idx, ast.Slice) else t
            if t[0] == "Mat":
                if isinstance(idx, ast.Tuple) and len(idx.elts) == 2:
                    r_, c_ = idx.elts
                    rs, cs = isinstance(r_, ast.Slice), isinstance(c_, ast.Slice)
                    if rs and not cs:
                        return _vec(t[1])        # column: indexed by the row axis
                    if cs and not rs:
                        return _vec(t[2])        # row
                    if rs and cs:
                        return t
                    return SC
                if isinstance(idx, ast.Slice):
                    return t
                return _vec(t[2])                # v[i] is row i: indexed by the column axis
            return TOPT
        if isinstance(e, ast.Call):
            d = dotted(e.func) or ""
            last = d.split(".")[-1]
            args = [self._ty(a) for a in e.args]
            if last in ("norm", "mean", "sum", "max", "min", "amax", "amin") and args:
                return SC
            if last in ("abs", "sqrt", "sign", "square", "exp", "log", "array", "asarray") and args:
                return args[0]
            if last in ("maximum", "minimum") and len(args) == 2:
                return self._elementwise(e, args[0], args[1])
            if last in ("where", "if_then_else") and len(args) == 3:
                return self._elementwise(e, self._elementwise(e, args[0], args[1]), args[2])
            if last == "dot" and len(args) == 2:
                return self._matmul(e, args[0], args[1])
            # repo function: infer by typing its body with these argument types
            for v in self.ctx.repo.resolve(e.func, self.scope):
                if isinstance(v, FuncVal) and v.scope.kind == "function":
                    env0 = dict(self.env) if v.scope.parent is self.scope else {}      # a nested helper sees the enclosing variables
                    env0.update(dict(zip(v.scope.params(), args)))
                    sub = SpaceTyper(self.ctx, v.scope, env0, self.report)
                    rt = sub.run()
                    self.checked += sub.checked
                    return rt
            return TOPT
        if isinstance(e, ast.Tuple):
            return tuple(["Tuple"] + [self._ty(x) for x in e.elts])
        return TOPT

    def run(self):
        """Type the body; returns the join of return types."""
        rets = []
        self._block(self.scope.node.body, rets)
        rts = [r for r in rets if r != TOPT]
        if not rts:
            return TOPT
        if all(r == rts[0] for r in rts):
            return rts[0]
        return TOPT

    def _block(self, body, rets):
        for st in body:
            if isinstance(st, ast.Assign):
                t = self._ty(st.value)
                for tg in st.targets:
                    if isinstance(tg, ast.Name):
                        self.env[tg.id] = t
                    elif isinstance(tg, ast.Tuple):
                        if (dotted(st.value.func) if isinstance(st.value, ast.Call) else "") in ("eigh", "np.linalg.eigh", "jax.numpy.linalg.eigh"):
                            a = self._ty(st.value.args[0])
                            ax = a[1] if a not in (TOPT, SC) and a[0] == "Mat" else "S"
                            self.env[tg.elts[0].id] = _vec("M")
                            self.env[tg.elts[1].id] = _mat(ax, "M")
                        elif isinstance(t, tuple) and t and t[0] == "Tuple":
                            for x, tt in zip(tg.elts, t[1:]):
                                if isinstance(x, ast.Name):
                                    self.env[x.id] = tt
            elif isinstance(st, ast.AugAssign):
                if isinstance(st.target, ast.Name):
                    a = self.env.get(st.target.id, TOPT)
                    b = self._ty(st.value)
                    self.env[st.target.id] = self._elementwise(st, a, b)
            elif isinstance(st, ast.Return):
                rets.append(self._ty(st.value) if st.value is not None else TOPT)
            elif isinstance(st, ast.If):
                self._ty(st.test)
                self._block(st.body, rets)
                self._block(st.orelse, rets)
            elif isinstance(st, (ast.While,)):
                self._ty(st.test)
                self._block(st.body, rets)
            elif isinstance(st, ast.For):
                self._block(st.body, rets)
            elif isinstance(st, ast.Expr):
                self._ty(st.value)


def d3_types(ctx):
    rule = "D3/T9-index-space-types"
    sv = ctx.need(f"{TE}:solve")
    ps = sv.params()
    errors = []

    def report(node, msg):
        errors.append((node, msg))
    ty = SpaceTyper(ctx, sv, {ps[0]: _mat("S", "S"), ps[1]: _vec("S"), ps[2]: SC}, report)
    # type each return separately to give one obligation per exit
    rets = []
    ty._block(sv.node.body, rets)
    seen = set()
    for (node, msg) in errors:
        key = src(node)
        if key in seen:
            continue
        seen.add(key)
        ctx.refuted(rule, sv, node, construct=f"type-error:{key[:60]}",
                    detail=f"`{key[:80]}`: {msg} (sig, v = eigh(A): v has space rows and eigen-mode columns)")
    n_ret = 0
    for st in ast.walk(sv.node):
        if isinstance(st, ast.Return):
            n_ret += 1
    for i, rt in enumerate(rets):
        ok = rt == _vec("S")
        bad = rt != TOPT and not ok
        if not errors or ok:
            ctx.decide(rule, True if ok else (False if bad else None), sv, None, construct=f"return#{i}-is-space-vector",
                       detail=f"return {i} has type {SpaceTyper.show(rt)}",
                       bad_detail=f"return {i} of treigen.solve has type {SpaceTyper.show(rt)}, not a vector over space")
    ctx.extra_cov["treigen_typed_operations"] = ty.checked
    if ty.checked < 15:
        ctx.undecided(rule, sv, None, construct="typed-operations", detail=f"only {ty.checked} operations typed")
    if not errors:
        ctx.proved(rule, sv, None, construct="all-operations-type-check", detail=f"{ty.checked} products/elementwise operations type-check")


def d3_hard_case_multiplier(ctx):
    """In the hard case the step is p + tau*z with z a unit eigenvector; tau must satisfy
    |p + tau z|^2 = Delta^2, i.e. tau^2 + 2 (p.z) tau + p.p - Delta^2 = 0, and be finite when p.z = 0
    (p is orthogonal to z in the exact hard case)."""
    rule = "D3/T7-hard-case-multiplier"
    from optilint.expr import feval
    sv = ctx.need(f"{TE}:solve")
    cfg = cfg_of(sv)
    Delta = sv.params()[2]
    found = 0
    for r in cfg.returns():
        v = r.ast.value
        if not (isinstance(v, ast.BinOp) and isinstance(v.op, ast.Add)):
            continue
        tau = None
        pn = zn = None
        for a, b in ((v.left, v.right), (v.right, v.left)):
            if isinstance(a, ast.Name) and isinstance(b, ast.BinOp) and isinstance(b.op, ast.Mult):
                for t, z in ((b.left, b.right), (b.right, b.left)):
                    if isinstance(z, ast.Name) and isinstance(t, ast.Name):
                        # z is the one defined by subscripting the eigenvector matrix
                        zd = single_def(cfg, r, z.id)
                        if zd is not None and isinstance(def_value(zd, z.id), ast.Subscript):
                            tau, pn, zn = t, a.id, z.id
        if tau is None:
            continue
        found += 1
        te = expand(cfg, r, tau, stop=(pn, zn))
        # sign-like sub-expressions -> atom with s^2 = 1 ; np.sign(x) may be 0
        import copy
        signs = []

        class Rep(ast.NodeTransformer):
            def visit_Call(self, c):
                self.generic_visit(c)
                d = (dotted(c.func) or "").split(".")[-1]
                if d == "where" and len(c.args) == 3 and {const_value(c.args[1]), const_value(c.args[2])} == {1.0, -1.0}:
                    signs.append(("where", c))
                    return ast.Name(id="sgn__", ctx=ast.Load())
                if d == "sign" and len(c.args) == 1:
                    signs.append(("sign", c))
                    return ast.Name(id="sgn__", ctx=ast.Load())
                return c
        te2 = Rep().visit(copy.deepcopy(te))
        A = Algebra(vector_atoms={pn, zn})
        A.rules["sgn__"] = Poly.const(1)
        try:
            T = A.lower(te2)
            pz = A._bilinear(ast.Name(id=pn, ctx=ast.Load()), ast.Name(id=zn, ctx=ast.Load()))
            pp = A._bilinear(ast.Name(id=pn, ctx=ast.Load()), ast.Name(id=pn, ctx=ast.Load()))
            lhs = A.norm(T * T + A.const(2) * pz * T + pp)
            ok = A.equal(lhs, A.lower(ast.parse(f"{Delta}*{Delta}", mode="eval").body))
            ctx.decide(rule, ok, sv, r.ast, construct="hard-case-step-on-boundary",
                       detail="tau^2 + 2 (p.z) tau + p.p normalises to Delta^2 (unit eigenvector, sign^2 = 1)",
                       bad_detail=f"|p + tau z|^2 normalises to {lhs!r}, not Delta^2")
        except NotPolynomial as ex:
            ctx.undecided(rule, sv, r.ast, construct="hard-case-step-on-boundary", detail=str(ex))
        # finiteness at p.z = 0
        if any(k == "sign" for (k, c) in signs):
            ctx.refuted(rule, sv, r.ast, construct="hard-case-multiplier-finite-at-orthogonality",
                        detail="the multiplier uses np.sign(p@z), which is 0 when p is orthogonal to the eigenvector (the exact hard case): "
                               "tau = (Delta^2-p.p)/(0 + 0*sqrt(.)) is a division by zero")
        else:
            ctx.proved(rule, sv, r.ast, construct="hard-case-multiplier-finite-at-orthogonality",
                       detail="sign factor is +-1 for every argument")
    if found == 0:
        ctx.undecided(rule, sv, None, construct="hard-case-return", detail="no `p + tau*z` return found")


def d3_pole_offset(ctx):
    """Boundary case of the exact solver: the multiplier iteration starts at -(smallest eigenvalue) + offset; the offset must be
    non-negative for every matrix, otherwise the start lies on the wrong side of the pole for matrices of negative trace."""
    rule = "D3/T8-pole-offset-nonnegative"
    from optilint.absdom import SignEnv, is_nonneg
    sv = ctx.need(f"{TE}:solve")
    cfg = cfg_of(sv)
    eig = [n for n in cfg.nodes if n.kind == "stmt" and isinstance(n.ast, ast.Assign) and isinstance(n.ast.value, ast.Call)
           and (dotted(n.ast.value.func) or "").split(".")[-1] in ("eigh", "eig") and isinstance(n.ast.targets[0], ast.Tuple)]
    if len(eig) != 1:
        ctx.undecided(rule, sv, None, construct="eigen-decomposition", detail="`values, vectors = eigh(A)` not found")
        return
    vals = eig[0].ast.targets[0].elts[0].id
    # role of the multiplier: the scalar that shifts the spectrum (`values + lam`)
    shifts = set()
    for x in ast.walk(sv.node):
        if isinstance(x, ast.BinOp) and isinstance(x.op, ast.Add):
            for a, b in ((x.left, x.right), (x.right, x.left)):
                if isinstance(a, ast.Name) and a.id == vals and isinstance(b, ast.Name):
                    shifts.add(b.id)
    shifts = {x for x in shifts if x not in sv.params() or True}

    def terms(e, sgn=1, out=None):
        out = [] if out is None else out
        if isinstance(e, ast.BinOp) and isinstance(e.op, (ast.Add, ast.Sub)):
            terms(e.left, sgn, out)
            terms(e.right, sgn if isinstance(e.op, ast.Add) else -sgn, out)
        elif isinstance(e, ast.UnaryOp) and isinstance(e.op, ast.USub):
            terms(e.operand, -sgn, out)
        else:
            out.append((sgn, e))
        return out
    found = 0
    for n in cfg.nodes:
        if n.kind != "stmt" or not isinstance(n.ast, ast.Assign) or n.loops:
            continue
        if not any(isinstance(t, ast.Name) and t.id in shifts for t in n.ast.targets):
            continue
        vs = [n.ast.value.body, n.ast.value.orelse] if isinstance(n.ast.value, ast.IfExp) else [n.ast.value]
        for v in vs:
            if const_value(v) == 0:
                continue                # the multiplier starts at zero when the matrix is safely positive definite
            ev_ = expand(cfg, n, v, stop=(vals,))
            ts = terms(ev_)
            pole = [k for k, (sg_, t) in enumerate(ts) if sg_ == -1 and same(t, f"{vals}[0]")]
            if len(pole) != 1:
                continue
            rest = [x for k, x in enumerate(ts) if k != pole[0]]
            if not rest:
                off = ast.Constant(value=0)
            else:
                off = None
                for (sg_, t) in rest:
                    t2 = t if sg_ == 1 else ast.UnaryOp(op=ast.USub(), operand=t)
                    off = t2 if off is None else ast.BinOp(left=off, op=ast.Add(), right=t2)
                ast.fix_missing_locations(off)
            found += 1
            sg = SignEnv().sign(off)
            ok = True if is_nonneg(sg) else None
            wit = ""
            if ok is None:
                w = _vec_eval(off, {vals: [-3.0, -2.0, -1.0]})
                if w is not None and w < 0:
                    ok, wit = False, f"{w:.3g} for eigenvalues (-3, -2, -1)"
            ctx.decide(rule, ok, sv, n.ast, construct="initial-multiplier-offset", detail=f"offset `{src(off)}` is non-negative for every spectrum",
                       bad_detail=f"`{src(n.ast)}`: the offset `{src(off)}` is {wit}: for a matrix of negative trace the boundary iteration starts "
                                  f"below the pole -lambda_min and converges to a stationary point that is not the minimiser")
    if not found:
        ctx.undecided(rule, sv, None, construct="initial-multiplier-offset", detail="initial multiplier `-lambda_min + offset` not found")


def _vec_eval(e, env):
    """tiny evaluator for scalar expressions over one list-valued name (mean/abs/sum/max/min, + - * /)"""
    try:
        if isinstance(e, ast.Constant):
            return float(e.value)
        if isinstance(e, ast.Name):
            return env[e.id]
        if isinstance(e, ast.UnaryOp) and isinstance(e.op, ast.USub):
            v = _vec_eval(e.operand, env)
            return [-x for x in v] if isinstance(v, list) else -v
        if isinstance(e, ast.BinOp):
            a, b = _vec_eval(e.left, env), _vec_eval(e.right, env)
            f = {ast.Add: lambda x, y: x + y, ast.Sub: lambda x, y: x - y, ast.Mult: lambda x, y: x * y, ast.Div: lambda x, y: x / y}[type(e.op)]
            if isinstance(a, list) and isinstance(b, list):
                return [f(x, y) for x, y in zip(a, b)]
            if isinstance(a, list):
                return [f(x, b) for x in a]
            if isinstance(b, list):
                return [f(a, y) for y in b]
            return f(a, b)
        if isinstance(e, ast.Call):
            last = (dotted(e.func) or "").split(".")[-1]
            v = _vec_eval(e.args[0], env)
            if last in ("abs", "absolute", "fabs"):
                return [abs(x) for x in v] if isinstance(v, list) else abs(v)
            if last in ("mean", "average"):
                return sum(v) / len(v)
            if last == "sum":
                return sum(v)
            if last in ("max", "amax"):
                return max(v)
            if last in ("min", "amin"):
                return min(v)
        if isinstance(e, ast.Subscript) and isinstance(e.slice, ast.Constant):
            return _vec_eval(e.value, env)[e.slice.value]
    except (KeyError, TypeError, ZeroDivisionError, IndexError, ValueError):
        return None
    return None


def variants(repo):
    from optilint.selftest import Variant, sub, sub_in_func, alpha_rename, reformat
    E = "optimism/EquationSolver.py"
    S = "optimism/EquationSolverSubspace.py"
    T = "optimism/treigen/treigen.py"
    return [
        Variant("-zd -> +zd in projection", E, sub_in_func("project_to_boundary_with_coefs", "- zd)/dd", "+ zd)/dd"), "D1/T7-boundary-norm-identity"),
        Variant("trSize**2 -> trSize", E, sub_in_func("project_to_boundary", "(trSize**2-zz)*dd", "(trSize-zz)*dd"), "D1/T7-boundary-norm-identity"),
        Variant("preconditioned projection mixes norms", E, sub_in_func("preconditioned_project_to_boundary", "    dd = np.dot(d,Pd)", "    dd = np.dot(d,d)"), "D1/T7-boundary-norm-identity"),
        Variant("subspace projection sign", S, sub_in_func("project_to_boundary_with_coefs", "- zd)/dd", "+ zd)/dd"), "D1/T7-boundary-norm-identity"),
        Variant("step length update", E, sub_in_func("update_step_length_squared", "2*alpha*zd", "alpha*zd"), "D1/T7-boundary-norm-identity"),
        Variant("stale rPr in recurrence", E,
                lambda s: None if s.count("        rPr = rPrNp1\n        d = -Pr + beta*d\n\n        zz = zzNp1\n        zd, dd = cg_inner_products(alpha, beta, zd, dd, rPr, z, d)\n") != 1 else
                s.replace("        rPr = rPrNp1\n        d = -Pr + beta*d\n\n        zz = zzNp1\n        zd, dd = cg_inner_products(alpha, beta, zd, dd, rPr, z, d)\n",
                          "        d = -Pr + beta*d\n\n        zz = zzNp1\n        zd, dd = cg_inner_products(alpha, beta, zd, dd, rPr, z, d)\n        rPr = rPrNp1\n"),
                "D1/T7-recurrences"),
        Variant("dd recurrence without beta^2", E, sub_in_func("cg_inner_products_preconditioned", "dd = rPr + beta*beta*dd", "dd = rPr + beta*dd"), "D1/T7-recurrences"),
        Variant("boundary exit returns unprojected", E,
                sub_in_func("solve_trust_region_minimization", "            return zOut, cauchyP, boundaryString, i+1", "            return zNp1, cauchyP, boundaryString, i+1"), "D1/T1-labelled-exits"),
        Variant("negcurve guard flipped", E, sub_in_func("solve_trust_region_minimization", "        if curvature <= 0:", "        if curvature >= 0:"), "D1/T1-labelled-exits"),
        Variant("dogleg guards swapped", E, sub_in_func("dogleg_step", "    if nn > tt:", "    if nn < tt:"), "D2/T1-dogleg"),
        Variant("dogleg returns cp outside", E, sub_in_func("dogleg_step", "    if cc >= tt:", "    if cc >= 2*tt:"), "D2/T1-dogleg"),
        Variant("dogleg scaled point wrong", E, sub_in_func("dogleg_step", "return cp * np.sqrt(tt/cc)", "return cp * (tt/cc)"), "D2/T1-dogleg"),
        Variant("dogleg from origin", E, sub_in_func("dogleg_step", "                                                  newtonP-cp,", "                                                  newtonP,"), "D2/T1-dogleg"),
        Variant("cauchy point uphill", E, sub_in_func("trust_region_minimize", "            alpha = -(g@g) / gKg", "            alpha = (g@g) / gKg"), "D2/T8-cauchy-direction"),
        Variant("v[0] row", T, sub("        z = v[:,0]", "        z = v[0]"), "D3/T9-index-space-types"),
        Variant("v.T@ where v@ is meant", T, sub("        p = -v@(bv/(sig+lam))", "        p = -v.T@(bv/(sig+lam))"), "D3/T9-index-space-types"),
        Variant("b/sig", T, sub("norm(bv/sig) < Delta", "norm(b/sig) < Delta"), "D3/T9-index-space-types"),
        Variant("pole offset follows the sign of the trace", T, sub("    sigScale = np.mean( np.abs(sig) )", "    sigScale = np.mean(sig)"), "D3/T8-pole-offset-nonnegative"),
        Variant("pole offset negative", T, sub("    eps = 1e-12 * sigScale", "    eps = -1e-12 * sigScale"), "D3/T8-pole-offset-nonnegative"),
        Variant("np.sign in hard case", T, sub("pzSign = np.where(pz >= 0, 1.0, -1.0)", "pzSign = np.sign(pz)"), "D3/T7-hard-case-multiplier"),
        Variant("hard case multiplier wrong root", T, sub("tau = ddmpp / (pz + pzSign*np.sqrt(pz*pz + ddmpp))", "tau = ddmpp / (pz + pzSign*np.sqrt(pz*pz - ddmpp))"), "D3/T7-hard-case-multiplier"),
        Variant("reformat EquationSolver", E, reformat(), None),
        Variant("reformat treigen", T, reformat(), None),
        Variant("alpha-rename treigen.solve", T, alpha_rename("solve"), None),
        Variant("alpha-rename dogleg", E, alpha_rename("dogleg_step"), None),
        Variant("alpha-rename project_to_boundary", E, alpha_rename("project_to_boundary"), None),
        Variant("alpha-rename CG", E, alpha_rename("solve_trust_region_minimization"), None),
    ]
