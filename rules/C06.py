"""C06 -- trust-region subproblem steps: radius, Cauchy decrease, hard case (structural clauses).

All clauses except the index-space typing are decided by *symbolic interpretation* (rules/C06_sym.py): the solvers are run on formal
vectors / symmetric operators / symbolic scalars, every comparison forks the path, the CG loop is analysed from a generalised head
state (base = state on entry, step = state at the back edge).  Obligations are identities and implications on the resulting values;
nothing refers to local names, statement shapes, helper names or idioms (only the public interface: function names, parameter
positions, the step-type constants, the Settings field that selects the inner product).

  D1  *boundary steps have norm equal to the radius, the iterate stays inside.*  For the public projection helpers the returned point is
      z + tau d with  <z,z> + 2 tau <z,d> + tau^2 <d,d> = Delta^2  under the helper's contract (algebraic atom for the root) and tau is the
      forward root; update_step_length_squared is the expansion of <z+ad, z+ad>.  For each CG solver and each inner-product mode the scalars
      that track <z,z>, <z,d>, <d,d> are *found* (the assignment of carried scalars to Gram products under which a boundary exit has
      norm Delta); they must hold on entry and be advanced correctly: directly in the Euclidean mode, by the published (Gould et al.)
      recurrences  zd' = b (zd + a dd),  dd' = <r',P r'> + b^2 dd  in the preconditioned mode, where a, b, r' are read off the *values* of
      the new iterate and direction.  Every exit reported as boundary / negative curvature returns a point of norm Delta (in the mode's
      norm), the negative-curvature one under <d,Hd> <= 0, the boundary one when the tentative step leaves the region; a step is only
      taken along positive curvature; the iterate stays inside; interior exits return a point whose own residual passed the tolerance test;
  D2  dogleg: every returned point lies inside the region and on the path origin -> Cauchy point -> quasi-Newton point (decided from
      the path facts: identities, convex-quadratic intermediate value argument, numeric witnesses for refutation); the Cauchy point
      handed to the dogleg step is a non-positive multiple of the model gradient on every path;
  D3  eigen-solver: index-space typing of treigen.solve (v : [space, mode]); the hard-case step p + tau z has norm Delta with a multiplier
      that stays finite when p is orthogonal to z; the initial multiplier is -lambda_min + (offset >= 0 for every spectrum).
Not decided: model decrease >= Cauchy decrease, Newton residual accuracy of the preconditioned recurrences (they rely on the CG
orthogonality invariants, trusted), secular iteration accuracy, global optimality of the eigen solution.
"""
from __future__ import annotations

import ast
import math
from itertools import permutations
from fractions import Fraction

from optilint.model import dotted, FuncVal
from optilint.core import Incomplete
from optilint.expr import Rat, Poly
from optilint.tensoreval import Dual, Closure, EvalError, rat_const, R, ONE, ZERO
from .common import src
from .C06_sym import (SymInterp, SymObj, FV, MV, MatSym, LinOp, Sample, SampleInvalid, EVAL_ERRORS, Budget, atom, rat, nrm, req, subst,
                      atoms_of, rkey, snapshot_leaves, fact_ge, implies_nonneg, S)

LEVEL = "other"
RULE_TEXT = ("obligations = (projection helper x {ray, norm identity, forward root}) + (CG solver x mode x {exit point, exit guard, tracked Gram "
             "scalars on entry / advanced, recurrences}) + (dogleg return x {inside, on path}) + (Cauchy point case x sign) + "
             "(expression in treigen.solve x index-space type) + (hard-case return x {on boundary, finite}) + (initial multiplier x offset sign)")
EXPLANATION = ("Static analysis of EquationSolver.py, EquationSolverSubspace.py, treigen/treigen.py by symbolic interpretation: formal vectors "
               "with Gram atoms, symmetric operator words, algebraic square-root atoms, path forking on comparisons, generalised loop head "
               "with base/step states; obligations are identities / implications on the computed values, refutations carry the differing value "
               "or a numeric witness of the extracted formula; plus an index-space type system for the eigen solver.  Optimality of steps is not decided.")

ES = "optimism.EquationSolver"
ESS = "optimism.EquationSolverSubspace"
TE = "optimism.treigen.treigen"
MODE_FLAG = "use_preconditioned_inner_product_for_cg"


def run(ctx):
    for m in (ES, ESS, TE):
        ctx.need_module(m)
    _guard(ctx, d1_projections)
    _guard(ctx, d1_cg_solvers)
    _guard(ctx, d1_subspace_call_contract)
    _guard(ctx, d2_dogleg)
    _guard(ctx, d2_cauchy)
    _guard(ctx, d3_types)
    _guard(ctx, d3_eigen_solver)
    ctx.trust("numpy.linalg.eigh returns eigenvalues ascending and an orthogonal matrix with the eigenvectors as COLUMNS")
    ctx.trust("Gould, Lucidi, Roma, Toint (1999) recurrences for <z,d>_M and <d,d>_M in preconditioned CG (they rest on the CG orthogonality relations)")
    ctx.assume("trust-region radius > 0")
    ctx.assume("model Hessian, preconditioner and approximate Hessian act as symmetric linear operators; preconditioner and approximate Hessian positive definite")


def _guard(ctx, fn):
    def wrapped(ctx):
        try:
            return fn(ctx)
        except Budget:
            raise
        except EVAL_ERRORS as e:
            raise Incomplete(f"{fn.__name__}: symbolic interpretation failed: {type(e).__name__}: {e}")
    wrapped.__name__ = fn.__name__
    return ctx.guard(wrapped, ctx)


def _touch(ctx, it):
    for q in sorted(it.visited):
        sc = ctx.repo.find(q)
        if sc is not None and "<" not in q:
            ctx.touch(sc)
    for line in it.assumed:
        ctx.assume(line)


def _combine(verdicts):
    """verdicts: [(ok, detail)] -> (ok, detail): refuted if one is refuted, undecided if one is undecided"""
    bad = [d for (o, d) in verdicts if o is False]
    if bad:
        return False, bad[0]
    und = [d for (o, d) in verdicts if o is None]
    if und:
        return None, und[0]
    return (True, verdicts[0][1]) if verdicts else (None, "no path")


def _show(x, n=110):
    s = repr(x)
    return s if len(s) <= n else s[:n] + "..."


# ------------------------------------------------------------------ D1: projection helpers

def _forward_root(it, tau: Rat, setup, n=10):
    """sign of tau at sample points strictly inside the region: +1 / -1 / None.  tau solves the norm equation, the two roots have opposite
    signs inside the region and tau is continuous there, so its sign is the same at every interior point."""
    signs = set()
    for k in range(n):
        smp = Sample(it, seed=101 + k)
        try:
            setup(smp)
            v = smp.value(tau)
        except (SampleInvalid, KeyError, ZeroDivisionError, OverflowError, ValueError):
            continue
        if v != v:
            continue
        signs.add(1 if v > 1e-12 else (-1 if v < -1e-12 else 0))
    if signs == {1}:
        return 1
    if signs == {-1}:
        return -1
    return None


def d1_projections(ctx):
    rule = "D1/T7-boundary-norm-identity"
    it = SymInterp(ctx.repo)
    M = it.op("M", spd=True)
    specs = [(ES, "project_to_boundary", "euclid", 4), (ES, "project_to_boundary_with_coefs", "coefs", 6),
             (ESS, "project_to_boundary_with_coefs", "coefs", 6), (ES, "preconditioned_project_to_boundary", "metric", 5)]
    seen = set()
    n_helpers = 0
    for mod, name, kind, npar in specs:
        f = it.module_attr(mod, name)
        if not isinstance(f, Closure):
            ctx.notes.append(f"{mod}.{name} is not defined: no helper-level obligation (the exits of the solvers are checked on their own)")
            continue
        sc = f.scope
        if sc.qualname in seen:
            continue            # the same function under a second name (imported)
        seen.add(sc.qualname)
        n_helpers += 1
        if len(sc.params()) < npar or sc.n_required() > npar:
            ctx.undecided(rule, sc, None, construct="signature", detail=f"{len(sc.params())} parameters, the public interface has {npar}")
            continue
        z, d = it.vec("z"), it.vec("d")
        Delta = it.scalar("Delta", positive=True)
        zz = it.scalar("zz", nonneg=True)
        az, ad = ((), "z"), ((), "d")
        if kind == "coefs":
            zd, dd = it.scalar("zd"), it.scalar("dd", positive=True)
            args = [z, d, Delta, zz, zd, dd]
            gmap = {it.gram(az, az): zz.a, it.gram(az, ad): zd.a, it.gram(ad, ad): dd.a}
            inner = lambda u, v: it.dot(u, v)
        elif kind == "metric":
            args = [z, d, Delta, zz, M]
            gmap = {it.dot(z, M.apply(z)).a: zz.a}
            inner = lambda u, v: it.dot(u, M.apply(v))
        else:
            args = [z, d, Delta, zz]
            gmap = {it.gram(az, az): zz.a}
            inner = lambda u, v: it.dot(u, v)
        gmap = {next(iter(k.atoms())): v for k, v in gmap.items()}
        paths = it.run_paths(f, args)
        for p in paths:
            if p.kind != "return" or not isinstance(p.value, FV):
                ctx.undecided(rule, sc, p.ret_node, construct="returns-z+tau*d",
                              detail=f"path not interpreted: {p.error or 'returns ' + _show(p.value)}")
                continue
            V = p.value
            node = p.ret_node
            if not set(V.t) <= {az, ad}:
                ctx.undecided(rule, sc, node, construct="returns-z+tau*d", detail=f"returns {_show(V)}: components besides z and d")
                continue
            cz, tau = V.coef(az), V.coef(ad)
            if not req(cz, ONE):
                ctx.refuted(rule, sc, node, construct="returns-z+tau*d",
                            detail=f"returns {_show(V)}: the coefficient of the first argument is {cz!r}, not 1: the result does not lie on the ray from z along d")
                continue
            N2 = subst(inner(V, V).a, gmap)
            ok = req(N2, Delta.a * Delta.a)
            ctx.decide(rule, ok, sc, node, construct="norm-of-result-is-radius",
                       detail="<z,z> + 2 tau <z,d> + tau^2 <d,d> normalises to Delta^2 under the helper's contract",
                       bad_detail=f"|z + tau d|^2 normalises to {_show(N2, 300)}, not Delta^2 (tau = {_show(tau, 160)})")

            def setup(smp, kind=kind):
                zv, dv = smp.vector("z"), smp.vector("d")
                if kind == "metric":
                    m = smp.opmat("M")
                    mv = lambda v: [m[0][0] * v[0] + m[0][1] * v[1], m[1][0] * v[0] + m[1][1] * v[1]]
                else:
                    mv = lambda v: v
                ip = lambda u, v: sum(a * b for a, b in zip(u, mv(v)))
                smp.scalars["zz"] = ip(zv, zv)
                smp.scalars["zd"] = ip(zv, dv)
                smp.scalars["dd"] = ip(dv, dv)
                smp.scalars["Delta"] = math.sqrt(ip(zv, zv)) * (1.2 + smp.rng.uniform(0, 2)) + 0.1
            sg = _forward_root(it, tau, setup)
            ctx.decide(rule, True if sg == 1 else (False if sg == -1 else None), sc, node, construct="forward-root",
                       detail="tau > 0 at interior sample points: the positive root is taken (continues along d)",
                       bad_detail="tau < 0 at interior sample points: the projection goes backwards along d" if sg == -1 else
                                  f"sign of tau = {_show(tau)} not constant / not evaluable at the sample points")
    if n_helpers == 0:
        ctx.undecided(rule, None, None, construct="projection-helpers", detail="none of the public projection helpers is defined")
    # update_step_length_squared = <z + a d, z + a d>
    f = it.module_attr(ES, "update_step_length_squared")
    if isinstance(f, Closure) and len(f.scope.params()) == 4:
        a, zz, zd, dd = it.scalar("alpha"), it.scalar("zz"), it.scalar("zd"), it.scalar("dd")
        for p in it.run_paths(f, [a, zz, zd, dd]):
            if p.kind != "return" or not isinstance(p.value, Dual):
                ctx.undecided(rule, f.scope, p.ret_node, construct="update_step_length_squared", detail=f"path not interpreted: {p.error}")
                continue
            want = zz.a + R(2) * a.a * zd.a + a.a * a.a * dd.a
            ctx.decide(rule, req(p.value.a, want), f.scope, p.ret_node, construct="update_step_length_squared",
                       detail="zz + 2 a zd + a^2 dd",
                       bad_detail=f"update_step_length_squared returns {_show(p.value)}, not the expansion zz + 2 a zd + a^2 dd of <z+a d, z+a d>")
    else:
        ctx.notes.append("update_step_length_squared not defined with 4 parameters: covered by the tracked-scalar obligations of the CG solver")
    _touch(ctx, it)


# ------------------------------------------------------------------ D1: the CG solvers

class _CG:
    """symbolic runs of one truncated-CG solver and the roles read off the values"""

    def __init__(self, ctx, which):
        self.ctx = ctx
        it = self.it = SymInterp(ctx.repo)
        H = it.op("H")
        P = it.op("P", inverse="Pinv", spd=True)
        self.H, self.P, self.Pinv = H, P, LinOp("Pinv", it)
        if which == "STM":
            sc = ctx.need(f"{ES}:solve_trust_region_minimization")
            ps = sc.params()
            if len(ps) < 6 or sc.n_required() > 6:
                raise Incomplete(f"{sc.qualname} has {len(ps)} parameters, the public interface has 6")
            g = it.vec(ps[1])
            args = [it.vec(ps[0]), g, H, P, it.scalar(ps[4], positive=True), SymObj(ps[5])]
            self.Delta, self.settings = atom(ps[4]), ps[5]
        else:
            sc = ctx.need(f"{ESS}:trust_region_cg")
            ps = sc.params()
            if len(ps) < 8 or sc.n_required() > 8:
                raise Incomplete(f"{sc.qualname} has {len(ps)} parameters, the public interface has 8")
            g = it.vec(ps[1])
            Pg = P.apply(g)
            args = [it.vec(ps[0]), g, Pg, H.apply(Pg), H, P, it.scalar(ps[6], positive=True), SymObj(ps[7])]
            self.Delta, self.settings = atom(ps[6]), ps[7]
        self.sc, self.grad = sc, g
        self.flag = f"{self.settings}.{MODE_FLAG}"
        self.paths = it.run_paths(it.fn(sc), args)
        lab = lambda n: it.module_attr(ES, n)
        self.lab_neg, self.lab_bnd, self.lab_int = lab("negCurveString"), lab("boundaryString"), lab("interiorString")
        if not all(isinstance(x, str) for x in (self.lab_neg, self.lab_bnd, self.lab_int)):
            raise Incomplete("step-type constants negCurveString / boundaryString / interiorString are not string constants of EquationSolver")
        self.on_bnd = it.module_attr(ES, "is_on_boundary")
        self._classify()
        self._roles()

    # ---- helpers
    def mode(self, p):
        for f in p.facts:
            if nrm(f.d).atoms() == {self.flag} and req(f.d, atom(self.flag)):
                return "M" if f.rel == "!=" else ("I" if f.rel == "==" else None)
        return None

    def inner(self, m):
        if m == "M":
            return lambda u, v: self.it.dot(u, self.Pinv.apply(v)).a
        return lambda u, v: self.it.dot(u, v).a

    def is_boundary_label(self, lab):
        if isinstance(self.on_bnd, Closure):
            try:
                return bool(self.it.call(self.on_bnd, [lab], {}))
            except EVAL_ERRORS:
                pass
        return lab in (self.lab_neg, self.lab_bnd)

    def loop_rec(self, p):
        for lk, L in p.loops.items():
            return lk, L
        return None, None

    def where(self, p):
        lk, L = self.loop_rec(p)
        if L is None:
            return "pre"
        for ev in p.events:
            if ev[0] == "loop" and ev[1] == L["name"]:
                return "in" if ev[2] == "enter" else "post"
        return "pre"

    def _classify(self):
        self.exits, self.backs, self.errors, self.odd = [], [], [], []
        for p in self.paths:
            if p.kind == "error":
                self.errors.append(p)
            elif p.kind == "backedge":
                self.backs.append(p)
            elif p.kind == "return":
                v = p.value
                labs = [x for x in v[1:] if isinstance(x, str)] if isinstance(v, tuple) else []
                if isinstance(v, tuple) and v and isinstance(v[0], FV) and labs:
                    p.step, p.label = v[0], labs[0]
                    self.exits.append(p)
                else:
                    self.odd.append(p)
            else:
                self.odd.append(p)
        self.modes = sorted({self.mode(p) for p in self.paths if self.mode(p)}) or ["I"]
        self.has_modes = any(self.mode(p) for p in self.paths)

    def pmode(self, p):
        return self.mode(p) or ("I" if not self.has_modes else None)

    def _roles(self):
        it = self.it
        inloop = [p for p in self.exits + self.backs if self.where(p) == "in"]
        self.hv, self.hs = {}, {}
        self.loop_key = None
        if not inloop:
            return
        lk, L = self.loop_rec(inloop[0])
        self.loop_key = lk
        for pth, val in snapshot_leaves(L["head"]).items():
            if isinstance(val, FV) and len(val.t) == 1:
                (a, c), = val.t.items()
                if a[0] == () and req(c, ONE):
                    self.hv[pth] = a[1]
            elif isinstance(val, Dual):
                ats = nrm(val.a).atoms()
                if len(ats) == 1 and req(val.a, atom(next(iter(ats)))):
                    self.hs[pth] = next(iter(ats))
        self.leaf_of = {v: k for k, v in list(self.hv.items()) + list(self.hs.items())}
        hsyms = set(self.hv.values())
        # iterate / direction: a boundary-type exit returns  1*Z + tau*D  over head vectors
        cands = {}
        for p in self.exits:
            if self.where(p) == "in" and self.is_boundary_label(p.label):
                V = p.step
                ats = list(V.t)
                if len(ats) == 2 and all(a[0] == () and a[1] in hsyms for a in ats):
                    ones = [a for a in ats if req(V.t[a], ONE)]
                    if len(ones) == 1:
                        Z = ones[0][1]
                        D = [a for a in ats if a is not ones[0]][0][1]
                        cands[(Z, D)] = cands.get((Z, D), 0) + 1
        if not cands:
            for p in self.backs:
                lv = snapshot_leaves(p.snapshot)
                for pth, Z in self.hv.items():
                    zn = lv.get(pth)
                    if isinstance(zn, FV) and len(zn.t) == 2 and req(zn.coef(((), Z)), ONE):
                        other = [a for a in zn.t if a != ((), Z)][0]
                        if other[0] == () and other[1] in hsyms:
                            dn = lv.get(self.leaf_of[other[1]])
                            if isinstance(dn, FV) and not dn.coef(other).n.is_zero():
                                cands[(Z, other[1])] = cands.get((Z, other[1]), 0) + 1
        self.Z = self.D = None
        if cands:
            (self.Z, self.D), _ = max(cands.items(), key=lambda kv: kv[1])
        # residual: the carried vector that is the gradient argument on entry
        self.Rsym = None
        for pth, s in self.hv.items():
            e0 = snapshot_leaves(L["entry"]).get(pth)
            if isinstance(e0, FV) and e0.same(self.grad):
                self.Rsym = s
        # step data per mode from the back-edge states
        self.step = {}
        for p in self.backs:
            m = self.pmode(p)
            if m is None or self.Z is None:
                continue
            lv = snapshot_leaves(p.snapshot)
            zn, dn = lv.get(self.leaf_of[self.Z]), lv.get(self.leaf_of[self.D])
            if not (isinstance(zn, FV) and isinstance(dn, FV)):
                continue
            aZ, aD = ((), self.Z), ((), self.D)
            a = zn.coef(aD)
            st = {"path": p, "leaves": lv, "z": zn, "d": dn, "a": a, "z_ok": zn.same(FV({aZ: ONE, aD: a}))}
            b = dn.coef(aD)
            W = dn.add(FV({aD: b}), -1)
            st["b"] = b
            rho = None
            if W.t and all(w and w[0] == "P" for (w, s) in W.t):
                rho = FV({(w[1:], s): -c for (w, s), c in W.t.items()})
            st["rho"] = rho
            self.step.setdefault(m, []).append(st)
        # Gram-tracking scalars per mode
        self.mu = {}
        for m in self.modes:
            self.mu[m] = self._find_mu(m)

    def gram_names(self, m):
        ip = self.inner(m)
        Z, D = FV.sym(self.Z), FV.sym(self.D)
        out = []
        for (u, v) in ((Z, Z), (Z, D), (D, D)):
            r = nrm(ip(u, v))
            out.append(next(iter(r.atoms())))
        return out

    def _find_mu(self, m):
        """{gram atom: Rat} -- what the code uses for <z,z>, <z,d>, <d,d> of the loop-head iterate / direction: the assignment under
        which a boundary-type exit has norm Delta.  Normally three loop-carried scalars; one of the three may also be an expression that is
        *solved* from the exit identity (it is affine in each Gram product), e.g. a constant.  {} when no tracked scalar is needed."""
        if self.Z is None:
            return None
        ip = self.inner(m)
        G = self.gram_names(m)
        want = self.Delta * self.Delta
        hs = list(self.hs.values())
        cands = []
        for p in self.exits:
            if self.where(p) != "in" or not self.is_boundary_label(p.label) or self.pmode(p) not in (m, None):
                continue
            V = p.step
            if not set(V.t) <= {((), self.Z), ((), self.D)}:
                continue
            N2 = nrm(ip(V, V))
            if req(N2, want):
                return {}
            cands.append(N2)
        for N2 in cands:
            used = [h for h in hs if h in atoms_of(N2)]
            # each Gram product is tracked by a carried scalar or computed directly from the current vectors (None)
            opts = [None] + used
            combos = [(x, y, w) for x in opts for y in opts for w in opts
                      if len({v for v in (x, y, w) if v is not None}) == len([v for v in (x, y, w) if v is not None])]
            combos.sort(key=lambda c: sum(v is None for v in c))
            for c in combos:
                mp = {g: atom(h) for g, h in zip(G, c) if h is not None}
                if mp and req(subst(N2, mp), want):
                    return mp
        # fall back on the step law  s1' = s1 + 2 a s2 + a^2 s3  (squared length of z + a d)
        for st in self.step.get(m, []):
            a = st["a"]
            for perm in permutations(hs, 3):
                s1, s2, s3 = (atom(h) for h in perm)
                v = st["leaves"].get(self.leaf_of[perm[0]])
                if isinstance(v, Dual) and not a.n.is_zero() and req(v.a, s1 + R(2) * a * s2 + a * a * s3):
                    return {g: atom(h) for g, h in zip(G, perm)}
        # two carried scalars, the third Gram product solved from the exit identity
        for N2 in cands:
            used = [h for h in hs if h in atoms_of(N2)]
            for k in range(3):
                others = [g for i, g in enumerate(G) if i != k]
                for perm in permutations(used, 2):
                    mp = {g: atom(h) for g, h in zip(others, perm)}
                    e = subst(N2, mp)
                    if e.d != Poly.const(1) and G[k] in e.d.atoms():
                        continue
                    if e.n.degree_in(G[k]) != 1:
                        continue
                    A_ = Rat(e.n.diff(G[k]), e.d)
                    B_ = nrm(e - A_ * atom(G[k]))
                    if A_.n.is_zero():
                        continue
                    sol = nrm((want - B_) / A_)
                    ats = atoms_of(sol)
                    if any(x.startswith("sqrt[") or x in self.it.gram_info for x in ats) or (nrm(self.Delta).atoms() & ats):
                        continue
                    mp[G[k]] = sol
                    return mp
        return None

    def mu_map(self, m):
        return self.mu.get(m)

    def at_state(self, e: Rat, leaves):
        """value of an expression over loop-head scalars in another state (entry / back edge): head atoms replaced by that state's leaves"""
        mp = {}
        for h in set(self.hs.values()) & atoms_of(e):
            v = leaves.get(self.leaf_of[h])
            if isinstance(v, bool) or not isinstance(v, (Dual, int, float)):
                return None
            mp[h] = rat(v)
        return subst(e, mp)

    def head_atoms(self):
        return set(self.hs.values())

    def has_head(self, r: Rat):
        """does the value depend on the loop state (head scalars, Gram atoms over head vectors)?"""
        hs, hv = set(self.hs.values()), set(self.hv.values())
        for a in atoms_of(r):
            if a in hs:
                return True
            info = self.it.gram_info.get(a)
            if info and (info[0] in hv or info[2] in hv):
                return True
        return False


def _ratio_const(e: Rat, want: Rat):
    """c with e == c * want (a rational constant), else None"""
    want = nrm(want)
    if want.n.is_zero():
        return None
    return rat_const(nrm(e / want))


def _fact_about(facts, want: Rat, root_of=None):
    """[(direction, fact)]: facts that bound `want`: direction '+' means the fact says want > 0 / >= 0, '-' means want < 0 / <= 0.
    root_of = (it, Delta): also read  sqrt(q) - Delta  as a statement about  q - Delta^2  (both sides non-negative)"""
    out = []
    for f in facts:
        if f.rel in ("==", "!="):
            continue
        c = _ratio_const(f.d, want)
        if (c is None or c == 0) and root_of is not None:
            it_, Dl = root_of
            for sgn in (1, -1):
                lhs = nrm((f.d if sgn > 0 else -f.d) + Dl)          # candidate sqrt(q)
                s_ = it_.sign_of(lhs)
                if s_ is not None and s_ >= 0 and any(x.startswith("sqrt[") for x in lhs.atoms()):
                    c2 = _ratio_const(nrm(lhs * lhs - Dl * Dl), want)
                    if c2 is not None and c2 > 0:
                        c = Fraction(sgn)
                        break
        if c is None or c == 0:
            continue
        pos = f.rel in (">", ">=")
        if c < 0:
            pos = not pos
        out.append(("+" if pos else "-", f))
    return out


def d1_cg_solvers(ctx):
    for which in ("STM", "TRCG"):
        try:
            cg = _CG(ctx, which)
        except Incomplete as e:
            ctx.undecided("D1/T1-labelled-exits", None, None, construct=f"{which}: solver not analysable", detail=str(e))
            continue
        _cg_obligations(ctx, cg, which)
        _touch(ctx, cg.it)


def _cg_obligations(ctx, cg, which):
    rule = "D1/T1-labelled-exits"
    rrule = "D1/T7-recurrences"
    it, sc = cg.it, cg.sc
    D2 = cg.Delta * cg.Delta
    seen_err = set()
    for p in cg.errors + cg.odd:
        msg = p.error or f"path ends with {p.kind}: {_show(p.value)}"
        if msg not in seen_err:
            seen_err.add(msg)
            ctx.undecided(rule, sc, p.ret_node, construct="path-not-interpreted", detail=msg)
    if which == "STM" and cg.modes != ["I", "M"]:
        ctx.undecided(rule, sc, None, construct="inner-product-modes",
                      detail=f"paths found for the modes {cg.modes}; both settings of {MODE_FLAG} must be analysed")
    if cg.Z is None:
        ctx.undecided(rule, sc, None, construct="iterate-and-direction", detail="no exit returning 1*z + tau*d over loop-carried vectors and no such step at the back edge")
        return
    aZ, aD = ((), cg.Z), ((), cg.D)
    Zv, Dv = FV.sym(cg.Z), FV.sym(cg.D)
    kappa = it.dot(Dv, cg.H.apply(Dv)).a
    # carried scalars that hold the curvature <d,Hd> of the current direction (base + step)
    curv = [kappa]
    lk = cg.loop_key
    for pth, h in cg.hs.items():
        ok = bool(cg.backs)
        for p in cg.backs:
            L = p.loops[lk]
            e0 = snapshot_leaves(L["entry"])
            d0, s0 = e0.get(cg.leaf_of[cg.D]), e0.get(pth)
            lv = snapshot_leaves(p.snapshot)
            d1, s1 = lv.get(cg.leaf_of[cg.D]), lv.get(pth)
            if not (isinstance(d0, FV) and isinstance(d1, FV) and isinstance(s0, (Dual, int, float)) and isinstance(s1, Dual)):
                ok = False
                break
            if not (req(rat(s0), it.dot(d0, cg.H.apply(d0)).a) and req(s1.a, it.dot(d1, cg.H.apply(d1)).a)):
                ok = False
                break
        if ok:
            curv.append(atom(h))

    def facts_in_loop(p):
        L = p.loops.get(lk)
        return p.facts[L["facts_at_entry"]:] if L else []

    def curvature_facts(p):
        out = []
        for k in curv:
            out += _fact_about(facts_in_loop(p), k)
        return out

    def sqnorm(V, m):
        mp = cg.mu_map(m)
        if mp is None:
            return None
        return subst(cg.inner(m)(V, V), mp)

    def only_ZD(V):
        return set(V.t) <= {aZ, aD}

    def step_length(m):
        for st in cg.step.get(m, []):
            return st["a"]
        for p in cg.exits:
            if cg.where(p) == "in" and p.label == cg.lab_int and cg.pmode(p) in (m, None) and only_ZD(p.step) and req(p.step.coef(aZ), ONE):
                return p.step.coef(aD)
        return None

    def modes_of(p):
        m = cg.pmode(p)
        return [m] if m else list(cg.modes)

    # ---------------- exits
    groups = {}
    for p in cg.exits:
        groups.setdefault((id(p.ret_node), p.label), []).append(p)
    n_lab = 0
    for (rid, label), ps in groups.items():
        node = ps[0].ret_node
        n_lab += 1
        if cg.is_boundary_label(label):
            kind = "negcurve" if label == cg.lab_neg else "boundary"
            vs = []
            for p in ps:
                if cg.where(p) != "in":
                    vs.append((None, f"exit labelled {label!r} outside the CG loop"))
                    continue
                for m in modes_of(p):
                    N2 = sqnorm(p.step, m)
                    if N2 is None:
                        vs.append((None, f"the scalars tracking <z,z>, <z,d>, <d,d> could not be identified in mode {m}"))
                    elif req(N2, D2):
                        vs.append((True, f"mode {m}: |{_show(p.step, 70)}|^2 = Delta^2"))
                    elif only_ZD(p.step):
                        vs.append((False, f"exit labelled {label!r} returns `{_show(p.step, 120)}` whose squared norm (mode {m}) is {_show(N2, 200)}, "
                                          f"not Delta^2: the point is not the projection onto the trust-region boundary"))
                    else:
                        vs.append((None, f"returned point {_show(p.step)} has components besides the iterate and the direction"))
            ok, det = _combine(vs)
            ctx.decide(rule, ok, sc, node, construct=f"{kind}-exit-returns-projection", detail=det, bad_detail=det)
            vs = []
            for p in ps:
                if cg.where(p) != "in":
                    continue
                if kind == "negcurve":
                    fs = curvature_facts(p)
                    if any(dr == "-" for dr, f in fs):
                        vs.append((True, "under <d,Hd> <= 0"))
                    elif fs:
                        vs.append((False, f"the exit labelled negative-curvature is reached with <d,Hd> {fs[0][1].rel} 0 "
                                          f"(path fact `{_show(fs[0][1])}`), not under <d,Hd> <= 0"))
                    else:
                        vs.append((None, "no path fact about the curvature <d,Hd> of the current direction"))
                else:
                    for m in modes_of(p):
                        a = step_length(m)
                        q = sqnorm(FV({aZ: ONE, aD: a}), m) if a is not None else None
                        if q is None:
                            vs.append((None, "tentative step not identified"))
                            continue
                        fs = _fact_about(facts_in_loop(p), q - D2, root_of=(it, cg.Delta))
                        if any(dr == "+" for dr, f in fs):
                            vs.append((True, f"mode {m}: under |z + a d|^2 > Delta^2"))
                        elif fs:
                            vs.append((False, f"the exit labelled boundary is taken under `{_show(fs[0][1])}`: the tentative step z + a d is then inside the region (mode {m})"))
                        else:
                            vs.append((None, f"no path fact compares the squared length of the tentative step z + a d with Delta^2 (mode {m})"))
            ok, det = _combine(vs)
            ctx.decide(rule, ok, sc, node, construct=f"{kind}-exit-guard", detail=det, bad_detail=det)
        elif label == cg.lab_int:
            vs, vin = [], []
            for p in ps:
                w = cg.where(p)
                V = p.step
                if w == "pre":
                    rho = cg.grad.add(cg.H.apply(V))
                    facts = p.facts
                elif w == "in" and cg.Rsym is not None:
                    rho = FV.sym(cg.Rsym).add(cg.H.apply(V.add(Zv, -1)))
                    facts = facts_in_loop(p)
                else:
                    vs.append((None, "interior exit after the loop / residual vector not identified"))
                    continue
                mm = it.dot(rho, rho).a
                hit = None
                for f in facts:
                    g = fact_ge(f)
                    if g is None or f.rel not in ("<", "<="):
                        continue
                    t = nrm(mm - f.d)
                    # the fact is  |residual|^2 - t < 0  with a tolerance t that does not depend on the loop state
                    if not cg.has_head(t) and not (nrm(t).atoms() & nrm(mm).atoms()) and (nrm(f.d).atoms() & nrm(mm).atoms()):
                        hit = (f, t)
                        break
                    # ... or  |residual| - t < 0  (norm instead of squared norm)
                    try:
                        it.path = p                     # signs known on this path decide how the root is normalised
                        rt = it.sqrt(S(mm)).a
                    except EVAL_ERRORS:
                        continue
                    finally:
                        it.path = None
                    t = nrm(rt - f.d)
                    if not cg.has_head(t) and not (nrm(t).atoms() & nrm(rt).atoms()) and (nrm(f.d).atoms() & nrm(rt).atoms()):
                        hit = (f, t)
                        break
                if hit:
                    vs.append((True, f"returns {_show(V, 60)} under |residual of that point|^2 < {_show(hit[1], 60)}"))
                else:
                    stale = None
                    if w == "in":
                        # is the tolerance test about the residual of another point of this iteration (previous iterate / tentative iterate)?
                        others = [("the previous iterate", Zv)]
                        for m in modes_of(p):
                            a = step_length(m)
                            if a is not None:
                                others.append(("the tentative iterate z + a d", FV({aZ: ONE, aD: a})))
                        for (what, X) in others:
                            if X.same(V):
                                continue
                            rx = FV.sym(cg.Rsym).add(cg.H.apply(X.add(Zv, -1)))
                            m0 = it.dot(rx, rx).a
                            if req(m0, mm):
                                continue
                            for f in facts:
                                t = nrm(m0 - f.d)
                                if f.rel in ("<", "<=") and not cg.has_head(t) and not (nrm(t).atoms() & nrm(m0).atoms()) and (nrm(f.d).atoms() & nrm(m0).atoms()):
                                    stale = (f, what)
                    if stale is not None:
                        vs.append((False, f"exit labelled interior returns {_show(V, 80)} but the tolerance test `{_show(stale[0])}` is about the residual "
                                          f"of {stale[1]}, not of the returned point"))
                    else:
                        vs.append((None, f"no path fact bounds the squared residual {_show(mm, 80)} of the returned point by a loop-independent tolerance"))
                # inside the region
                if w == "pre":
                    vin.append((True, "zero step") if V.is_zero() else (None, f"pre-loop interior exit returns {_show(V)}"))
                elif w == "in":
                    for m in modes_of(p):
                        if V.same(Zv):
                            vin.append((True, "returns the loop-head iterate (inside by the loop invariant)"))
                            continue
                        q = sqnorm(V, m)
                        if q is None or not only_ZD(V):
                            vin.append((None, "squared norm of the returned point not expressible in the tracked scalars"))
                            continue
                        fs = _fact_about(facts, q - D2, root_of=(it, cg.Delta))
                        if any(dr == "-" for dr, f in fs):
                            vin.append((True, f"mode {m}: under |step|^2 <= Delta^2"))
                        elif fs:
                            vin.append((False, f"exit labelled interior returns {_show(V, 80)} under `{_show(fs[0][1])}`: the step is outside the trust region (mode {m})"))
                        else:
                            vin.append((None, f"no path fact bounds the squared norm of the returned point by Delta^2 (mode {m})"))
            ok, det = _combine(vs)
            ctx.decide(rule, ok, sc, node, construct="interior-exit", detail=det, bad_detail=det)
            if vin:
                ok, det = _combine(vin)
                ctx.decide(rule, ok, sc, node, construct="interior-exit-inside-region", detail=det, bad_detail=det)
        else:
            vs = []
            for p in ps:
                if p.step.same(Zv) and cg.where(p) == "post":
                    vs.append((True, f"label {label!r} (iteration cap): returns the current iterate"))
                else:
                    vs.append((None, f"exit labelled {label!r} returns {_show(p.step)}"))
            ok, det = _combine(vs)
            ctx.decide(rule, ok, sc, node, construct="iteration-cap-exit", detail=det, bad_detail=det)
    if n_lab < 3:
        ctx.undecided(rule, sc, None, construct="labelled-exits", detail=f"{n_lab} labelled exits found")

    # ---------------- a step is taken only along positive curvature; the iterate stays inside
    vs, vin = [], []
    for p in cg.backs:
        fs = curvature_facts(p)
        if any(dr == "+" and f.rel in (">", "<") for dr, f in fs):
            vs.append((True, "the iteration continues only under <d,Hd> > 0"))
        elif any(dr == "-" for dr, f in fs):
            vs.append((False, f"the iterate is advanced along d under `{_show([f for dr, f in fs if dr == '-'][0])}`: a step along a direction of non-positive curvature"))
        elif any(dr == "+" for dr, f in fs):
            # only <d,Hd> >= 0 is known: zero curvature continues.  A definite defect when the step length divides by it.
            divides = None
            for m in modes_of(p):
                sts = [s_ for s_ in cg.step.get(m, []) if s_["path"] is p]
                a_ = sts[0]["a"] if sts else None
                if isinstance(a_, Rat) and not a_.d.is_const():
                    for k_ in curv:
                        t_ = nrm(a_ * k_)
                        if t_.d.is_const():
                            divides = (m, a_)
            if divides is not None:
                f0 = [f for dr, f in fs if dr == "+"][0]
                vs.append((False, f"the iteration continues under `{_show(f0)}` only (zero curvature is not excluded) and the step length {_show(divides[1], 80)} divides by <d,Hd>: "
                                  f"for a singular model Hessian the step is not finite"))
            else:
                vs.append((None, "the continuing path only knows <d,Hd> >= 0 and the step length is not readable as a quotient by <d,Hd>"))
        else:
            vs.append((None, "no path fact about <d,Hd> on the continuing path"))
        for m in modes_of(p):
            sts = [s for s in cg.step.get(m, []) if s["path"] is p]
            if not sts:
                vin.append((None, "back-edge state not readable"))
                continue
            q = sqnorm(sts[0]["z"], m)
            if q is None or not only_ZD(sts[0]["z"]):
                vin.append((None, f"squared norm of the new iterate not expressible in the tracked scalars (mode {m})"))
                continue
            fs2 = _fact_about(facts_in_loop(p), q - D2, root_of=(it, cg.Delta))
            if any(dr == "-" for dr, f in fs2):
                vin.append((True, f"mode {m}: the new iterate satisfies |z'|^2 <= Delta^2"))
            elif fs2:
                vin.append((False, f"the iteration continues under `{_show(fs2[0][1])}`: the new iterate is outside the trust region (mode {m})"))
            else:
                vin.append((None, f"no path fact bounds |z'|^2 by Delta^2 on the continuing path (mode {m})"))
    if cg.backs:
        ok, det = _combine(vs)
        ctx.decide(rule, ok, sc, None, construct="step-only-on-positive-curvature", detail=det, bad_detail=det)
        ok, det = _combine(vin)
        ctx.decide(rule, ok, sc, None, construct="iterate-stays-inside", detail=det, bad_detail=det)
    else:
        ctx.undecided(rule, sc, None, construct="back-edge", detail="no path reaches the back edge of the CG loop")

    # ---------------- the carried residual is the model gradient at the iterate: r = g + H z  (base: r0 = g, z0 = 0; step: r' - r = H (z' - z))
    if cg.Rsym is not None and cg.backs:
        vs = []
        for p in cg.backs:
            lv = snapshot_leaves(p.snapshot)
            e0 = snapshot_leaves(p.loops[lk]["entry"])
            r1, z1 = lv.get(cg.leaf_of[cg.Rsym]), lv.get(cg.leaf_of[cg.Z])
            r0, z0 = e0.get(cg.leaf_of[cg.Rsym]), e0.get(cg.leaf_of[cg.Z])
            if not all(isinstance(x, FV) for x in (r1, z1, r0, z0)):
                vs.append((None, "residual / iterate not readable at the back edge"))
                continue
            if not r0.same(cg.grad.add(cg.H.apply(z0))):
                vs.append((False, f"on entry the residual is {_show(r0, 80)} but the model gradient at the initial iterate {_show(z0, 40)} is g + H z0"))
                continue
            want = FV.sym(cg.Rsym).add(cg.H.apply(z1.add(Zv, -1)))
            if r1.same(want):
                vs.append((True, "r' = r + H (z' - z): the residual stays the model gradient g + H z at the iterate"))
            else:
                vs.append((False, f"the residual becomes {_show(r1, 120)} while the iterate moves by {_show(z1.add(Zv, -1), 80)}: it must change by H (z' - z) "
                                  f"to remain the model gradient g + H z (the interior test is made on it)"))
        ok, det = _combine(vs)
        ctx.decide(rule, ok, sc, None, construct="residual-is-model-gradient", detail=det, bad_detail=det)

    # ---------------- tracked Gram scalars: base and step
    for m in cg.modes:
        mp = cg.mu.get(m)
        tag = m if cg.has_modes else "I"
        if mp is None:
            ctx.undecided(rule, sc, None, construct=f"tracked-inner-products:{tag}", detail="no assignment of carried scalars to <z,z>, <z,d>, <d,d> makes a boundary exit have norm Delta")
            continue
        if not mp:
            ctx.proved(rule, sc, None, construct=f"tracked-inner-products:{tag}", detail="the exits compute <z,z>, <z,d>, <d,d> from the current z, d (no tracked scalars)")
            continue
        G = cg.gram_names(m)
        ip = cg.inner(m)
        sts = cg.step.get(m, [])
        if not sts:
            ctx.undecided(rule, sc, None, construct=f"tracked-inner-products:{tag}", detail="no back-edge state in this mode")
            continue
        for st in sts:
            p = st["path"]
            L = p.loops[lk]
            e0 = snapshot_leaves(L["entry"])
            z0, d0 = e0.get(cg.leaf_of[cg.Z]), e0.get(cg.leaf_of[cg.D])
            names = ("zz", "zd", "dd")
            pairs0 = ((z0, z0), (z0, d0), (d0, d0))
            zn, dn, a, b = st["z"], st["d"], st["a"], st["b"]
            pairs1 = ((zn, zn), (zn, dn), (dn, dn))
            mpr = cg.mu_map(m)
            tracked = {nm: mp.get(G[k], atom(G[k])) for k, nm in enumerate(names)}
            for k, nm in enumerate(names):
                if G[k] not in mp:
                    continue            # computed from the current vectors where it is used
                v0 = cg.at_state(tracked[nm], e0)
                if isinstance(z0, FV) and isinstance(d0, FV) and v0 is not None:
                    want0 = ip(*pairs0[k])
                    ctx.decide(rule, req(v0, want0), sc, None, construct=f"initial-{nm}:{tag}",
                               detail=f"on entry the tracked value is {_show(v0, 60)} = <.,.> of the initial z, d in the mode's inner product",
                               bad_detail=f"on entry the value used for {nm} is {_show(v0, 80)}, but the inner product of the initial vectors is {_show(want0, 80)} (mode {m})")
                else:
                    ctx.undecided(rule, sc, None, construct=f"initial-{nm}:{tag}", detail="entry state not readable")
            # step
            v1 = {nm: (cg.at_state(tracked[nm], st["leaves"]) if G[k] in mp else ip(*pairs1[k])) for k, nm in enumerate(names)}
            if any(v is None for v in v1.values()) or not st["z_ok"]:
                ctx.undecided(rule, sc, None, construct=f"zz-advanced:{tag}", detail="back-edge state not readable / iterate not of the form z + a d")
                continue
            v1 = {nm: S(v) for nm, v in v1.items()}
            zzA, zdA, ddA = (tracked[nm] for nm in names)
            want_zz = zzA + R(2) * a * zdA + a * a * ddA
            ctx.decide(rule, req(subst(v1["zz"].a, mpr), want_zz), sc, None, construct=f"zz-advanced:{tag}",
                       detail="zz' = zz + 2 a zd + a^2 dd = <z + a d, z + a d> for the step length a of the new iterate",
                       bad_detail=f"the value used for <z,z> is {_show(v1['zz'], 160)} in the next iteration; for the new iterate z + a d (a = {_show(a, 60)}) "
                                  f"it must be zz + 2 a zd + a^2 dd = {_show(nrm(want_zz), 160)}")
            if m == "I":
                for nm, (u, v) in (("zd", (zn, dn)), ("dd", (dn, dn))):
                    want = subst(ip(u, v), mpr)
                    got = subst(v1[nm].a, mpr)
                    ok = req(got, want)
                    det = f"{nm}' = <{'z' if nm == 'zd' else 'd'}',d'> of the new iterate / direction"
                    bad = f"Euclidean mode: the scalar tracking {nm} becomes {_show(got, 160)}, not the inner product of the new {'iterate and ' if nm == 'zd' else ''}direction"
                    if not ok:
                        # diagnosis: a stale operand
                        olds = {"z": Zv, "d": Dv}
                        for who, old in olds.items():
                            u2 = old if (who == "z" and nm == "zd") else u
                            v2 = old if who == "d" else v
                            if who == "d" and nm == "dd":
                                u2 = old
                            if req(got, subst(ip(u2, v2), mpr)):
                                bad += f": it is computed from the {who} of the previous iteration (stale operand)"
                    ctx.decide(rrule, ok, sc, None, construct=f"{nm}-direct", detail=det, bad_detail=bad)
                    if ok:
                        for who in (("z", "d") if nm == "zd" else ()):
                            ctx.proved(rrule, sc, None, construct=f"recurrence-argument-current:{who}", detail=f"the new {who} enters {nm}'")
            else:
                rho = st["rho"]
                want_zd = b * (zdA + a * ddA)
                ok_zd = req(subst(v1["zd"].a, mpr), want_zd)
                bad = f"<z,d>_M recurrence gives {_show(v1['zd'], 200)}, expected b (zd + a dd) with a, b the coefficients of d in the new iterate / direction"
                ctx.decide(rrule, ok_zd, sc, None, construct="zd-recurrence", detail="zd' = b (zd + a dd)", bad_detail=bad)
                if rho is None:
                    ctx.undecided(rrule, sc, None, construct="dd-recurrence", detail=f"new direction {_show(dn)} is not -P(r') + b d")
                    continue
                rPr = it.dot(rho, cg.P.apply(rho)).a
                want_dd = rPr + b * b * ddA
                ok_dd = req(subst(v1["dd"].a, mpr), subst(want_dd, mpr))
                bad = f"<d,d>_M recurrence gives {_show(v1['dd'], 200)}, expected <r',P r'> + b^2 dd for the new direction -P r' + b d"
                if not ok_dd and cg.Rsym is not None:
                    R0 = FV.sym(cg.Rsym)
                    stale = it.dot(R0, cg.P.apply(R0)).a
                    # the carried scalar holding <r,P r> of the previous residual
                    cand = [stale] + [atom(h) for h in cg.hs.values()]
                    for c in cand:
                        if req(v1["dd"].a, c + b * b * ddA):
                            bad += f": the residual term is {_show(c, 60)}, a value from before this iteration's update (stale quantity)"
                            break
                    if req(v1["dd"].a, rPr + b * ddA):
                        bad += ": dd is multiplied by b instead of b^2"
                ctx.decide(rrule, ok_dd, sc, None, construct="dd-recurrence", detail="dd' = <r',P r'> + b^2 dd", bad_detail=bad)
                if ok_zd and ok_dd:
                    for who in ("rPr", "alpha", "beta"):
                        ctx.proved(rrule, sc, None, construct=f"recurrence-argument-current:{who}",
                                   detail="the recurrences use this iteration's step length a, direction weight b and residual r'")
                    for who in ("zd", "dd"):
                        ctx.proved(rrule, sc, None, construct=f"recurrence-argument-previous:{who}",
                                   detail="the recurrences start from the previous iteration's tracked values")


# ------------------------------------------------------------------ D2: dogleg

def _witness(it, facts, setup, bad, n=240, seed0=7):
    """a numeric instance of the extracted formulas in which every path fact holds and `bad(sample)` is true -> (description, sample)"""
    for k in range(n):
        smp = Sample(it, seed=seed0 + k)
        try:
            setup(smp)
            # free flags / scalars that a fact pins down directly
            for f in facts:
                d = nrm(f.d)
                ats = d.atoms()
                if len(ats) == 1:
                    a_ = next(iter(ats))
                    if a_ not in it.gram_info and a_ not in it.atom_eval and not a_.startswith("sqrt[") and a_ not in smp.scalars and req(d, atom(a_)):
                        smp.scalars[a_] = {"==": 0.0, "!=": 1.0, ">": smp.rng.uniform(0.2, 2), ">=": smp.rng.uniform(0.2, 2),
                                           "<": -smp.rng.uniform(0.2, 2), "<=": -smp.rng.uniform(0.2, 2)}[f.rel]
            if not all(smp.holds(f) for f in facts):
                continue
            r = bad(smp)
        except (SampleInvalid, KeyError, ZeroDivisionError, OverflowError, ValueError):
            continue
        if r:
            return r, smp
    return None, None


def d2_dogleg(ctx):
    rule = "D2/T1-dogleg"
    it = SymInterp(ctx.repo)
    M = it.op("M", spd=True)
    sc = ctx.need(f"{ES}:dogleg_step")
    ps = sc.params()
    if len(ps) != 4:
        ctx.undecided(rule, sc, None, construct="signature", detail=f"{len(ps)} parameters, the public interface has 4")
        return
    cp, nw = it.vec(ps[0]), it.vec(ps[1])
    Delta = it.scalar(ps[2], positive=True)
    paths = it.run_paths(it.fn(sc), [cp, nw, Delta, M])
    ip = lambda u, v: it.dot(u, M.apply(v)).a
    cc, nn, tt = ip(cp, cp), ip(nw, nw), Delta.a * Delta.a
    aC, aN = ((), ps[0]), ((), ps[1])

    def setup(smp):
        sc_ = smp.rng.choice([0.3, 1.0, 3.0])
        smp.vectors[ps[0]] = [smp.rng.uniform(-2, 2) * sc_, smp.rng.uniform(-2, 2) * sc_]
        smp.vectors[ps[1]] = [smp.rng.uniform(-2, 2), smp.rng.uniform(-2, 2)]
        smp.opmat("M")
        smp.scalars[ps[2]] = smp.rng.choice([0.2, 0.5, 1.0, 2.0, 4.0]) * smp.rng.uniform(0.5, 1.5)

    def val(smp, r):
        return smp.value(r)

    def show_w(smp):
        return (f"Cauchy point {tuple(round(x, 3) for x in smp.vectors[ps[0]])}, quasi-Newton point {tuple(round(x, 3) for x in smp.vectors[ps[1]])}, "
                f"radius {smp.scalars[ps[2]]:.3g}, metric {[[round(x, 3) for x in row] for row in smp.ops['M']]}")

    n_ret = 0
    for p in paths:
        if p.kind != "return" or not isinstance(p.value, FV):
            ctx.undecided(rule, sc, p.ret_node, construct="path-not-interpreted", detail=p.error or f"returns {_show(p.value)}")
            continue
        n_ret += 1
        V, facts, node = p.value, p.facts, p.ret_node
        N2 = ip(V, V)
        if not set(V.t) <= {aC, aN}:
            ctx.undecided(rule, sc, node, construct="return:other", detail=f"unrecognised dogleg return {_show(V)}")
            continue
        a, b = V.coef(aC), V.coef(aN)

        def outside(smp, N2=N2):
            v, t = val(smp, N2), val(smp, tt)
            return f"|step|^2 = {v:.4g} > radius^2 = {t:.4g}" if v > t * (1 + 1e-9) else None

        if V.same(cp) or V.same(nw):
            which = "cauchy" if V.same(cp) else "newton"
            sq = cc if which == "cauchy" else nn
            ok = implies_nonneg(it, facts, tt - sq)
            bad = None
            if not ok:
                w, smp = _witness(it, facts, setup, outside)
                ok = False if w else None
                bad = (f"the {'Cauchy' if which == 'cauchy' else 'quasi-Newton'} point is returned on a path whose conditions {_show(facts, 200)} do not keep it inside: "
                       f"{w} for {show_w(smp)}") if w else f"path conditions {_show(facts, 200)} not shown to imply |point|^2 <= radius^2"
            ctx.decide(rule, ok, sc, node, construct=f"return-{which}-point",
                       detail=f"{'Cauchy' if which == 'cauchy' else 'quasi-Newton'} point returned only when inside the region", bad_detail=bad)
        elif b.n.is_zero():
            # s * cp
            ok_id = req(N2, tt)
            ok_g = implies_nonneg(it, facts, cc - tt)
            sg = it.sign_of(a)
            if ok_id and ok_g and sg is not None and sg >= 0:
                ctx.proved(rule, sc, node, construct="return-scaled-cauchy-point",
                           detail="s*cp with s >= 0, s^2 <cp,cp> = Delta^2 identically, returned under <cp,cp> >= Delta^2 (so s <= 1: on the first leg, on the boundary)")
            else:
                def bad_scaled(smp, a=a, N2=N2):
                    s, v, t = val(smp, a), val(smp, N2), val(smp, tt)
                    if abs(v - t) > 1e-7 * max(t, 1e-30):
                        return f"|s*cp|^2 = {v:.4g} differs from radius^2 = {t:.4g} (s = {s:.4g})"
                    if s < -1e-12 or s > 1 + 1e-9:
                        return f"scale factor s = {s:.4g} outside [0, 1]"
                    return None
                w, smp = _witness(it, facts, setup, bad_scaled)
                ctx.decide(rule, False if w else None, sc, node, construct="return-scaled-cauchy-point",
                           bad_detail=(f"scaled Cauchy point {_show(V)}: {w} for {show_w(smp)}" if w else
                                       f"scaled Cauchy point {_show(V)}: norm identity {ok_id}, guard <cp,cp> >= Delta^2 implied {ok_g}, sign of the factor {sg}"))
        else:
            # a*cp + b*nw : must be cp + tau (nw - cp), tau in [0, 1], on the boundary
            tau = b
            on_line = req(a + b, ONE)
            ok_id = req(N2, tt)
            ok_c = implies_nonneg(it, facts, tt - cc)
            ok_n = implies_nonneg(it, facts, nn - tt)

            def setup_in(smp):
                setup(smp)
                c_ = smp.value(cc)
                smp.scalars[ps[2]] = math.sqrt(c_) * (1.1 + smp.rng.uniform(0, 1.5)) + 1e-3
            sg = _forward_root(it, tau, setup_in) if (on_line and ok_id) else None
            if on_line and ok_id and ok_c and ok_n and sg == 1:
                ctx.proved(rule, sc, node, construct="return-dogleg-boundary-point",
                           detail="cp + tau (newton - cp) with |.|^2 = Delta^2 identically, tau the forward root, returned under <cp,cp> <= Delta^2 <= <newton,newton>: "
                                  "tau in [0,1] by the intermediate value property of the convex quadratic t -> |cp + t (newton - cp)|^2")
            else:
                def bad_dog(smp, a=a, b=b, N2=N2):
                    x, y, v, t = val(smp, a), val(smp, b), val(smp, N2), val(smp, tt)
                    if abs(x + y - 1) > 1e-8:
                        return f"coefficients {x:.4g}*cp + {y:.4g}*newton do not sum to 1: the point is not on the line from the Cauchy point to the quasi-Newton point"
                    if y < -1e-9 or y > 1 + 1e-9:
                        return f"tau = {y:.4g} outside [0, 1]: the point is not between the Cauchy point and the quasi-Newton point"
                    if v > t * (1 + 1e-9):
                        return f"|step|^2 = {v:.4g} > radius^2 = {t:.4g}"
                    return None
                w, smp = _witness(it, facts, setup, bad_dog)
                if w is None and not on_line and only_atoms_understood(it, a + b):
                    w, smp = "the coefficients of cp and newton do not sum to 1 identically", None
                ctx.decide(rule, False if w else None, sc, node, construct="return-dogleg-boundary-point",
                           bad_detail=(f"dogleg point {_show(V, 160)}: {w}" + (f" for {show_w(smp)}" if smp is not None else "")) if w else
                                      f"dogleg point {_show(V, 160)}: on the line {on_line}, norm identity {ok_id}, cp inside implied {ok_c}, newton outside implied {ok_n}, forward root {sg}")
    if n_ret < 2:
        ctx.undecided(rule, sc, None, construct="returns", detail=f"{n_ret} interpreted return paths")
    _touch(ctx, it)


def only_atoms_understood(it, r):
    return all(a in it.gram_info or a.startswith("sqrt[") or a in it.positive for a in atoms_of(r))


# ------------------------------------------------------------------ D2: Cauchy point handed to the dogleg step

def _objective_model(it, name):
    """opaque objective: gradient / value are uninterpreted, hessian_vec(x, .) a symmetric operator per point x, the preconditioner and the
    approximate Hessian symmetric positive definite operators"""
    from optilint.tensoreval import PyFunc
    hops = {}

    def hess_vec(i, args, kw):
        x, v = args[0], args[1]
        k = x.key() if isinstance(x, FV) else repr(x)
        if k not in hops:
            hops[k] = i.op(f"K{len(hops)}")
        return hops[k].apply(v)

    def grad(i, args, kw):
        x = args[0]
        if not isinstance(x, FV):
            raise EvalError("gradient of a non-vector")
        return FV.sym(f"grad[{x.key()}]")

    def value(i, args, kw):
        return i.opaque_scalar("value", [args[0].key()])

    def gat(i, args, kw):
        x = args[0]
        k = x.key()
        if k not in hops:
            hops[k] = i.op(f"K{len(hops)}")
        return grad(i, args, kw), hops[k]
    nothing = PyFunc("effect", lambda i, a, k: None)
    Mop = it.op("M", spd=True)
    Pop = it.op("P", inverse="Pinv", spd=True)
    return SymObj(name, {"gradient": PyFunc("gradient", grad), "value": PyFunc("value", value), "hessian_vec": PyFunc("hessian_vec", hess_vec),
                         "gradient_and_tangent": PyFunc("gradient_and_tangent", gat), "multiply_by_approx_hessian": Mop, "apply_precond": Pop,
                         "update_precond": nothing, "check_stability": nothing}), hops, Pop


def d2_cauchy(ctx):
    rule = "D2/T8-cauchy-direction"
    it = SymInterp(ctx.repo, max_paths=3000)
    it.tolerant = True
    trm = ctx.need(f"{ES}:trust_region_minimize")
    ps = trm.params()
    if len(ps) < 3:
        raise Incomplete("trust_region_minimize signature")
    obj, hops, Pop = _objective_model(it, ps[0])
    calls = {"dogleg": [], "cg": []}
    dg = ctx.need(f"{ES}:dogleg_step")
    stm = ctx.repo.find(f"{ES}:solve_trust_region_minimization")

    def stop_dogleg(i, args, kw):
        from .C06_sym import PathEnd
        names = dg.params()
        full = list(args) + [kw.get(n) for n in names[len(args):]]
        calls["dogleg"].append((full, dict(kw), list(i.path.facts)))
        raise PathEnd("stop", what="dogleg")

    def stub_cg(i, args, kw):
        from optilint.tensoreval import Unknown
        names = stm.params()
        full = list(args) + [kw.get(n) for n in names[len(args):]]
        calls["cg"].append((full, dict(kw)))
        return (FV.sym("qNewton"), FV.sym("cgCauchy"), Unknown("step type of the CG solver"), i.scalar("cgIters", nonneg=True))
    it.stop_calls[dg.qualname] = stop_dogleg
    if stm is not None:
        it.stop_calls[stm.qualname] = stub_cg
    x = it.vec(ps[1])
    args = [obj, x, SymObj(ps[2])]
    paths = it.run_paths(it.fn(trm), args, {})
    errs = sorted({p.error for p in paths if p.kind == "error"})
    for e in errs[:3]:
        ctx.undecided(rule, trm, None, construct="path-not-interpreted", detail=e)
    if not calls["dogleg"]:
        raise Incomplete("no path of trust_region_minimize reaches dogleg_step")
    grads = [a[1] for (a, k) in calls["cg"] if len(a) > 1 and isinstance(a[1], FV)]
    if not grads:
        ctx.undecided(rule, trm, None, construct="model-gradient", detail="no call of the CG subproblem solver from which the model gradient could be read")
        return
    G = grads[0]
    if any(not g.same(G) for g in grads) or len(G.t) != 1:
        ctx.undecided(rule, trm, None, construct="model-gradient", detail="the CG subproblem solver is called with different / composite gradients")
        return
    (ga, gc), = G.t.items()
    seen = {}
    radius_atoms = set()
    for (a, k, facts) in calls["dogleg"]:
        rad = a[2] if len(a) > 2 else k.get(dg.params()[2])
        if isinstance(rad, Dual):
            radius_atoms |= set(nrm(rad.a).atoms())      # the radius is assumed positive
    for (a, k) in calls["cg"]:
        rad = a[4] if len(a) > 4 else None
        if isinstance(rad, Dual):
            radius_atoms |= set(nrm(rad.a).atoms())
    for (a, k, facts) in calls["dogleg"]:
        cpv = a[0] if a else k.get(dg.params()[0])
        if not isinstance(cpv, FV):
            ctx.undecided(rule, trm, None, construct="cauchy-point", detail=f"dogleg_step receives {_show(cpv)} as Cauchy point")
            continue
        if not set(cpv.t) <= {ga}:
            key = "other:" + cpv.key()
            if key not in seen:
                seen[key] = 1
                ctx.undecided(rule, trm, None, construct="cauchy-point-is-multiple-of-gradient",
                              detail=f"the Cauchy point {_show(cpv)} is not a multiple of the model gradient {_show(G)}")
            continue
        c = nrm(cpv.coef(ga) / gc)
        key = rkey(c)
        seen.setdefault(key, {"c": c, "facts": []})["facts"].append(facts)
    k_ = 0
    for key, rec in seen.items():
        if not isinstance(rec, dict):
            continue
        c = rec["c"]
        verdicts = []
        for facts in rec["facts"]:
            pos = set()
            for f in facts:
                g = fact_ge(f)
                if g is not None and g[1]:
                    e = nrm(g[0])
                    if len(e.n.t) == 1 and e.d == Poly.const(1):
                        (m, cf), = e.n.t.items()
                        if cf > 0 and len(m) == 1 and m[0][1] == 1:
                            pos.add(m[0][0])
            s = it.sign_of(c, pos | radius_atoms)
            if s is not None and s <= 0:
                verdicts.append((True, f"coefficient of the gradient {_show(c, 80)} is <= 0"))
                continue

            def setup(smp):
                for a_ in radius_atoms:
                    smp.scalars.setdefault(a_, smp.rng.uniform(0.2, 3))

            def bad(smp, c=c):
                v = smp.value(c)
                return f"coefficient = {v:.4g} > 0" if v > 1e-12 else None
            w, smp = _witness(it, facts, setup, bad)
            if w:
                verdicts.append((False, f"Cauchy point = ({_show(c, 120)}) * gradient: {w} at a sample satisfying the path conditions {_show(facts, 160)}; "
                                        f"it must be a non-positive multiple of the gradient (steepest descent)"))
            else:
                verdicts.append((None, f"sign of the coefficient {_show(c, 120)} not decided under {_show(facts, 160)}"))
        ok, det = _combine(verdicts)
        ctx.decide(rule, ok, trm, None, construct=f"cauchy-coefficient:case{k_}", detail=det, bad_detail=det)
        k_ += 1
    _touch(ctx, it)



def d1_subspace_call_contract(ctx):
    """trust_region_cg is analysed under the contract Pr = precond(r), HPr = hess_vec_func(Pr); here the call in
    trust_region_subspace_minimize is checked against it (by value).  When the driver cannot be interpreted the contract stays an assumption."""
    rule = "D1/T1-labelled-exits"
    from .C06_sym import PathEnd
    drv = ctx.repo.find(f"{ESS}:trust_region_subspace_minimize")
    cgs = ctx.repo.find(f"{ESS}:trust_region_cg")
    if drv is None or cgs is None or len(drv.params()) < 3:
        return
    it = SymInterp(ctx.repo, max_paths=400)
    it.tolerant = True
    obj, hops, Pop = _objective_model(it, drv.params()[0])
    calls = []

    def stop(i, args, kw):
        names = cgs.params()
        calls.append(list(args) + [kw.get(n) for n in names[len(args):]])
        raise PathEnd("stop", what="cg")
    it.stop_calls[cgs.qualname] = stop
    try:
        it.run_paths(it.fn(drv), [obj, it.vec(drv.params()[1]), SymObj(drv.params()[2])], {})
    except (Budget,) + tuple(EVAL_ERRORS):
        calls = []
    vs = []
    for a in calls:
        if len(a) < 6 or not all(isinstance(x, FV) for x in a[1:4]):
            vs.append((None, "arguments of the trust_region_cg call not readable"))
            continue
        r, Pr, HPr, H, P = a[1], a[2], a[3], a[4], a[5]
        try:
            PofR, HofPr = it.call(P, [r], {}), it.call(H, [Pr], {})
        except EVAL_ERRORS:
            vs.append((None, "operators passed to trust_region_cg not applicable symbolically"))
            continue
        ok = isinstance(PofR, FV) and isinstance(HofPr, FV) and Pr.same(PofR) and HPr.same(HofPr)
        vs.append((ok, "Pr = precond(r) and HPr = hess_vec_func(Pr) at the call" if ok else
                   f"trust_region_cg is called with r = {_show(r, 60)}, Pr = {_show(Pr, 60)}, HPr = {_show(HPr, 60)}: not Pr = precond(r), HPr = hess_vec_func(Pr)"))
    if vs:
        ok, det = _combine(vs)
        if ok is not None:
            ctx.decide(rule, ok, drv, None, construct="subspace-cg-call-contract", detail=det, bad_detail=det)
            _touch(ctx, it)
            return
    ctx.assume("trust_region_cg is called with Pr = precond(r) and HPr = hess_vec_func(Pr)")


# ------------------------------------------------------------------ D3: index-space types

class TypeErr(Exception):
    pass


SC, TOPT = "Scalar", "?"


def _vec(a):
    return ("Vec", a)


def _mat(a, b):
    return ("Mat", a, b)


class SpaceTyper:
    """Types: 'Scalar', ('Vec', axis), ('Mat', row axis, col axis), '?'.  Axes: 'S' (space), 'M' (mode)."""

    def __init__(self, ctx, scope, env, report):
        self.ctx = ctx
        self.scope = scope
        self.env = dict(env)
        self.report = report      # callable(node, message)
        self.checked = 0

    def ty(self, e):
        t = self._ty(e)
        return t

    def _elementwise(self, e, a, b):
        if a == TOPT or b == TOPT:
            return TOPT
        if a == SC:
            return b
        if b == SC:
            return a
        if a == b:
            return a
        self.report(e, f"elementwise operation between {self.show(a)} and {self.show(b)}")
        return TOPT

    @staticmethod
    def show(t):
        if t == SC or t == TOPT:
            return t
        if t[0] == "Vec":
            return f"vector over {'space' if t[1] == 'S' else 'eigen-modes'}"
        return f"matrix [{t[1]},{t[2]}]"

    def _matmul(self, e, a, b):
        self.checked += 1
        if TOPT in (a, b):
            return TOPT
        if a == SC or b == SC:
            self.report(e, "matrix product with a scalar")
            return TOPT
        if a[0] == "Vec" and b[0] == "Vec":
            if a[1] != b[1]:
                self.report(e, f"inner product of a {self.show(a)} with a {self.show(b)}")
            return SC
        if a[0] == "Mat" and b[0] == "Vec":
            if a[2] != b[1]:
                self.report(e, f"{self.show(a)} applied to a {self.show(b)} (column axis {a[2]} != {b[1]})")
            return _vec(a[1])
        if a[0] == "Vec" and b[0] == "Mat":
            if a[1] != b[1]:
                self.report(e, f"{self.show(a)} times {self.show(b)}")
            return _vec(b[2])
        if a[0] == "Mat" and b[0] == "Mat":
            if a[2] != b[1]:
                self.report(e, f"{self.show(a)} times {self.show(b)}")
            return _mat(a[1], b[2])
        return TOPT

    def _ty(self, e):
        if isinstance(e, ast.Constant):
            return SC
        if isinstance(e, ast.Name):
            return self.env.get(e.id, TOPT)
        if isinstance(e, ast.Attribute):
            if e.attr == "T":
                t = self._ty(e.value)
                if t != TOPT and t != SC and t[0] == "Mat":
                    return _mat(t[2], t[1])
                return t
            return TOPT
        if isinstance(e, ast.UnaryOp):
            return self._ty(e.operand)
        if isinstance(e, ast.BinOp):
            a, b = self._ty(e.left), self._ty(e.right)
            if isinstance(e.op, ast.MatMult):
                return self._matmul(e, a, b)
            if isinstance(e.op, ast.Pow):
                return a
            self.checked += 1
            return self._elementwise(e, a, b)
        if isinstance(e, ast.IfExp):
            a, b = self._ty(e.body), self._ty(e.orelse)
            return a if a == b else self._elementwise(e, a, b)
        if isinstance(e, ast.Compare):
            self._ty(e.left)
            for c in e.comparators:
                self._ty(c)
            return SC
        if isinstance(e, ast.BoolOp):
            for v in e.values:
                self._ty(v)
            return SC
        if isinstance(e, ast.Subscript):
            t = self._ty(e.value)
            if t in (TOPT, SC):
                return TOPT
            idx = e.slice
            if t[0] == "Vec":
                return SC if not isinstance(idx, ast.Slice) else t
            if t[0] == "Mat":
                if isinstance(idx, ast.Tuple) and len(idx.elts) == 2:
                    r_, c_ = idx.elts
                    rs, cs = isinstance(r_, ast.Slice), isinstance(c_, ast.Slice)
                    if rs and not cs:
                        return _vec(t[1])        # column: indexed by the row axis
                    if cs and not rs:
                        return _vec(t[2])        # row
                    if rs and cs:
                        return t
                    return SC
                if isinstance(idx, ast.Slice):
                    return t
                return _vec(t[2])                # v[i] is row i: indexed by the column axis
            return TOPT
        if isinstance(e, ast.Call):
            d = dotted(e.func) or ""
            last = d.split(".")[-1]
            args = [self._ty(a) for a in e.args]
            if last in ("norm", "mean", "sum", "max", "min", "amax", "amin") and args:
                return SC
            if last in ("abs", "sqrt", "sign", "square", "exp", "log", "array", "asarray") and args:
                return args[0]
            if last in ("maximum", "minimum") and len(args) == 2:
                return self._elementwise(e, args[0], args[1])
            if last in ("where", "if_then_else") and len(args) == 3:
                if args[0] in (SC, TOPT):
                    return self._elementwise(e, args[1], args[2])
                return self._elementwise(e, self._elementwise(e, args[0], args[1]), args[2])
            if isinstance(e.func, ast.Attribute) and not (dotted(e.func.value) or "").split(".")[0] in ("np", "onp", "jnp", "numpy", "jax", "math"):
                recv = self._ty(e.func.value)
                if recv not in (TOPT, SC):
                    if e.func.attr in ("mean", "sum", "max", "min") and not args:
                        return SC
                    if e.func.attr == "dot" and len(args) == 1:
                        return self._matmul(e, recv, args[0])
                    if e.func.attr in ("copy", "conj") and not args:
                        return recv
            if last == "dot" and len(args) == 2:
                return self._matmul(e, args[0], args[1])
            # repo function: infer by typing its body with these argument types
            for v in self.ctx.repo.resolve(e.func, self.scope):
                if isinstance(v, FuncVal) and v.scope.kind == "function":
                    env0 = dict(self.env) if v.scope.parent is self.scope else {}      # a nested helper sees the enclosing variables
                    params = list(v.scope.params())
                    if v.scope.parent is not None and v.scope.parent.kind == "class":
                        # a method: unless it is a staticmethod the first parameter is the receiver, not the first argument
                        decos = {(dotted(d_) or "").split(".")[-1] for d_ in v.scope.node.decorator_list}
                        if "staticmethod" not in decos and params:
                            env0[params[0]] = TOPT
                            params = params[1:]
                    kwt = {k_.arg: self._ty(k_.value) for k_ in e.keywords if k_.arg}
                    env0.update(dict(zip(params, args)))
                    env0.update({k_: t_ for k_, t_ in kwt.items() if k_ in params})
                    sub = SpaceTyper(self.ctx, v.scope, env0, self.report)
                    rt = sub.run()
                    self.checked += sub.checked
                    return rt
            return TOPT
        if isinstance(e, ast.Tuple):
            return tuple(["Tuple"] + [self._ty(x) for x in e.elts])
        return TOPT

    def run(self):
        """Type the body; returns the join of return types."""
        rets = []
        self._block(self.scope.node.body, rets)
        rts = [r for r in rets if r != TOPT]
        if not rts:
            return TOPT
        if all(r == rts[0] for r in rts):
            return rts[0]
        return TOPT

    def _block(self, body, rets):
        for st in body:
            if isinstance(st, ast.Assign):
                t = self._ty(st.value)
                for tg in st.targets:
                    if isinstance(tg, ast.Name):
                        self.env[tg.id] = t
                    elif isinstance(tg, ast.Tuple):
                        if ((dotted(st.value.func) or "") if isinstance(st.value, ast.Call) else "").split(".")[-1] == "eigh":
                            a = self._ty(st.value.args[0])
                            ax = a[1] if a not in (TOPT, SC) and a[0] == "Mat" else "S"
                            self.env[tg.elts[0].id] = _vec("M")
                            self.env[tg.elts[1].id] = _mat(ax, "M")
                        elif isinstance(t, tuple) and t and t[0] == "Tuple":
                            for x, tt in zip(tg.elts, t[1:]):
                                if isinstance(x, ast.Name):
                                    self.env[x.id] = tt
            elif isinstance(st, ast.AugAssign):
                if isinstance(st.target, ast.Name):
                    a = self.env.get(st.target.id, TOPT)
                    b = self._ty(st.value)
                    self.env[st.target.id] = self._elementwise(st, a, b)
            elif isinstance(st, ast.Return):
                rets.append(self._ty(st.value) if st.value is not None else TOPT)
            elif isinstance(st, ast.If):
                self._ty(st.test)
                self._block(st.body, rets)
                self._block(st.orelse, rets)
            elif isinstance(st, (ast.While,)):
                self._ty(st.test)
                self._block(st.body, rets)
            elif isinstance(st, ast.For):
                self._block(st.body, rets)
            elif isinstance(st, ast.Expr):
                self._ty(st.value)


def d3_types(ctx):
    rule = "D3/T9-index-space-types"
    sv = ctx.need(f"{TE}:solve")
    ps = sv.params()
    errors = []

    def report(node, msg):
        errors.append((node, msg))
    ty = SpaceTyper(ctx, sv, {ps[0]: _mat("S", "S"), ps[1]: _vec("S"), ps[2]: SC}, report)
    # type each return separately to give one obligation per exit
    rets = []
    ty._block(sv.node.body, rets)
    seen = set()
    for (node, msg) in errors:
        key = src(node)
        if key in seen:
            continue
        seen.add(key)
        ctx.refuted(rule, sv, node, construct=f"type-error:{key[:60]}",
                    detail=f"`{key[:80]}`: {msg} (sig, v = eigh(A): v has space rows and eigen-mode columns)")
    pending = []
    for i, rt in enumerate(rets):
        ok = rt == _vec("S")
        bad = rt != TOPT and not ok
        if not errors or ok:
            if ok or bad:
                ctx.decide(rule, True if ok else False, sv, None, construct=f"return#{i}-is-space-vector",
                           detail=f"return {i} has type {SpaceTyper.show(rt)}",
                           bad_detail=f"return {i} of treigen.solve has type {SpaceTyper.show(rt)}, not a vector over space")
            else:
                pending.append(i)       # the flow-insensitive typing lost track: decided below by the path-wise interpretation
    ctx.extra_cov["treigen_typed_operations"] = ty.checked
    if not errors:
        ctx.proved(rule, sv, None, construct="all-operations-type-check", detail=f"{ty.checked} products/elementwise operations type-check")
    # second opinion, path by path: the symbolic interpretation keeps space vectors, mode vectors and the eigenvector matrix apart
    complete = False
    try:
        it, sv2, ps2, Delta2, paths = _te_paths(ctx)
        seen_c = set()
        for p in paths:
            if p.kind == "error" and p.clash and p.error not in seen_c:
                seen_c.add(p.error)
                ctx.refuted(rule, sv, None, construct="index-space-clash:" + p.error.split(": ", 1)[-1][:70],
                            detail=f"on the path with conditions {_show(p.facts, 160)}: {p.error.split(': ', 1)[-1]} (sig, v = eigh(A): v has space rows and eigen-mode columns)")
        groups = {}
        for p in paths:
            if p.kind == "return":
                groups.setdefault(id(p.ret_node), []).append(p)
        for k, (rid, ps_) in enumerate(groups.items()):
            kinds = {("space" if isinstance(p.value, FV) else "mode" if isinstance(p.value, MV) else "other") for p in ps_}
            ok = True if kinds == {"space"} else (False if "mode" in kinds else None)
            ctx.decide(rule, ok, sv, ps_[0].ret_node, construct=f"path-return#{k}-is-space-vector", detail="every path through this return yields a vector over space",
                       bad_detail=f"this return yields a {'/'.join(sorted(kinds))} quantity: {_show(ps_[0].value)}")
        complete = bool(groups) and not any(p.kind == "error" and not p.clash for p in paths)
    except (Incomplete,) + tuple(EVAL_ERRORS) as e:
        ctx.notes.append(f"treigen.solve not interpreted path by path: {e}")
    if ty.checked < 15 and not complete:
        ctx.undecided(rule, sv, None, construct="typed-operations", detail=f"only {ty.checked} operations typed and the path-wise interpretation is incomplete")
    for i in pending:
        if complete:
            ctx.proved(rule, sv, None, construct=f"return#{i}-is-space-vector", detail="typed ? by the flow-insensitive pass; every path through every return yields a space vector (path-wise interpretation)")
        else:
            ctx.undecided(rule, sv, None, construct=f"return#{i}-is-space-vector", detail=f"return {i} of treigen.solve has type ? and the path-wise interpretation is incomplete")



# ------------------------------------------------------------------ D3: hard case and initial multiplier of the exact solver

_SPECTRA = [(-3.0, -2.0, -1.0), (-2.0, 0.5, 1.0), (-1.0, 0.25, 4.0), (0.0, 0.0, 2.0), (0.5, 1.0, 3.0), (-5.0, -5.0, 1.0), (-1e-3, 2.0, 2.0)]


def d3_eigen_solver(ctx):
    """treigen.solve is interpreted with A a symmetric matrix symbol: sig, v = eigh(A) is a mode vector and an orthogonal matrix.
    * hard case: a return p + tau z with z a member of an orthonormal family of v satisfies |p + tau z|^2 = Delta^2 identically, and tau stays
      finite on the path that contains p.z = 0 (p is orthogonal to z in the exact hard case);
    * every scalar added to the spectrum before the multiplier iteration (the initial multiplier) is -lambda_min + offset with an offset that
      is non-negative for every spectrum consistent with the path (sign rules, else a numeric witness of the extracted expression)."""
    hrule = "D3/T7-hard-case-multiplier"
    prule = "D3/T8-pole-offset-nonnegative"
    it, sv, ps, Delta, paths = _te_paths(ctx)
    errs = sorted({p.error for p in paths if p.kind == "error" and not p.clash})
    for e in errs[:3]:
        ctx.undecided(hrule, sv, None, construct="path-not-interpreted", detail=e)
    D2 = Delta.a * Delta.a
    # ---- hard case
    groups = {}
    for p in paths:
        if p.kind != "return" or not isinstance(p.value, FV):
            continue
        V = p.value
        units = [a for a in V.t if a[0] == () and a[1] in it.ortho]
        if len(units) != 1 or len(V.t) < 2:
            continue
        groups.setdefault(id(p.ret_node), []).append((p, units[0]))
    for rid, items in groups.items():
        node = items[0][0].ret_node
        v_b, v_f = [], []
        for p, za in items:
            V = p.value
            tau = V.coef(za)
            zv = FV({za: ONE})
            pv = V.add(zv.scale(tau), -1)
            N2 = it.dot(V, V).a
            if req(N2, D2):
                v_b.append((True, "|p + tau z|^2 = p.p + 2 tau p.z + tau^2 normalises to Delta^2 (z a unit vector of the orthogonal eigenvector matrix)"))
            else:
                v_b.append((False, f"|p + tau z|^2 normalises to {_show(N2, 240)}, not Delta^2 (tau = {_show(tau, 120)})"))
            pz = nrm(it.dot(pv, zv).a)
            if 0 not in p.allowed(pz):
                continue                       # this path excludes p.z = 0
            ats = pz.atoms()
            if len(ats) != 1 or rat_const(nrm(pz / atom(next(iter(ats))))) is None:
                v_f.append((None, f"p.z = {_show(pz)} is not a single inner product: orthogonality scenario not expressible"))
                continue
            den = Rat(nrm(tau).d)
            at0 = subst(den, {next(iter(ats)): ZERO})
            if at0.n.is_zero():
                v_f.append((False, f"on the path that contains p.z = 0 (path conditions {_show(p.facts, 160)}) the multiplier is tau = {_show(tau, 160)}: "
                                   f"its denominator vanishes when p is orthogonal to the eigenvector (the exact hard case): division by zero"))
            else:
                v_f.append((True, "the denominator of tau does not vanish at p.z = 0"))
        ok, det = _combine(v_b)
        ctx.decide(hrule, ok, sv, node, construct="hard-case-step-on-boundary", detail=det, bad_detail=det)
        if v_f:
            ok, det = _combine(v_f)
            ctx.decide(hrule, ok, sv, node, construct="hard-case-multiplier-finite-at-orthogonality", detail=det, bad_detail=det)
        else:
            ctx.undecided(hrule, sv, node, construct="hard-case-multiplier-finite-at-orthogonality", detail="no path through this return is consistent with p.z = 0")
    if not groups:
        ctx.undecided(hrule, sv, None, construct="hard-case-return", detail="no return of the form p + tau*z with z a unit vector taken from the eigenvector matrix")
    # ---- initial multiplier
    seen = {}
    for p in paths:
        heads = set()
        for L in p.loops.values():
            for pth, v in snapshot_leaves(L["head"]).items():
                if isinstance(v, Dual):
                    heads |= set(nrm(v.a).atoms())
        for ev in p.events:
            if ev[0] != "shift" or not ev[1].startswith("eigvals("):
                continue
            s, nf = ev[2], ev[3]
            if atoms_of(s) & heads or s.n.is_zero():
                continue
            seen.setdefault((ev[1], rkey(s)), {"s": s, "sym": ev[1], "facts": []})["facts"].append(p.facts[:nf])
    if not seen:
        ctx.undecided(prule, sv, None, construct="initial-multiplier-offset", detail="no scalar is added to the spectrum before the multiplier iteration")
    for (sym, key), rec in seen.items():
        s = rec["s"]
        sig = MV(("sym", sym))
        sig0 = it.getitem(sig, 0)
        off = nrm(s + sig0.a)
        if it.is_nonneg(off):
            ctx.proved(prule, sv, None, construct="initial-multiplier-offset", detail=f"initial multiplier = -lambda_min + offset with offset `{_show(off, 80)}` >= 0 for every spectrum")
            continue
        wit = None
        for spec in _SPECTRA:
            for facts in rec["facts"]:
                smp = Sample(it, seed=3, spectra={sym: list(spec)})
                try:
                    smp.scalars.setdefault(ps[2], 1.0)
                    usable = [f for f in facts if _evaluable(it, f.d, smp)]
                    if not all(smp.holds(f) for f in usable):
                        continue
                    v = smp.value(off)
                except (SampleInvalid, KeyError, ZeroDivisionError, OverflowError, ValueError, IndexError):
                    continue
                if v < 0:
                    wit = (v, spec)
                    break
            if wit:
                break
        if wit:
            ctx.refuted(prule, sv, None, construct="initial-multiplier-offset",
                        detail=f"the initial multiplier is `{_show(s, 100)}` = -lambda_min + offset with offset `{_show(off, 80)}` = {wit[0]:.3g} for eigenvalues {wit[1]}: "
                               f"for such a matrix (negative trace) the boundary iteration starts below the pole -lambda_min and converges to a stationary point that is not the minimiser")
        else:
            ctx.undecided(prule, sv, None, construct="initial-multiplier-offset", detail=f"sign of the offset `{_show(off, 100)}` of the initial multiplier not decided")
    _touch(ctx, it)


def _evaluable(it, r, smp):
    """can the value be computed from the spectrum alone (no free symbols)?"""
    for a in atoms_of(r):
        if a in smp.scalars or a in it.atom_eval or a.startswith("sqrt["):
            continue
        return False
    # opaque atoms over mode vectors other than the spectrum need more data
    try:
        smp.value(r)
        return True
    except (SampleInvalid, KeyError, ZeroDivisionError, OverflowError, ValueError, IndexError):
        return False



def _te_paths(ctx):
    """symbolic runs of treigen.solve (shared by the D3 rules)"""
    c = getattr(ctx, "_c06_te", None)
    if c is None:
        it = SymInterp(ctx.repo)
        sv = ctx.need(f"{TE}:solve")
        ps = sv.params()
        if len(ps) < 3 or sv.n_required() > 3:
            raise Incomplete("treigen.solve signature")
        A, b = MatSym(ps[0]), it.vec(ps[1])
        Delta = it.scalar(ps[2], positive=True)
        paths = it.run_paths(it.fn(sv), [A, b, Delta])
        c = ctx._c06_te = (it, sv, ps, Delta, paths)
    return c


def variants(repo):
    from optilint.selftest import Variant, sub, sub_in_func, alpha_rename, reformat
    from .C06_variants import more_variants
    E = "optimism/EquationSolver.py"
    S = "optimism/EquationSolverSubspace.py"
    T = "optimism/treigen/treigen.py"
    return [
        Variant("-zd -> +zd in projection", E, sub_in_func("project_to_boundary_with_coefs", "- zd)/dd", "+ zd)/dd"), "D1/T7-boundary-norm-identity"),
        Variant("trSize**2 -> trSize", E, sub_in_func("project_to_boundary", "(trSize**2-zz)*dd", "(trSize-zz)*dd"), "D1/T7-boundary-norm-identity"),
        Variant("preconditioned projection mixes norms", E, sub_in_func("preconditioned_project_to_boundary", "    dd = np.dot(d,Pd)", "    dd = np.dot(d,d)"), "D1/T7-boundary-norm-identity"),
        Variant("subspace projection sign", S, sub_in_func("project_to_boundary_with_coefs", "- zd)/dd", "+ zd)/dd"), "D1/T7-boundary-norm-identity"),
        Variant("step length update", E, sub_in_func("update_step_length_squared", "2*alpha*zd", "alpha*zd"), "D1/T7-boundary-norm-identity"),
        Variant("stale rPr in recurrence", E,
                lambda s: None if s.count("        rPr = rPrNp1\n        d = -Pr + beta*d\n\n        zz = zzNp1\n        zd, dd = cg_inner_products(alpha, beta, zd, dd, rPr, z, d)\n") != 1 else
                s.replace("        rPr = rPrNp1\n        d = -Pr + beta*d\n\n        zz = zzNp1\n        zd, dd = cg_inner_products(alpha, beta, zd, dd, rPr, z, d)\n",
                          "        d = -Pr + beta*d\n\n        zz = zzNp1\n        zd, dd = cg_inner_products(alpha, beta, zd, dd, rPr, z, d)\n        rPr = rPrNp1\n"),
                "D1/T7-recurrences"),
        Variant("dd recurrence without beta^2", E, sub_in_func("cg_inner_products_preconditioned", "dd = rPr + beta*beta*dd", "dd = rPr + beta*dd"), "D1/T7-recurrences"),
        Variant("boundary exit returns unprojected", E,
                sub_in_func("solve_trust_region_minimization", "            return zOut, cauchyP, boundaryString, i+1", "            return zNp1, cauchyP, boundaryString, i+1"), "D1/T1-labelled-exits"),
        Variant("negcurve guard flipped", E, sub_in_func("solve_trust_region_minimization", "        if curvature <= 0:", "        if curvature >= 0:"), "D1/T1-labelled-exits"),
        Variant("dogleg guards swapped", E, sub_in_func("dogleg_step", "    if nn > tt:", "    if nn < tt:"), "D2/T1-dogleg"),
        Variant("dogleg returns cp outside", E, sub_in_func("dogleg_step", "    if cc >= tt:", "    if cc >= 2*tt:"), "D2/T1-dogleg"),
        Variant("dogleg scaled point wrong", E, sub_in_func("dogleg_step", "return cp * np.sqrt(tt/cc)", "return cp * (tt/cc)"), "D2/T1-dogleg"),
        Variant("dogleg from origin", E, sub_in_func("dogleg_step", "                                                  newtonP-cp,", "                                                  newtonP,"), "D2/T1-dogleg"),
        Variant("cauchy point uphill", E, sub_in_func("trust_region_minimize", "            alpha = -(g@g) / gKg", "            alpha = (g@g) / gKg"), "D2/T8-cauchy-direction"),
        Variant("v[0] row", T, sub("        z = v[:,0]", "        z = v[0]"), "D3/T9-index-space-types"),
        Variant("v.T@ where v@ is meant", T, sub("        p = -v@(bv/(sig+lam))", "        p = -v.T@(bv/(sig+lam))"), "D3/T9-index-space-types"),
        Variant("b/sig", T, sub("norm(bv/sig) < Delta", "norm(b/sig) < Delta"), "D3/T9-index-space-types"),
        Variant("pole offset follows the sign of the trace", T, sub("    sigScale = np.mean( np.abs(sig) )", "    sigScale = np.mean(sig)"), "D3/T8-pole-offset-nonnegative"),
        Variant("pole offset negative", T, sub("    eps = 1e-12 * sigScale", "    eps = -1e-12 * sigScale"), "D3/T8-pole-offset-nonnegative"),
        Variant("np.sign in hard case", T, sub("pzSign = np.where(pz >= 0, 1.0, -1.0)", "pzSign = np.sign(pz)"), "D3/T7-hard-case-multiplier"),
        Variant("hard case multiplier wrong root", T, sub("tau = ddmpp / (pz + pzSign*np.sqrt(pz*pz + ddmpp))", "tau = ddmpp / (pz + pzSign*np.sqrt(pz*pz - ddmpp))"), "D3/T7-hard-case-multiplier"),
        Variant("reformat EquationSolver", E, reformat(), None),
        Variant("reformat treigen", T, reformat(), None),
        Variant("alpha-rename treigen.solve", T, alpha_rename("solve"), None),
        Variant("alpha-rename dogleg", E, alpha_rename("dogleg_step"), None),
        Variant("alpha-rename project_to_boundary", E, alpha_rename("project_to_boundary"), None),
        Variant("alpha-rename CG", E, alpha_rename("solve_trust_region_minimization"), None),
    ] + more_variants()
