"""Helpers shared by the per-property rule modules."""
from __future__ import annotations

import ast

from optilint.model import (Scope, FuncVal, ClassVal, ExtVal, ModVal, ParamVal, walk_local, norm_src,
                            dotted, canonical_ext)
from optilint.callgraph import LinkChecker
from optilint.cfg import cfg_of, CFG, Node
from optilint.core import Ctx, Incomplete


# ----------------------------------------------------------------- link integrity (T10)

def link_cone(ctx: Ctx, rule: str, roots, what: str, stop=None, min_scopes=1):
    """Run the E4 link checker over the call-graph cone of `roots`; one obligation per scope
    (PROVED) plus one REFUTED obligation per finding."""
    cg = ctx.cg
    cone = cg.cone(roots, stop=stop)
    lc = LinkChecker(ctx.repo, cg)
    n = 0
    for s in sorted(cone, key=lambda s: s.qualname):
        if s.kind in ("comp", "class", "module"):
            continue
        if s.module.is_test:
            continue
        n += 1
        fs = lc.check_scope(s)
        if not fs:
            ctx.proved(rule, s, None, construct="link-integrity", detail=f"in cone of {what}")
        # de-duplicate per (kind, construct)
        seen = set()
        for f in fs:
            if f.key() in seen:
                continue
            seen.add(f.key())
            ctx.refuted(rule, f.scope, f.node, construct=f"{f.kind}:{f.construct}", detail=f.detail,
                        cone=what)
    ctx.extra_cov.setdefault("link_stats", {})[rule] = dict(lc.stats, cone_scopes=n)
    if n < min_scopes:
        raise Incomplete(f"cone of {what} has {n} scopes (< {min_scopes}); resolver lost the entry points")
    return cone


# ----------------------------------------------------------------- AST pattern helpers

def calls_in(scope_or_node, local=True):
    node = scope_or_node.node if isinstance(scope_or_node, Scope) else scope_or_node
    it = walk_local(node) if local else ast.walk(node)
    for n in it:
        if isinstance(n, ast.Call):
            yield n


def call_name(call: ast.Call):
    return dotted(call.func)


def actual(call: ast.Call, params: list, pname: str, bound=0):
    """Actual argument expression bound to parameter `pname` of a callee with positional
    parameter list `params`."""
    for k in call.keywords:
        if k.arg == pname:
            return k.value
    if pname in params:
        j = params.index(pname) - bound
        pos = 0
        for a in call.args:
            if isinstance(a, ast.Starred):
                return None
            if pos == j:
                return a
            pos += 1
    return None


def is_name(e, name=None):
    return isinstance(e, ast.Name) and (name is None or e.id == name)


def const_value(e):
    if isinstance(e, ast.Constant):
        return e.value
    if isinstance(e, ast.UnaryOp) and isinstance(e.op, ast.USub) and isinstance(e.operand, ast.Constant) \
            and isinstance(e.operand.value, (int, float)):
        return -e.operand.value
    return None


def strip_wrappers(e, names=("np.array", "np.asarray", "onp.array", "float", "np.float64")):
    while isinstance(e, ast.Call) and dotted(e.func) in names and len(e.args) == 1 and not e.keywords:
        e = e.args[0]
    return e


def single_def(cfg: CFG, node: Node, name: str):
    """The unique definition node of `name` reaching `node`, or None."""
    ds = cfg.reaching(node, name)
    return ds[0] if len(ds) == 1 else None


def def_value(n: Node, name: str):
    """RHS expression by which definition node `n` defines plain name `name` (simple Assign
    `name = expr` or element of a tuple assignment from a tuple literal), else None."""
    a = n.ast
    if n.kind != "stmt":
        return None
    if isinstance(a, ast.Assign) and len(a.targets) == 1:
        t = a.targets[0]
        if isinstance(t, ast.Name) and t.id == name:
            return a.value
        if isinstance(t, ast.Tuple) and isinstance(a.value, ast.Tuple) and len(t.elts) == len(a.value.elts):
            for te, ve in zip(t.elts, a.value.elts):
                if isinstance(te, ast.Name) and te.id == name:
                    return ve
        if isinstance(t, ast.Tuple) and not isinstance(a.value, ast.Tuple) and all(isinstance(te, ast.Name) for te in t.elts):
            # a, b, c = f(...)   ->   b is f(...)[1]
            for i, te in enumerate(t.elts):
                if te.id == name:
                    return ast.fix_missing_locations(ast.copy_location(
                        ast.Subscript(value=a.value, slice=ast.Constant(value=i), ctx=ast.Load()), a.value))
    if isinstance(a, ast.AnnAssign) and isinstance(a.target, ast.Name) and a.target.id == name:
        return a.value
    return None


class _Subst(ast.NodeTransformer):
    def __init__(self, mapping):
        self.mapping = mapping

    def visit_Name(self, n):
        if isinstance(n.ctx, ast.Load) and n.id in self.mapping:
            return self.mapping[n.id]
        return n

    def visit_Lambda(self, n):
        # do not substitute lambda parameters
        params = {a.arg for a in n.args.args}
        inner = _Subst({k: v for k, v in self.mapping.items() if k not in params})
        return ast.Lambda(args=n.args, body=inner.visit(n.body))


def _clear_between(cfg: CFG, d: Node, node: Node, name: str, operand: str) -> bool:
    """No definition of `operand` can execute between definition d (of `name`) and `node` on a path
    along which d still reaches node (i.e. without passing another definition of `name`)."""
    name_killers = [n for n in cfg.nodes if n is not d and any(c == name and not w for (c, w) in cfg.defs_of(n))]
    op_defs = [n for n in cfg.nodes if n is not d and any(c == operand for (c, w) in cfg.defs_of(n))]
    if not op_defs:
        return True
    name_killers = name_killers + [d]
    fwd = cfg.reachable_from(d, blocked=name_killers)
    for k in op_defs:
        if id(k) not in fwd or (id(k) in set(id(x) for x in name_killers)):
            continue
        if k is node:
            continue
        r = cfg.reachable_from(k, blocked=name_killers)
        if id(node) in r:
            return False
    return True


def expand(cfg: CFG, node: Node, expr, depth=6, stop=()):
    """Substitute local names in `expr` (as seen at CFG node `node`) by their defining expression.
    A name is substituted when all its reaching definitions assign the same expression (modulo
    commutativity) and no operand of that expression can change between the definition and `node`.
    An operand that *is* redefined in between but was a plain parameter at the definition is
    renamed `<name>__in` (the value on entry).  Used to compare values independently of temporaries."""
    import copy
    if depth <= 0:
        return expr
    mapping = {}
    for nm in sorted({n.id for n in ast.walk(expr) if isinstance(n, ast.Name) and isinstance(n.ctx, ast.Load)}):
        if nm in stop or nm.endswith("__in"):
            continue
        ds = cfg.reaching(node, nm)
        if not ds or any(d.kind != "stmt" for d in ds):
            continue
        vals = [def_value(d, nm) for d in ds]
        if any(v is None for v in vals):
            continue
        if len({canon(v) for v in vals}) != 1:
            continue
        ok = True
        ren = {}
        for d, v in zip(ds, vals):
            for w in {x.id for x in ast.walk(v) if isinstance(x, ast.Name) and isinstance(x.ctx, ast.Load)}:
                if d is node:
                    ok = False
                    break
                if w == nm or not _clear_between(cfg, d, node, nm, w):
                    # operand changes after the definition: usable only if it was the entry value there
                    if len(ds) == 1 and [x for x in cfg.reaching(d, w)] == [cfg.entry]:
                        ren[w] = w + "__in"
                    else:
                        ok = False
                        break
            if not ok:
                break
        if not ok:
            continue
        d0, v0 = ds[0], vals[0]
        v1 = expand(cfg, d0, v0, depth - 1, stop) if len(ds) == 1 else v0
        if ren:
            v1 = ast.fix_missing_locations(_Subst({k: ast.Name(id=v, ctx=ast.Load()) for k, v in ren.items()}).visit(copy.deepcopy(v1)))
        mapping[nm] = v1
    if not mapping:
        return expr
    return ast.fix_missing_locations(_Subst(mapping).visit(copy.deepcopy(expr)))


def cond_atoms(test, positive=True):
    """Flatten a branch condition into a list of (atom expr, polarity) that are all known to hold
    when the test evaluates to `positive`.  `a and b` true -> both; `a or b` false -> both negated;
    `not a` flips."""
    out = []
    if isinstance(test, ast.BoolOp):
        if isinstance(test.op, ast.And) and positive:
            for v in test.values:
                out += cond_atoms(v, True)
            return out
        if isinstance(test.op, ast.Or) and not positive:
            for v in test.values:
                out += cond_atoms(v, False)
            return out
        return [(test, positive)]
    if isinstance(test, ast.UnaryOp) and isinstance(test.op, ast.Not):
        return cond_atoms(test.operand, not positive)
    return [(test, positive)]


def facts_at(cfg: CFG, node: Node):
    """[(atom expr, polarity, cond node)] known on every path from entry to `node`."""
    out = []
    for (c, lab) in cfg.edge_facts(node):
        if c.kind != "cond":
            continue
        for (a, pol) in cond_atoms(c.ast, lab):
            out.append((a, pol, c))
    return out


def find_calls_to(scope: Scope, ctx: Ctx, target_qual: str):
    """Call nodes in `scope` whose callee resolves (possibly among others) to target_qual."""
    out = []
    for cs in ctx.cg.sites_by_scope.get(id(scope), []):
        for v in cs.callees:
            if isinstance(v, FuncVal) and v.scope.qualname == target_qual:
                out.append(cs.node)
                break
    return out


def loop_of(cfg: CFG, node: Node):
    return node.loops[-1] if node.loops else None


def node_of(cfg: CFG, stmt_or_expr_owner):
    return cfg.node_for(stmt_or_expr_owner)


def stmt_nodes_where(cfg: CFG, pred):
    return [n for n in cfg.nodes if n.kind in ("stmt", "cond", "for") and n.ast is not None and pred(n)]


def contains_call(expr, name_pred):
    for n in ast.walk(expr):
        if isinstance(n, ast.Call):
            d = dotted(n.func)
            if d and name_pred(d):
                return n
    return None


def src(e):
    return norm_src(e) if e is not None else "<none>"


# ----------------------------------------------------------------- commutative canonical text

def canon(e) -> str:
    """Canonical text modulo commutativity/associativity of + and * (and `a - b` = `a + (-b)`),
    `np.dot(a,b)`/`a@b` for vectors kept ordered (matrix products do not commute)."""
    if isinstance(e, str):
        e = ast.parse(e, mode="eval").body
    if isinstance(e, ast.BinOp) and isinstance(e.op, (ast.Add, ast.Sub)):
        terms = []

        def flat(x, sign):
            if isinstance(x, ast.BinOp) and isinstance(x.op, ast.Add):
                flat(x.left, sign)
                flat(x.right, sign)
            elif isinstance(x, ast.BinOp) and isinstance(x.op, ast.Sub):
                flat(x.left, sign)
                flat(x.right, -sign)
            elif isinstance(x, ast.UnaryOp) and isinstance(x.op, ast.USub):
                flat(x.operand, -sign)
            else:
                terms.append(("-" if sign < 0 else "+") + canon(x))
        flat(e, 1)
        return "(" + " ".join(sorted(terms)) + ")"
    if isinstance(e, ast.BinOp) and isinstance(e.op, ast.Mult):
        fs = []

        def flatm(x):
            if isinstance(x, ast.BinOp) and isinstance(x.op, ast.Mult):
                flatm(x.left)
                flatm(x.right)
            else:
                fs.append(canon(x))
        flatm(e)
        return "(" + "*".join(sorted(fs)) + ")"
    if isinstance(e, ast.BinOp):
        op = {ast.Div: "/", ast.Pow: "**", ast.MatMult: "@", ast.Mod: "%", ast.FloorDiv: "//"}.get(type(e.op), "?")
        return f"({canon(e.left)}{op}{canon(e.right)})"
    if isinstance(e, ast.UnaryOp) and isinstance(e.op, ast.USub):
        if isinstance(e.operand, ast.Constant) and isinstance(e.operand.value, (int, float)):
            return repr(-e.operand.value)
        return "(-" + canon(e.operand) + ")"
    if isinstance(e, ast.UnaryOp) and isinstance(e.op, ast.Not):
        return "(not " + canon(e.operand) + ")"
    if isinstance(e, ast.Call):
        args = [canon(a) for a in e.args] + [f"{k.arg}={canon(k.value)}" for k in e.keywords]
        return f"{canon(e.func)}({','.join(args)})"
    if isinstance(e, ast.Attribute):
        return canon(e.value) + "." + e.attr
    if isinstance(e, ast.Subscript):
        return canon(e.value) + "[" + canon(e.slice) + "]"
    if isinstance(e, ast.Tuple):
        return "(" + ",".join(canon(x) for x in e.elts) + ",)"
    if isinstance(e, ast.Compare):
        s = canon(e.left)
        for op, c in zip(e.ops, e.comparators):
            s += " " + type(op).__name__ + " " + canon(c)
        return "(" + s + ")"
    if isinstance(e, ast.BoolOp):
        opn = " and " if isinstance(e.op, ast.And) else " or "
        return "(" + opn.join(canon(v) for v in e.values) + ")"
    if isinstance(e, ast.Constant):
        if isinstance(e.value, float) and e.value == int(e.value):
            return repr(float(e.value))
        return repr(e.value)
    if isinstance(e, ast.Name):
        return e.id
    if isinstance(e, ast.Lambda):
        return "lambda " + ",".join(a.arg for a in e.args.args) + ": " + canon(e.body)
    if isinstance(e, ast.Slice):
        return ":".join("" if x is None else canon(x) for x in (e.lower, e.upper, e.step))
    return norm_src(e)


def same(e1, e2) -> bool:
    return canon(e1) == canon(e2)


# ----------------------------------------------------------------- settings factories

def settings_wiring(ctx: Ctx, rule: str, module_name: str, min_sites=1):
    """Every module-level function that returns `NT(a0, a1, ...)` / `NT(f=a, ...)` for a namedtuple NT of the same module and whose
    arguments are its own parameters must put each parameter into the field of the same name (the fields are read by
    name everywhere else: a swapped pair silently exchanges two settings)."""
    from optilint.model import namedtuple_fields
    mod = ctx.need_module(module_name)
    nts = {}
    for st in mod.tree.body:
        if isinstance(st, ast.Assign) and len(st.targets) == 1 and isinstance(st.targets[0], ast.Name) and isinstance(st.value, ast.Call):
            f = namedtuple_fields(st.value) if (dotted(st.value.func) or "").split(".")[-1] == "namedtuple" else None
            if f:
                nts[st.targets[0].id] = list(f.fields)
    n = 0
    for sc in mod.scope.children:
        if sc.kind != "function":
            continue
        rets = sc.returns()
        if len(rets) != 1 or not isinstance(rets[0], ast.Call) or not isinstance(rets[0].func, ast.Name) or rets[0].func.id not in nts:
            continue
        call = rets[0]
        fields = nts[call.func.id]
        params = set(sc.params()) | set(sc.kwonly())
        pairs = [(fields[i] if i < len(fields) else None, a) for i, a in enumerate(call.args)] + [(k.arg, k.value) for k in call.keywords if k.arg]
        if not any(isinstance(a, ast.Name) and a.id in params and a.id in fields for (_, a) in pairs):
            continue
        n += 1
        bad = [(fld, a.id) for (fld, a) in pairs if isinstance(a, ast.Name) and a.id in params and a.id in fields and a.id != fld]
        nargs = len(call.args) + len([k for k in call.keywords if k.arg])
        ok = not bad and nargs == len(fields)
        ctx.decide(rule, ok, sc, call, construct=f"{sc.name}->{call.func.id}:parameters-to-same-named-fields",
                   detail=f"{nargs} arguments fill {len(fields)} fields by name",
                   bad_detail=f"{module_name.split('.')[-1]}.{sc.name} builds {call.func.id} with " +
                              (", ".join(f"parameter `{a}` in field `{f}`" for f, a in bad) if bad else f"{nargs} arguments for {len(fields)} fields") +
                              ": settings are exchanged silently (all readers use the field names)")
    if n < min_sites:
        raise Incomplete(f"{module_name}: {n} settings factories found ({min_sites} expected)")
    return n


# ----------------------------------------------------------------- matching modulo names of locals

def locals_of(scope: Scope) -> set:
    """Names bound inside `scope` (assignment / for / with / comprehension / lambda-argument targets of the scope itself and of
    its nested lambdas and comprehensions), i.e. everything a harmless rename could touch.  Parameters are not included."""
    out = set()
    params = set(scope.params()) | set(scope.kwonly()) if hasattr(scope, "params") and scope.kind in ("function", "lambda") else set()
    for n in ast.walk(scope.node):
        if isinstance(n, ast.Name) and isinstance(n.ctx, ast.Store):
            out.add(n.id)
        elif isinstance(n, ast.Lambda) and n is not scope.node:
            out.update(a.arg for a in n.args.args)
        elif isinstance(n, ast.FunctionDef) and n is not scope.node:
            out.update(a.arg for a in n.args.args)
    return out - params


class Unifier:
    """Structural matching of code against a template written with today's local names: names of locals are pattern variables
    (bound injectively, consistently over the lifetime of the Unifier), everything else must be equal.  + and * commute."""

    def __init__(self, scope: Scope, extra_locals=()):
        self.scope = scope
        self.locals = locals_of(scope) | set(extra_locals)
        self.bind = {}      # template name -> actual name

    def actual(self, tname: str) -> str:
        return self.bind.get(tname, tname)

    def match(self, actual, template, bind=None) -> bool:
        if isinstance(template, str):
            template = ast.parse(template, mode="eval").body
        if isinstance(actual, str):
            actual = ast.parse(actual, mode="eval").body
        b = dict(self.bind)
        if self._m(actual, template, b):
            self.bind = b
            return True
        return False

    # ---- internals
    def _name(self, a: str, t: str, b: dict) -> bool:
        if a in self.locals or t in b:
            if t in b:
                return b[t] == a
            if a in b.values():
                return False
            if a not in self.locals:
                return False
            b[t] = a
            return True
        return a == t

    @staticmethod
    def _flat(e, op):
        if isinstance(e, ast.BinOp) and isinstance(e.op, op):
            return Unifier._flat(e.left, op) + Unifier._flat(e.right, op)
        return [e]

    def _m(self, a, t, b) -> bool:
        if isinstance(t, ast.Name):
            return isinstance(a, ast.Name) and self._name(a.id, t.id, b)
        if type(a) is not type(t):
            # 1 vs 1.0 etc. are both Constant; a - b vs a + (-b) are not unified (templates follow the code's spelling)
            return False
        if isinstance(t, ast.Constant):
            return a.value == t.value and type(a.value) in (type(t.value), int, float) and not (isinstance(a.value, bool) ^ isinstance(t.value, bool))
        if isinstance(t, ast.BinOp) and isinstance(t.op, (ast.Add, ast.Mult)) and type(a.op) is type(t.op):
            ta, aa = self._flat(t, type(t.op)), self._flat(a, type(a.op))
            if len(ta) != len(aa):
                return False
            if len(ta) > 5:
                return all(self._m(x, y, b) for x, y in zip(aa, ta))
            import itertools
            for perm in itertools.permutations(range(len(aa))):
                b2 = dict(b)
                if all(self._m(aa[perm[i]], ta[i], b2) for i in range(len(ta))):
                    b.clear()
                    b.update(b2)
                    return True
            return False
        if isinstance(t, ast.arg):
            return self._name(a.arg, t.arg, b)
        if isinstance(t, ast.AST):
            for f in t._fields:
                if f in ("ctx", "type_comment", "kind"):
                    continue
                va, vt = getattr(a, f, None), getattr(t, f, None)
                if isinstance(vt, list):
                    if not isinstance(va, list) or len(va) != len(vt):
                        return False
                    for x, y in zip(va, vt):
                        if not self._mv(x, y, b):
                            return False
                elif not self._mv(va, vt, b):
                    return False
            return True
        return a == t

    def _mv(self, x, y, b):
        if isinstance(y, ast.AST):
            return isinstance(x, ast.AST) and self._m(x, y, b)
        return x == y

    # ---- statement lookup by role
    def assigns(self, value_template=None, target=None):
        """Assign statements of the scope (not of nested functions) whose value matches the template; `target` is the template
        name of the assigned variable (bound as a side effect)."""
        out = []
        for st in walk_local(self.scope.node):
            if not isinstance(st, ast.Assign) or len(st.targets) != 1:
                continue
            b = dict(self.bind)
            ok = True
            if value_template is not None:
                tv = ast.parse(value_template, mode="eval").body if isinstance(value_template, str) else value_template
                ok = self._m(st.value, tv, b)
            if ok and target is not None:
                tt = ast.parse(target, mode="eval").body if isinstance(target, str) else target
                ok = self._m(st.targets[0], tt, b)
            if ok:
                out.append((st, b))
        if len(out) == 1:
            self.bind = out[0][1]
        return [st for st, _ in out]

    def def_of(self, tname: str):
        """Assign statements whose target is the local bound to template name `tname` (bind it first through a match)."""
        a = self.actual(tname)
        return [st for st in walk_local(self.scope.node) if isinstance(st, ast.Assign) and len(st.targets) == 1
                and isinstance(st.targets[0], ast.Name) and st.targets[0].id == a]


# ----------------------------------------------------------------- mechanics factories: one gradient transformation, one mode table

def hook_agreement(ctx: Ctx, rule: str, factory_qual: str, hook_param="modify_element_gradient", min_sites=2):
    """Inside a mechanics factory every closure that forwards a gradient transformation to a module-level helper (the helper's
    parameter `modify_element_gradient`) must forward the SAME variable, and that variable must be the factory's final
    transformation (the last definition that reaches the end of the factory body): energy, residual, Hessians, internal-variable
    update and output energies then all see the same kinematics."""
    fac = ctx.need(factory_qual)
    cfg = cfg_of(fac)
    sites = []
    for sc in [fac] + [c for c in ctx.repo.functions() if c.qualname.startswith(fac.qualname + ".")]:
        for c in calls_in(sc):
            for v in ctx.repo.resolve(c.func, sc):
                if isinstance(v, FuncVal) and hook_param in v.scope.params():
                    a = actual(c, v.scope.params(), hook_param)
                    if a is not None:
                        sites.append((sc, c, v.scope, a))
                    break
    if len(sites) < min_sites:
        raise Incomplete(f"{factory_qual}: {len(sites)} call sites forward a gradient transformation ({min_sites} expected)")
    names = {src(a) for (_, _, _, a) in sites}
    # the transformation used by the majority role "energy" is irrelevant: all must coincide
    ref = src(sites[0][3])
    for (sc, c, callee, a) in sites:
        ok = src(a) == ref and isinstance(a, ast.Name)
        ctx.decide(rule, ok if len(names) == 1 else (src(a) == _majority([src(x[3]) for x in sites])), sc, c,
                   construct=f"{fac.name}:{sc.name}->{callee.name}:gradient-transformation",
                   detail=f"forwards `{src(a)}`",
                   bad_detail=f"{sc.name} forwards `{src(a)}` to {callee.name} while the other closures of {fac.name} forward "
                              f"`{_majority([src(x[3]) for x in sites])}`: energy, derivatives and state update would use different kinematics")
    # it is the last definition of that name in the factory body (post-projection)
    maj = _majority([src(x[3]) for x in sites])
    defs = [n for n in cfg.nodes if n.kind == "stmt" and any(cc == maj and not w for (cc, w) in cfg.defs_of(n))]
    closures_start = min((c.node.lineno for c in fac.children if c.kind == "function"), default=None)
    late = [d for d in defs if closures_start is not None and getattr(d.ast, "lineno", 0) > closures_start]
    ctx.decide(rule, bool(defs) and not late, fac, defs[-1].ast if defs else None, construct=f"{fac.name}:transformation-final-before-closures",
               detail=f"`{maj}` is defined {len(defs)}x, all before the closures that capture it",
               bad_detail=f"`{maj}` is (re)defined after closures that capture it were created")
    return len(sites)


def _majority(xs):
    best = None
    for x in sorted(set(xs)):
        if best is None or xs.count(x) > xs.count(best):
            best = x
    return best


def mode_dispatch(ctx: Ctx, rule: str, sites, module="optimism.Mechanics", marker="axisymmetric_gradient"):
    """Every dispatch on the 2-D idealisation (`mode2D == '...'`) must select, for 'axisymmetric', a transformation whose call cone
    contains the hoop-strain kernel (`axisymmetric_gradient`) and, for the other option, one that does not; sibling dispatch
    sites must agree.  sites: qualified names of the functions that contain a dispatch."""
    tables = {}
    for q in sites:
        sc = ctx.need(q)
        cfg = cfg_of(sc)
        table = {}
        mode_par = [p for p in sc.params() if p.lower().startswith("mode")]
        if not mode_par:
            ctx.undecided(rule, sc, None, construct=f"{sc.name}:mode-parameter", detail="no mode parameter")
            continue
        for n in cfg.nodes:
            if n.kind != "stmt" or not isinstance(n.ast, (ast.Assign, ast.Return)):
                continue
            val = n.ast.value
            if not isinstance(val, ast.Name):
                continue
            modes = []
            for (c, lab) in cfg.edge_facts(n):
                if c.kind == "cond" and lab and isinstance(c.ast, ast.Compare) and isinstance(c.ast.ops[0], ast.Eq) and isinstance(c.ast.left, ast.Name) \
                        and c.ast.left.id == mode_par[0] and isinstance(c.ast.comparators[0], ast.Constant):
                    modes.append(c.ast.comparators[0].value)
            if len(modes) != 1:
                continue
            tgt = [v.scope for v in ctx.repo.resolve(val, sc) if isinstance(v, FuncVal)]
            if tgt:
                table[modes[0]] = tgt[0]
        if not table:
            ctx.undecided(rule, sc, None, construct=f"{sc.name}:dispatch-table", detail="no `mode == literal` branch selecting a function found")
            continue
        tables[q] = table
        for mode, fn in sorted(table.items()):
            cone = ctx.cg.cone([fn])
            has = any(s.name == marker for s in cone)
            want = (mode == "axisymmetric")
            ctx.decide(rule, has == want, sc, None, construct=f"{sc.name}:{mode}",
                       detail=f"'{mode}' selects {fn.name} ({'with' if has else 'without'} hoop strain)",
                       bad_detail=f"{sc.name}: mode '{mode}' selects {fn.name}, which {'computes' if has else 'does not compute'} the hoop strain u_r/r; "
                                  f"{'only the axisymmetric idealisation has one' if has else 'the axisymmetric idealisation needs it (mass and volumes carry the 2 pi r weight)'}")
    qs = sorted(tables)
    for a, b in zip(qs, qs[1:]):
        ta, tb = tables[a], tables[b]
        shared = set(ta) & set(tb)     # a site may reject a mode (raise): agreement is required where both select something
        ok = bool(shared) and all(ta[k].qualname == tb[k].qualname for k in shared)
        ctx.decide(rule, ok, ctx.need(b), None, construct=f"siblings:{a.split(':')[-1]}~{b.split(':')[-1]}",
                   detail="same mode -> transformation table", bad_detail=f"dispatch tables differ: {a.split(':')[-1]} has { {k: v.name for k, v in ta.items()} }, "
                                                                          f"{b.split(':')[-1]} has { {k: v.name for k, v in tb.items()} }")
    if len(tables) < len(list(sites)):
        raise Incomplete(f"mode dispatch tables found for {len(tables)} of {len(list(sites))} sites")


# ----------------------------------------------------------------- semantic normal form of expressions (helper-insensitive)

REPO = None          # set by optilint.main.run_rules


def _simple_body(fn_node):
    """(assignments, return expression) if the function is straight-line: docstring?, simple assignments, one final return."""
    if isinstance(fn_node, ast.Lambda):
        return [], fn_node.body
    body = [st for st in fn_node.body if not (isinstance(st, ast.Expr) and isinstance(st.value, ast.Constant))]
    if not body or not isinstance(body[-1], ast.Return) or body[-1].value is None or len(body) > 14:
        return None
    for st in body[:-1]:
        if not (isinstance(st, ast.Assign) and len(st.targets) == 1 and isinstance(st.targets[0], (ast.Name, ast.Tuple))):
            return None
    return body[:-1], body[-1].value


def _callee_scope(func_expr, scope):
    if REPO is None:
        return None
    try:
        vals = REPO.resolve(func_expr, scope)
    except Exception:
        return None
    fs = [v.scope for v in vals if isinstance(v, FuncVal)]
    if len(fs) != 1 or len(vals) != 1:
        return None
    return fs[0]


def _bind_args(call, callee):
    """param -> actual expr (positional, keyword, defaults); None if it cannot be bound statically."""
    ps = callee.params()
    if any(isinstance(a, ast.Starred) for a in call.args) or any(k.arg is None for k in call.keywords) or len(call.args) > len(ps):
        return None
    m = {}
    for p_, a in zip(ps, call.args):
        m[p_] = a
    for k in call.keywords:
        if k.arg not in ps + callee.kwonly() or k.arg in m:
            return None
        m[k.arg] = k.value
    for p_ in ps + callee.kwonly():
        if p_ not in m:
            d = callee.default_of(p_)
            if d is None:
                return None
            m[p_] = d
    return m


def inline_value(callee, depth=3, stop=()):
    """Fully expanded return expression of a straight-line function in terms of its parameters (and free names), or None.
    Calls of functions whose name is in `stop` are kept as calls."""
    key = "_inline_value" + ("|" + ",".join(sorted(stop)) if stop else "")
    if hasattr(callee, key):
        return getattr(callee, key)
    setattr(callee, key, None)       # recursion guard
    sb = _simple_body(callee.node)
    out = None
    if sb is not None:
        try:
            c = cfg_of(callee)
            rets = c.returns()
            if isinstance(callee.node, ast.Lambda):
                out = callee.node.body
            elif len(rets) == 1:
                out = expand(c, rets[0], rets[0].ast.value, depth=8)
                # tuple-unpacked locals cannot be expanded: give up when locals of the callee remain
                loc = {n.id for n in ast.walk(callee.node) if isinstance(n, ast.Name) and isinstance(n.ctx, ast.Store)}
                if any(isinstance(n, ast.Name) and n.id in loc and not n.id.endswith("__in") for n in ast.walk(out)):
                    out = None
        except Exception:
            out = None
    if out is not None and depth > 0:
        out = normalize(out, callee, depth - 1, stop=stop)
    if out is not None and sum(1 for _ in ast.walk(out)) > 400:
        out = None
    setattr(callee, key, out)
    return out


class _Inliner(ast.NodeTransformer):
    def __init__(self, scope, depth, stop=()):
        self.scope, self.depth, self.stop = scope, depth, tuple(stop)

    def visit_Call(self, n):
        n = self.generic_visit(n)
        if self.stop and (dotted(n.func) or "").split(".")[-1] in self.stop:
            return n
        callee = _callee_scope(n.func, self.scope)
        if callee is None or callee.kind not in ("function", "lambda") or callee.cls is not None:
            return self._kw_to_pos(n, None)
        m = _bind_args(n, callee)
        val = inline_value(callee, self.depth, self.stop) if m is not None else None
        if val is None:
            return self._kw_to_pos(n, callee if m is not None else None, m)
        import copy
        # free names of the callee that are shadowed differently at the call site are not handled: require module-level or parameter names
        return ast.fix_missing_locations(_Subst(m).visit(copy.deepcopy(val)))

    def _kw_to_pos(self, n, callee, m=None):
        if callee is not None and m is not None and n.keywords:
            ps = callee.params()
            # positional form up to the last explicitly given parameter
            given = [p_ for p_ in ps if any(m[p_] is a for a in n.args) or any(m[p_] is k.value for k in n.keywords)]
            if given:
                last = max(ps.index(p_) for p_ in given)
                return ast.copy_location(ast.Call(func=n.func, args=[m[p_] for p_ in ps[:last + 1]], keywords=[]), n)
        # jax.vmap(f, in_axes=...) == jax.vmap(f, ...)
        if (dotted(n.func) or "").split(".")[-1] == "vmap" and len(n.args) == 1:
            ax = [k for k in n.keywords if k.arg == "in_axes"]
            if len(ax) == 1 and len(n.keywords) == 1:
                return ast.copy_location(ast.Call(func=n.func, args=[n.args[0], ax[0].value], keywords=[]), n)
        return n

    def visit_Name(self, n):
        # a nested straight-line def used as a value is the lambda it abbreviates
        if isinstance(n.ctx, ast.Load) and REPO is not None:
            callee = None
            for c in self.scope.children:
                if c.kind == "function" and c.name == n.id:
                    callee = c
            if callee is not None:
                val = inline_value(callee, self.depth)
                if val is not None:
                    import copy
                    return ast.fix_missing_locations(ast.Lambda(args=copy.deepcopy(callee.node.args), body=copy.deepcopy(val)))
        return n


def normalize(expr, scope, depth=3, stop=()):
    """Inline calls of straight-line repository functions (recursively), put keyword arguments of resolved callees in positional
    form, replace nested straight-line defs used as values by lambdas.  Comparing normal forms makes a rule insensitive to
    extracting / inlining small helpers, keyword-vs-positional call style and def-vs-lambda."""
    import copy
    if isinstance(expr, str):
        expr = ast.parse(expr, mode="eval").body
    if REPO is None or scope is None:
        return expr
    out = _Inliner(scope, depth, stop).visit(copy.deepcopy(expr))

    class _TupleIndex(ast.NodeTransformer):
        def visit_Subscript(self, n):
            n = self.generic_visit(n)
            if isinstance(n.value, ast.Tuple) and isinstance(n.slice, ast.Constant) and isinstance(n.slice.value, int) \
                    and -len(n.value.elts) <= n.slice.value < len(n.value.elts):
                return n.value.elts[n.slice.value]
            return n
    return ast.fix_missing_locations(_TupleIndex().visit(out))


def _canon_lambda_params(e):
    """rename lambda parameters positionally so that `lambda a: f(a)` and `lambda b: f(b)` coincide"""
    import copy

    class R(ast.NodeTransformer):
        def __init__(self):
            self.k = 0

        def visit_Lambda(self, n):
            names = [a.arg for a in n.args.args]
            self.k += 1
            m = {nm: ast.Name(id=f"_l{self.k}_{i}", ctx=ast.Load()) for i, nm in enumerate(names)}
            body = _Subst(m).visit(n.body)
            body = self.visit(body)
            args = copy.deepcopy(n.args)
            for i, a in enumerate(args.args):
                a.arg = f"_l{self.k}_{i}"
            return ast.Lambda(args=args, body=body)
    return ast.fix_missing_locations(R().visit(copy.deepcopy(e)))


def sem_same(actual, template, scope) -> bool:
    """`actual` (already expanded to the scope's parameters where the rule wants that) and `template` agree after normalisation."""
    a = _canon_lambda_params(normalize(actual, scope))
    t = _canon_lambda_params(normalize(template, scope))
    return canon(a) == canon(t)


def defs_to_lambdas(expr, scope):
    """Names of nested straight-line defs of `scope` used as values -> the lambdas they abbreviate (free variables untouched)."""
    import copy

    class D(ast.NodeTransformer):
        def visit_Name(self, n):
            if isinstance(n.ctx, ast.Load):
                for c in scope.children:
                    if c.kind == "function" and c.name == n.id:
                        val = inline_value(c, 0)
                        if val is not None:
                            return ast.fix_missing_locations(ast.Lambda(args=copy.deepcopy(c.node.args), body=copy.deepcopy(val)))
            return n
    return D().visit(copy.deepcopy(expr))


def normal_form(scope, node, expr, stop=()):
    """expr as seen at CFG node `node` of `scope`, expanded to the parameters of the scope, nested defs as lambdas, small helpers inlined."""
    cfg = cfg_of(scope)
    e = defs_to_lambdas(expr, scope)
    e = expand(cfg, node, e, stop=stop)
    return normalize(e, scope)


def return_normal_form(scope, stop=()):
    cfg = cfg_of(scope)
    r = cfg.returns()
    if len(r) != 1:
        return None
    return normal_form(scope, r[0], r[0].ast.value, stop)


def unwrap_call(call, scope, stop_names=(), max_steps=3):
    """Follow trivial wrappers: while `call` invokes a straight-line repository function (not in stop_names) whose value is
    itself a call, replace it by that inner call with the arguments substituted.  Returns the innermost call reached."""
    import copy
    cur = call
    cur_scope = scope
    for _ in range(max_steps):
        if not isinstance(cur, ast.Call):
            break
        if (dotted(cur.func) or "").split(".")[-1] in stop_names:
            break
        callee = _callee_scope(cur.func, cur_scope)
        if callee is None or callee.kind != "function" or callee.cls is not None:
            break
        m = _bind_args(cur, callee)
        val = inline_value(callee, 0) if m is not None else None
        if not isinstance(val, ast.Call):
            break
        cur = ast.fix_missing_locations(_Subst(m).visit(copy.deepcopy(val)))
        cur = _Inliner(callee, 0)._kw_to_pos(cur, _callee_scope(cur.func, callee), _bind_args(cur, _callee_scope(cur.func, callee)) if _callee_scope(cur.func, callee) else None)
    return cur
