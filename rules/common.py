"""Helpers shared by the per-property rule modules."""
from __future__ import annotations

import ast

from optilint.model import (Scope, FuncVal, ClassVal, ExtVal, ModVal, ParamVal, walk_local, norm_src,
                            dotted, canonical_ext)
from optilint.callgraph import LinkChecker
from optilint.cfg import cfg_of, CFG, Node
from optilint.core import Ctx, Incomplete


# ----------------------------------------------------------------- link integrity (T10)

def link_cone(ctx: Ctx, rule: str, roots, what: str, stop=None, min_scopes=1):
    """Run the E4 link checker over the call-graph cone of `roots`; one obligation per scope
    (PROVED) plus one REFUTED obligation per finding."""
    cg = ctx.cg
    cone = cg.cone(roots, stop=stop)
    lc = LinkChecker(ctx.repo, cg)
    n = 0
    for s in sorted(cone, key=lambda s: s.qualname):
        if s.kind in ("comp", "class", "module"):
            continue
        if s.module.is_test:
            continue
        n += 1
        fs = lc.check_scope(s)
        if not fs:
            ctx.proved(rule, s, None, construct="link-integrity", detail=f"in cone of {what}")
        # de-duplicate per (kind, construct)
        seen = set()
        for f in fs:
            if f.key() in seen:
                continue
            seen.add(f.key())
            ctx.refuted(rule, f.scope, f.node, construct=f"{f.kind}:{f.construct}", detail=f.detail,
                        cone=what)
    ctx.extra_cov.setdefault("link_stats", {})[rule] = dict(lc.stats, cone_scopes=n)
    if n < min_scopes:
        raise Incomplete(f"cone of {what} has {n} scopes (< {min_scopes}); resolver lost the entry points")
    return cone


# ----------------------------------------------------------------- AST pattern helpers

def calls_in(scope_or_node, local=True):
    node = scope_or_node.node if isinstance(scope_or_node, Scope) else scope_or_node
    it = walk_local(node) if local else ast.walk(node)
    for n in it:
        if isinstance(n, ast.Call):
            yield n


def call_name(call: ast.Call):
    return dotted(call.func)


def actual(call: ast.Call, params: list, pname: str, bound=0):
    """Actual argument expression bound to parameter `pname` of a callee with positional
    parameter list `params`."""
    for k in call.keywords:
        if k.arg == pname:
            return k.value
    if pname in params:
        j = params.index(pname) - bound
        pos = 0
        for a in call.args:
            if isinstance(a, ast.Starred):
                return None
            if pos == j:
                return a
            pos += 1
    return None


def is_name(e, name=None):
    return isinstance(e, ast.Name) and (name is None or e.id == name)


def const_value(e):
    if isinstance(e, ast.Constant):
        return e.value
    if isinstance(e, ast.UnaryOp) and isinstance(e.op, ast.USub) and isinstance(e.operand, ast.Constant) \
            and isinstance(e.operand.value, (int, float)):
        return -e.operand.value
    return None


def strip_wrappers(e, names=("np.array", "np.asarray", "onp.array", "float", "np.float64")):
    while isinstance(e, ast.Call) and dotted(e.func) in names and len(e.args) == 1 and not e.keywords:
        e = e.args[0]
    return e


def single_def(cfg: CFG, node: Node, name: str):
    """The unique definition node of `name` reaching `node`, or None."""
    ds = cfg.reaching(node, name)
    return ds[0] if len(ds) == 1 else None


def def_value(n: Node, name: str):
    """RHS expression by which definition node `n` defines plain name `name` (simple Assign
    `name = expr` or element of a tuple assignment from a tuple literal), else None."""
    a = n.ast
    if n.kind != "stmt":
        return None
    if isinstance(a, ast.Assign) and len(a.targets) == 1:
        t = a.targets[0]
        if isinstance(t, ast.Name) and t.id == name:
            return a.value
        if isinstance(t, ast.Tuple) and isinstance(a.value, ast.Tuple) and len(t.elts) == len(a.value.elts):
            for te, ve in zip(t.elts, a.value.elts):
                if isinstance(te, ast.Name) and te.id == name:
                    return ve
    if isinstance(a, ast.AnnAssign) and isinstance(a.target, ast.Name) and a.target.id == name:
        return a.value
    return None


class _Subst(ast.NodeTransformer):
    def __init__(self, mapping):
        self.mapping = mapping

    def visit_Name(self, n):
        if isinstance(n.ctx, ast.Load) and n.id in self.mapping:
            return self.mapping[n.id]
        return n

    def visit_Lambda(self, n):
        # do not substitute lambda parameters
        params = {a.arg for a in n.args.args}
        inner = _Subst({k: v for k, v in self.mapping.items() if k not in params})
        return ast.Lambda(args=n.args, body=inner.visit(n.body))


def expand(cfg: CFG, node: Node, expr, depth=6, stop=()):
    """Substitute local names in `expr` (as seen at CFG node `node`) by their defining
    expression when the definition is unique and its operands are unchanged between the
    definition and `node`.  Used to compare values independently of temporaries."""
    import copy
    if depth <= 0:
        return expr
    mapping = {}
    for nm in sorted({n.id for n in ast.walk(expr) if isinstance(n, ast.Name) and isinstance(n.ctx, ast.Load)}):
        if nm in stop:
            continue
        d = single_def(cfg, node, nm)
        if d is None or d.kind != "stmt":
            continue
        v = def_value(d, nm)
        if v is None:
            continue
        # operands of v must have the same reaching defs at d and at node
        ok = True
        for w in ast.walk(v):
            if isinstance(w, ast.Name) and isinstance(w.ctx, ast.Load):
                rd = [x.idx for x in cfg.reaching(d, w.id)]
                rn = [x.idx for x in cfg.reaching(node, w.id)]
                if rd != rn:
                    ok = False
                    break
        if not ok:
            continue
        mapping[nm] = expand(cfg, d, v, depth - 1, stop)
    if not mapping:
        return expr
    return ast.fix_missing_locations(_Subst(mapping).visit(copy.deepcopy(expr)))


def cond_atoms(test, positive=True):
    """Flatten a branch condition into a list of (atom expr, polarity) that are all known to hold
    when the test evaluates to `positive`.  `a and b` true -> both; `a or b` false -> both negated;
    `not a` flips."""
    out = []
    if isinstance(test, ast.BoolOp):
        if isinstance(test.op, ast.And) and positive:
            for v in test.values:
                out += cond_atoms(v, True)
            return out
        if isinstance(test.op, ast.Or) and not positive:
            for v in test.values:
                out += cond_atoms(v, False)
            return out
        return [(test, positive)]
    if isinstance(test, ast.UnaryOp) and isinstance(test.op, ast.Not):
        return cond_atoms(test.operand, not positive)
    return [(test, positive)]


def facts_at(cfg: CFG, node: Node):
    """[(atom expr, polarity, cond node)] known on every path from entry to `node`."""
    out = []
    for (c, lab) in cfg.edge_facts(node):
        if c.kind != "cond":
            continue
        for (a, pol) in cond_atoms(c.ast, lab):
            out.append((a, pol, c))
    return out


def find_calls_to(scope: Scope, ctx: Ctx, target_qual: str):
    """Call nodes in `scope` whose callee resolves (possibly among others) to target_qual."""
    out = []
    for cs in ctx.cg.sites_by_scope.get(id(scope), []):
        for v in cs.callees:
            if isinstance(v, FuncVal) and v.scope.qualname == target_qual:
                out.append(cs.node)
                break
    return out


def loop_of(cfg: CFG, node: Node):
    return node.loops[-1] if node.loops else None


def node_of(cfg: CFG, stmt_or_expr_owner):
    return cfg.node_for(stmt_or_expr_owner)


def stmt_nodes_where(cfg: CFG, pred):
    return [n for n in cfg.nodes if n.kind in ("stmt", "cond", "for") and n.ast is not None and pred(n)]


def contains_call(expr, name_pred):
    for n in ast.walk(expr):
        if isinstance(n, ast.Call):
            d = dotted(n.func)
            if d and name_pred(d):
                return n
    return None


def src(e):
    return norm_src(e) if e is not None else "<none>"
