"""Enumeration of the option space of the material factories from their source (used by C08 and by rules/frames.py).

A superset of rules/materials.option_space that does not depend on the spelling of the dispatch:

  property dictionary   the first parameter of a top-level function that is subscripted with / membership-tested against string
                        literals (whatever its name), and every name such a dictionary is passed under to another top-level function;
  option value of K     `d['K']`, `d.get('K'[, default])`, a conditional expression one arm of which is such a value (the literal in the
                        other arm is a value of K), a name assigned from such an expression;
  values of K           string literals the option value is compared with (== / !=), the members of a literal tuple / list / set /
                        the keys of a literal dict it is membership-tested against or that is indexed / `.get`-queried with it (also
                        through a name bound to such a literal), `match` cases, and literal defaults of `.get`;
  optional keys         keys whose presence is tested (`'K' in d`) or that are read with `.get`.

The enumeration only has to be a superset of the advertised options: combinations a factory rejects (it raises) are dropped by
the callers, and unknown values that a factory silently treats like its default merely duplicate the default scenario.
"""
from __future__ import annotations

import ast


def _const_str(n):
    return n.value if isinstance(n, ast.Constant) and isinstance(n.value, str) else None


def _literal_members(n, displays):
    """string members of a literal container (or of a name bound to one)"""
    if isinstance(n, ast.Name) and n.id in displays:
        out = set()
        for d in displays[n.id]:
            out |= _literal_members(d, {})
        return out
    if isinstance(n, (ast.Tuple, ast.List, ast.Set)):
        return {e.value for e in n.elts if _const_str(e) is not None}
    if isinstance(n, ast.Dict):
        return {k.value for k in n.keys if k is not None and _const_str(k) is not None}
    return set()


def _prop_dict_names(tree):
    """names under which a property dictionary is known in this module"""
    names = set()
    funcs = {f.name: f for f in tree.body if isinstance(f, ast.FunctionDef)}
    for f in funcs.values():
        ps = [a.arg for a in f.args.posonlyargs + f.args.args]
        if not ps:
            continue
        p = ps[0]
        for n in ast.walk(f):
            if isinstance(n, ast.Subscript) and isinstance(n.value, ast.Name) and n.value.id == p and _const_str(n.slice) is not None:
                names.add(p)
            elif isinstance(n, ast.Compare) and len(n.ops) == 1 and isinstance(n.ops[0], (ast.In, ast.NotIn)) and _const_str(n.left) is not None \
                    and isinstance(n.comparators[0], ast.Name) and n.comparators[0].id == p:
                names.add(p)
            elif isinstance(n, ast.Call) and isinstance(n.func, ast.Attribute) and n.func.attr == "get" and isinstance(n.func.value, ast.Name) \
                    and n.func.value.id == p and n.args and _const_str(n.args[0]) is not None:
                names.add(p)
    return names


def option_space(ctx, modules):
    """(key -> set of literals, optional keys, presence-only keys), like rules/materials.option_space"""
    values, optional, presence = {}, set(), set()
    for mname in modules:
        m = ctx.need_module(mname)
        tree = m.tree
        dicts = _prop_dict_names(tree)
        if not dicts:
            continue
        displays = {}
        for n in ast.walk(tree):
            if isinstance(n, ast.Assign) and len(n.targets) == 1 and isinstance(n.targets[0], ast.Name) and isinstance(n.value, (ast.Tuple, ast.List, ast.Set, ast.Dict)):
                displays.setdefault(n.targets[0].id, []).append(n.value)
        alias = {}

        def key_of(e):
            if isinstance(e, ast.Subscript) and isinstance(e.value, ast.Name) and e.value.id in dicts and _const_str(e.slice) is not None:
                return e.slice.value
            if isinstance(e, ast.Call) and isinstance(e.func, ast.Attribute) and e.func.attr == "get" and isinstance(e.func.value, ast.Name) \
                    and e.func.value.id in dicts and e.args and _const_str(e.args[0]) is not None:
                k = e.args[0].value
                presence.add(k)
                if len(e.args) > 1 and _const_str(e.args[1]) is not None:
                    values.setdefault(k, set()).add(e.args[1].value)
                return k
            if isinstance(e, ast.IfExp):
                for arm, other in ((e.body, e.orelse), (e.orelse, e.body)):
                    k = key_of(arm)
                    if k is not None:
                        if _const_str(other) is not None:
                            values.setdefault(k, set()).add(other.value)
                        return k
                return None
            if isinstance(e, ast.Name) and e.id in alias:
                return alias[e.id]
            return None

        # aliases (two passes: an alias of an alias)
        for _ in range(2):
            for n in ast.walk(tree):
                if isinstance(n, ast.Assign) and len(n.targets) == 1 and isinstance(n.targets[0], ast.Name):
                    k = key_of(n.value)
                    # `.get('K')` without a string default is how optional *numeric* properties are read (density): not an option
                    if k is not None and (not isinstance(n.value, ast.Call) or (len(n.value.args) > 1 and _const_str(n.value.args[1]) is not None)):
                        alias[n.targets[0].id] = k
        # `if 'K' in d: x = d['K'] else: x = 'lit'`: the literal assigned to an alias is a value of its key
        for n in ast.walk(tree):
            if isinstance(n, ast.Assign) and len(n.targets) == 1 and isinstance(n.targets[0], ast.Name) and n.targets[0].id in alias \
                    and _const_str(n.value) is not None:
                values.setdefault(alias[n.targets[0].id], set()).add(n.value.value)
        for n in ast.walk(tree):
            if isinstance(n, ast.Compare) and len(n.ops) == 1:
                l, r, op = n.left, n.comparators[0], n.ops[0]
                if isinstance(op, (ast.Eq, ast.NotEq)):
                    for a, b in ((l, r), (r, l)):
                        k = key_of(a)
                        if k is not None and _const_str(b) is not None:
                            values.setdefault(k, set()).add(b.value)
                if isinstance(op, (ast.In, ast.NotIn)):
                    if _const_str(l) is not None and isinstance(r, ast.Name) and r.id in dicts:
                        presence.add(l.value)
                    k = key_of(l)
                    if k is not None:
                        for v in _literal_members(r, displays):
                            values.setdefault(k, set()).add(v)
            elif isinstance(n, ast.Subscript):
                k = key_of(n.slice)
                if k is not None:
                    for v in _literal_members(n.value, displays):
                        values.setdefault(k, set()).add(v)
            elif isinstance(n, ast.Call) and isinstance(n.func, ast.Attribute) and n.func.attr == "get" and n.args:
                k = key_of(n.args[0])
                if k is not None:
                    for v in _literal_members(n.func.value, displays):
                        values.setdefault(k, set()).add(v)
            elif hasattr(ast, "Match") and isinstance(n, ast.Match):
                k = key_of(n.subject)
                if k is not None:
                    for c in n.cases:
                        for w in ast.walk(c.pattern):
                            if isinstance(w, ast.MatchValue) and _const_str(w.value) is not None:
                                values.setdefault(k, set()).add(w.value.value)
    # keys read with .get but never compared with a literal are plain optional properties (density ...): not options
    presence = {k for k in presence if k in values or k in _tested_presence(ctx, modules)}
    for k in list(presence):
        if k in values:
            optional.add(k)
            presence.discard(k)
    return values, optional, presence


def _tested_presence(ctx, modules):
    out = set()
    for mname in modules:
        m = ctx.need_module(mname)
        dicts = _prop_dict_names(m.tree)
        for n in ast.walk(m.tree):
            if isinstance(n, ast.Compare) and len(n.ops) == 1 and isinstance(n.ops[0], (ast.In, ast.NotIn)) and _const_str(n.left) is not None \
                    and isinstance(n.comparators[0], ast.Name) and n.comparators[0].id in dicts:
                out.add(n.left.value)
    return out
