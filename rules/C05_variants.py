"""Hand-written variants of optimism/TrustRegionSPG.py for the thorough tier of C05 (round 2): behaviour-preserving restructurings
(NamedTuple / tuple loop carries, helpers with predicates, functools.partial, dict dispatch, single-exit drivers, projection idioms,
report wrappers ...) and breaking edits on top of them.  Each entry is a chain of (old, new) text replacements that must each
apply exactly once to the reference source; chains named in PARENT are applied on top of another chain."""

CHAINS = {}
PARENT = {}

CHAINS['n1'] = [('def solve_spg_subproblem(x, cauchyStep, r, bounds, hess_vec_func, precond, trSize, settings):',
  "SpgState = namedtuple('SpgState', ['z', 'd', 'q', 'chi2', 'lam'])\n"
  '\n'
  '_LINE_SEARCHES = {True: nonmonotone_line_search, False: kouri_exact_line_search}\n'
  '\n'
  '\n'
  'def _spg_iteration(state, x, hess_vec_func, project_tr, line_search, qMax, lamMin, lamMax, settings):\n'
  '    xNew = x + state.z\n'
  '    s = project_tr(xNew - state.lam*state.d) - xNew\n'
  '    Bs = hess_vec_func(s)\n'
  '    sBs = s@Bs\n'
  '    ds = state.d@s\n'
  '    alpha = line_search(ds, sBs, state.q, qMax, settings)\n'
  '    alpha = min(1.0, alpha) if sBs > 0 else 1.0\n'
  '    z = state.z + alpha*s\n'
  '    d = state.d + alpha*Bs\n'
  '    q = state.q + alpha*(ds + 0.5*alpha*sBs)\n'
  '    lam = max(lamMin, min(lamMax, s@s/sBs)) if sBs > 0 else lamMax\n'
  '    return SpgState(z=z, d=d, q=q, chi2=state.chi2, lam=lam)\n'
  '\n'
  '\n'
  'def solve_spg_subproblem(x, cauchyStep, r, bounds, hess_vec_func, precond, trSize, settings):'),
 ('    line_search = nonmonotone_line_search if settings.spg_use_nonmonotone else kouri_exact_line_search\n',
  '    line_search = _LINE_SEARCHES[bool(settings.spg_use_nonmonotone)]\n'
  '    project_tr = partial(project_onto_tr, xk=x, bounds=bounds, trSize=trSize)\n'),
 ('    for i in range(settings.max_spg_iters):\n'
  "        # print('\\t----------')\n"
  "        # print('\\tspg iteration ', i)\n"
  '        s = project_onto_tr(xNew - lam*d, x, bounds, trSize) - xNew\n'
  "        # print('\\tnorm of tentative subproblem solution', np.linalg.norm(z + s))\n"
  '        Bs = hess_vec_func(s)\n'
  '        sBs = s@Bs\n'
  '        ds = d@s\n'
  '        qMax = max(qHistory)\n'
  '        alpha = line_search(ds, sBs, q, qMax, settings)\n'
  '        alpha = min(1.0, alpha) if sBs > 0 else 1.0\n'
  '\n'
  '        z += alpha*s\n'
  '        d += alpha*Bs\n'
  '        q += alpha*(ds + 0.5*alpha*sBs)\n'
  '        xNew = x + z\n'
  '\n'
  '        chi2 = subproblem_optimality(xNew, x, d, bounds, trSize)\n',
  '    state = SpgState(z=z, d=d, q=q, chi2=chi2, lam=lam)\n'
  '    for i in range(settings.max_spg_iters):\n'
  '        state = _spg_iteration(state, x, hess_vec_func, project_tr, line_search, max(qHistory), lamMin, lamMax, settings)\n'
  '        state = state._replace(chi2=subproblem_optimality(x + state.z, x, state.d, bounds, trSize))\n'
  '        z, q, chi2 = state.z, state.q, state.chi2\n'),
 ("        lam = max(lamMin, min(lamMax, s@s/sBs)) if sBs > 0 else lamMax\n            \n    return z, q, np.sqrt(chi2), interiorString+'_', i+1\n",
  "    return state.z, state.q, np.sqrt(state.chi2), interiorString+'_', i+1\n")]

CHAINS['n2'] = [('def bound_constrained_trust_region_minimize(objective, x, bounds, settings, callback=None):\n'
  '    trSize = settings.tr_size\n'
  '    triedNewPrecond = False\n'
  '    \n'
  '    gradient = objective.gradient\n'
  '\n'
  '    g = gradient(x)\n'
  '    o = objective.value(x)\n'
  '    R = project(x - g, bounds) - x\n'
  '    prevOptimality = np.linalg.norm(R)\n',
  "Iterate = namedtuple('Iterate', ['x', 'g', 'o', 'optimality'])\n"
  '\n'
  '\n'
  'def _projected_gradient_norm(x, g, bounds):\n'
  '    return np.linalg.norm(project(x - g, bounds) - x)\n'
  '\n'
  '\n'
  'def _evaluate_trial_point(objective, it, s, bounds, settings):\n'
  '    y = it.x + s\n'
  '    if settings.use_incremental_objective:\n'
  '        gy = objective.gradient(y)\n'
  '        realObjective = 0.5*((it.g + gy) @ s)\n'
  '    else:\n'
  '        realObjective = objective.value(y) - it.o\n'
  '        gy = objective.gradient(y)\n'
  '    return y, realObjective, gy, _projected_gradient_norm(y, gy, bounds)\n'
  '\n'
  '\n'
  'def bound_constrained_trust_region_minimize(objective, x, bounds, settings, callback=None):\n'
  '    trSize = settings.tr_size\n'
  '    triedNewPrecond = False\n'
  '\n'
  '    g0 = objective.gradient(x)\n'
  '    it = Iterate(x=x, g=g0, o=objective.value(x), optimality=_projected_gradient_norm(x, g0, bounds))\n'
  '    x, g, o, prevOptimality = it\n'),
 ('        if settings.use_incremental_objective:\n'
  '            incremental_objective = lambda d: 0.5*((g + objective.gradient(x+d)) @ d)\n'
  '        else:\n'
  '            incremental_objective = lambda d: objective.value(x+d) - o\n'
  '        \n'
  '        hess_vec_func = lambda v: objective.hessian_vec(x, v)\n',
  '        hess_vec_func = partial(objective.hessian_vec, it.x)\n'),
 ('        alpha, cauchyPoint = find_generalized_cauchy_point(x, g, hess_vec_func,\n',
  '        alpha, cauchyPoint = find_generalized_cauchy_point(it.x, it.g, hess_vec_func,\n'),
 ('            x, cauchyPoint, g, bounds, hess_vec_func,\n', '            it.x, cauchyPoint, it.g, bounds, hess_vec_func,\n'),
 ('        y = x + s\n'
  '        realObjective = incremental_objective(s)\n'
  '        gy = gradient(y)\n'
  '        R = project(y - gy, bounds) - y\n'
  '        realOptimality = np.linalg.norm(R)\n',
  '        y, realObjective, gy, realOptimality = _evaluate_trial_point(objective, it, s, bounds, settings)\n'),
 ('        willAccept = rho >= settings.eta1 or (rho >= 0 and realOptimality <= prevOptimality)\n',
  '        willAccept = rho >= settings.eta1 or (rho >= 0 and realOptimality <= it.optimality)\n'),
 ('        if willAccept:\n'
  '            x = y\n'
  '            g = gy\n'
  '            o = objective.value(x)\n'
  '            prevOptimality = realOptimality\n'
  '            triedNewPrecond = False\n'
  '            if callback: callback(x, objective)\n',
  '        if willAccept:\n'
  '            it = Iterate(x=y, g=gy, o=objective.value(y), optimality=realOptimality)\n'
  '            triedNewPrecond = False\n'
  '            if callback: callback(it.x, objective)\n'),
 ('                objective.update_precond(x)\n                cumulativeSpgIters=0\n                triedNewPrecond = True\n',
  '                objective.update_precond(it.x)\n                cumulativeSpgIters=0\n                triedNewPrecond = True\n'),
 ('                if callback: callback(x, objective)\n'
  '                return x, False\n'
  '                    \n'
  '    print("Reached the maximum number of trust region iterations.")\n'
  '    if settings.check_stability:\n'
  '        objective.check_stability(x)\n'
  '\n'
  '        if callback: callback(x, objective)\n'
  '    return x, False\n',
  '                if callback: callback(it.x, objective)\n'
  '                return it.x, False\n'
  '                    \n'
  '    print("Reached the maximum number of trust region iterations.")\n'
  '    if settings.check_stability:\n'
  '        objective.check_stability(it.x)\n'
  '\n'
  '        if callback: callback(it.x, objective)\n'
  '    return it.x, False\n'),
 ('    gHg = g@objective.hessian_vec(x, g)\n    if gHg > 0:\n        alpha = (g@g) / gHg\n    else:\n        alpha = trSize / np.linalg.norm(g)\n',
  '    gHg = it.g@objective.hessian_vec(it.x, it.g)\n'
  '    if gHg > 0:\n'
  '        alpha = (it.g@it.g) / gHg\n'
  '    else:\n'
  '        alpha = trSize / np.linalg.norm(it.g)\n'),
 ('    if is_converged(objective, x, 0.0, 0.0, prevOptimality, prevOptimality, 0,\n'
  '                    trSize, settings):\n'
  '        if callback: callback(x, objective)\n'
  '        return x, True\n',
  '    if is_converged(objective, it.x, 0.0, 0.0, it.optimality, it.optimality, 0,\n'
  '                    trSize, settings):\n'
  '        if callback: callback(it.x, objective)\n'
  '        return it.x, True\n')]

CHAINS['n1_m_cap'] = [('    alpha = min(1.0, alpha) if sBs > 0 else 1.0\n    z = state.z', '    alpha = alpha if sBs > 0 else 1.0\n    z = state.z'),
 ('    alpha = (-b + np.sqrt(b**2 - 2*sBs*(q - qMax))) / sBs\n    return alpha',
  '    alpha = (-b + np.sqrt(b**2 - 2*sBs*(q - qMax))) / sBs\n    return min(1.0, alpha)')]
PARENT['n1_m_cap'] = 'n1'

CHAINS['n1_m_centre'] = [('project_tr = partial(project_onto_tr, xk=x, bounds=bounds, trSize=trSize)',
  'project_tr = partial(project_onto_tr, xk=x + z, bounds=bounds, trSize=trSize)')]
PARENT['n1_m_centre'] = 'n1'

CHAINS['n1_m_base'] = [('    s = project_tr(xNew - state.lam*state.d) - xNew\n', '    s = project_tr(xNew - state.lam*state.d) - x\n')]
PARENT['n1_m_base'] = 'n1'

CHAINS['n2_m_stale'] = [('it = Iterate(x=y, g=gy, o=objective.value(y), optimality=realOptimality)', 'it = Iterate(x=y, g=gy, o=it.o, optimality=realOptimality)')]
PARENT['n2_m_stale'] = 'n2'

CHAINS['n2_m_measure'] = [('    return np.linalg.norm(project(x - g, bounds) - x)\n', '    return np.linalg.norm(g)\n')]
PARENT['n2_m_measure'] = 'n2'

CHAINS['n2_m_noreport'] = [('            triedNewPrecond = False\n            if callback: callback(it.x, objective)\n', '            triedNewPrecond = False\n')]
PARENT['n2_m_noreport'] = 'n2'

CHAINS['n2_m_rho'] = [('(rho >= 0 and realOptimality <= it.optimality)', '(realOptimality <= it.optimality)')]
PARENT['n2_m_rho'] = 'n2'

CHAINS['n2_m_oldpoint'] = [('            if callback: callback(y, objective)\n            return y, True',
  '            if callback: callback(y, objective)\n            return it.x, True')]
PARENT['n2_m_oldpoint'] = 'n2'

CHAINS['p1'] = [('    lb = bounds[:,0]\n    ub = bounds[:,1]\n    x = np.maximum(lb, np.minimum(x, ub))\n    return x\n',
  '    lb, ub = bounds.T\n    return np.where(x < lb, lb, np.where(x > ub, ub, x))\n')]

CHAINS['p2'] = [('    lb = bounds[:,0]\n    ub = bounds[:,1]\n    x = np.maximum(lb, np.minimum(x, ub))\n    return x\n',
  '    lb = bounds[..., 0]\n    ub = bounds[..., 1]\n    return np.where(x >= lb, np.where(x <= ub, x, ub), lb)\n')]

CHAINS['p3'] = [('    lb = bounds[:,0]\n    ub = bounds[:,1]\n    x = np.maximum(lb, np.minimum(x, ub))\n    return x\n',
  '    return x.clip(bounds[:,0], bounds[:,1])\n')]

CHAINS['p4'] = [('    lb = bounds[:,0]\n    ub = bounds[:,1]\n    x = np.maximum(lb, np.minimum(x, ub))\n    return x\n',
  '    lower, upper = np.transpose(bounds)\n    return np.minimum(np.maximum(x, lower), upper)\n')]

CHAINS['p5'] = [('    lb = bounds[:,0]\n    ub = bounds[:,1]\n    x = np.maximum(lb, np.minimum(x, ub))\n    return x\n',
  '    return np.median(np.stack([bounds[:,0], x, bounds[:,1]]), axis=0)\n')]

CHAINS['p1_m'] = [('    lb = bounds[:,0]\n    ub = bounds[:,1]\n    x = np.maximum(lb, np.minimum(x, ub))\n    return x\n',
  '    lb, ub = bounds.T\n    return np.where(x < lb, lb, np.where(x > ub, lb, x))\n')]

CHAINS['p4_m'] = [('    lb = bounds[:,0]\n    ub = bounds[:,1]\n    x = np.maximum(lb, np.minimum(x, ub))\n    return x\n',
  '    upper, lower = np.transpose(bounds)\n    return np.minimum(np.maximum(x, lower), upper)\n')]

CHAINS['q1'] = [('def bound_constrained_trust_region_minimize(objective, x, bounds, settings, callback=None):',
  'def _trial_step(objective, x, g, o, alpha, trSize, bounds, settings):\n'
  '    if settings.use_incremental_objective:\n'
  '        incremental_objective = lambda d, x=x, g=g: 0.5*((g + objective.gradient(x+d)) @ d)\n'
  '    else:\n'
  '        incremental_objective = lambda d, x=x, o=o: objective.value(x+d) - o\n'
  '    hess_vec_func = lambda v, x=x: objective.hessian_vec(x, v)\n'
  '    alpha, cauchyPoint = find_generalized_cauchy_point(x, g, hess_vec_func, bounds, alpha, trSize, settings)\n'
  '    s, modelObjective, modelOptimality, stepType, spgIters = solve_spg_subproblem(\n'
  '        x, cauchyPoint, g, bounds, hess_vec_func, objective.apply_precond, trSize, settings)\n'
  '    y = x + s\n'
  '    realObjective = incremental_objective(s)\n'
  '    gy = objective.gradient(y)\n'
  '    realOptimality = np.linalg.norm(project(y - gy, bounds) - y)\n'
  '    return alpha, y, gy, realObjective, realOptimality, modelObjective, modelOptimality, stepType, spgIters\n'
  '\n'
  '\n'
  'def bound_constrained_trust_region_minimize(objective, x, bounds, settings, callback=None):'),
 ('    for i in range(settings.max_trust_iters):\n'
  '        # minimize 0.5*(2*r + J_sd)*d = r + 0.5*dJd\n'
  '        \n'
  '        if settings.use_incremental_objective:\n'
  '            incremental_objective = lambda d: 0.5*((g + objective.gradient(x+d)) @ d)\n'
  '        else:\n'
  '            incremental_objective = lambda d: objective.value(x+d) - o\n'
  '        \n'
  '        hess_vec_func = lambda v: objective.hessian_vec(x, v)\n'
  '\n'
  '        if settings.use_preconditioned_inner_product_for_spg:\n'
  '            mult_by_approx_hessian = objective.multiply_by_approx_hessian\n'
  '        else:\n'
  '            mult_by_approx_hessian = lambda x: x\n'
  '\n'
  '        alpha, cauchyPoint = find_generalized_cauchy_point(x, g, hess_vec_func,\n'
  '                                                           bounds, alpha, trSize, settings)\n'
  '\n'
  '        s, modelObjective, modelOptimality, stepType, spgIters = solve_spg_subproblem(\n'
  '            x, cauchyPoint, g, bounds, hess_vec_func,\n'
  '            objective.apply_precond, trSize, settings)\n'
  '            \n'
  '        cumulativeSpgIters += spgIters\n'
  '        \n'
  '        trSizeUsed = trSize\n'
  '        \n'
  '        y = x + s\n'
  '        realObjective = incremental_objective(s)\n'
  '        gy = gradient(y)\n'
  '        R = project(y - gy, bounds) - y\n'
  '        realOptimality = np.linalg.norm(R)\n',
  '    trustIters = 0\n'
  '    while trustIters < settings.max_trust_iters:\n'
  '        trustIters += 1\n'
  '        (alpha, y, gy, realObjective, realOptimality, modelObjective, modelOptimality,\n'
  '         stepType, spgIters) = _trial_step(objective, x, g, o, alpha, trSize, bounds, settings)\n'
  '        cumulativeSpgIters += spgIters\n'
  '        trSizeUsed = trSize\n')]

CHAINS['q1_m_obj'] = [('incremental_objective = lambda d, x=x, o=o: objective.value(x+d) - o', 'incremental_objective = lambda d, x=x, o=o: objective.value(x+d) + o')]
PARENT['q1_m_obj'] = 'q1'

CHAINS['q1_m_meas'] = [('    realOptimality = np.linalg.norm(project(y - gy, bounds) - y)\n', '    realOptimality = np.linalg.norm(project(x - gy, bounds) - x)\n')]
PARENT['q1_m_meas'] = 'q1'

CHAINS['q2'] = [('    xBar0 = objective.scaling * x0\n    lBar = objective.scaling * lowerBounds\n    uBar = objective.scaling * upperBounds\n',
  '    def scaled(v):\n        return objective.scaling * v\n\n    xBar0 = scaled(x0)\n'),
 ('    bounds = np.column_stack((lBar, uBar))\n', '    bounds = np.stack([scaled(lowerBounds), scaled(upperBounds)], axis=-1)\n'),
 ('    if useWarmStart:\n'
  '        if updatePrecond:\n'
  '            objective.update_precond(xBar0)\n'
  '        \n'
  '        dxBar = WarmStart.warm_start_increment(objective,\n'
  '                                               xBar0, p)\n'
  '        xBar0 += dxBar\n'
  '        objective.p = p\n'
  '    else:\n'
  '        objective.p = p\n',
  '    if useWarmStart:\n'
  '        if updatePrecond:\n'
  '            objective.update_precond(xBar0)\n'
  '        xBar0 = xBar0 + WarmStart.warm_start_increment(objective, xBar0, p)\n'
  "    setattr(objective, 'p', p)\n")]

CHAINS['q2_m'] = [('np.stack([scaled(lowerBounds), scaled(upperBounds)], axis=-1)', 'np.stack([scaled(lowerBounds), upperBounds], axis=-1)')]
PARENT['q2_m'] = 'q2'

CHAINS['q2_m2'] = [('    if useWarmStart:\n        if updatePrecond:\n            objective.update_precond(xBar0)\n        xBar0 = xBar0 +',
  "    setattr(objective, 'p', p)\n"
  '    if useWarmStart:\n'
  '        if updatePrecond:\n'
  '            objective.update_precond(xBar0)\n'
  '        xBar0 = xBar0 +')]
PARENT['q2_m2'] = 'q2'

CHAINS['q3'] = [('        i = 0\n'
  '        search = True\n'
  '        while search:\n'
  "            # print('i', i)\n"
  '            alpha *= cutback\n'
  '            s = project(x - alpha*g, bounds) - x\n'
  '            i += 1\n'
  '            search = m(s) > mu0*g@s and i < maxLineSearchIters\n'
  '        if i == maxLineSearchIters:\n'
  "            raise RuntimeError('No acceptable Cauchy point found after maximum allowed line search iterations')\n",
  '        for i in range(1, maxLineSearchIters + 1):\n'
  '            alpha = cutback*alpha\n'
  '            s = project(x - alpha*g, bounds) - x\n'
  '            if not (m(s) > mu0*g@s):\n'
  '                break\n'
  '        if i == maxLineSearchIters:\n'
  "            raise RuntimeError('No acceptable Cauchy point found after maximum allowed line search iterations')\n"),
 ('        i = 0\n'
  '        search = True\n'
  '        while search:\n'
  '            alpha *= cutback\n'
  '            s = project(x - alpha*g, bounds) - x\n'
  '            ss = s@s\n'
  '            i += 1\n'
  '            search = ss > deltaSquared and i < maxLineSearchIters\n'
  '        if i == maxLineSearchIters:\n'
  "            raise RuntimeError('No acceptable Cauchy point found after maximum allowed line search iterations')\n",
  '        carry = (alpha, s, 0)\n'
  '        while True:\n'
  '            carry = (carry[0]*cutback, project(x - carry[0]*cutback*g, bounds) - x, carry[2] + 1)\n'
  '            if not (carry[1]@carry[1] > deltaSquared and carry[2] < maxLineSearchIters):\n'
  '                break\n'
  '        alpha, s, i = carry\n'
  '        if i == maxLineSearchIters:\n'
  "            raise RuntimeError('No acceptable Cauchy point found after maximum allowed line search iterations')\n")]

CHAINS['q3_m'] = [('            carry = (carry[0]*cutback, project(x - carry[0]*cutback*g, bounds) - x, carry[2] + 1)\n',
  '            carry = (carry[0]*cutback, cutback*carry[1] - x, carry[2] + 1)\n')]
PARENT['q3_m'] = 'q3'

CHAINS['q4'] = [('    # this could potentially return an unstable solution\n'
  '    if is_converged(objective, x, 0.0, 0.0, prevOptimality, prevOptimality, 0,\n'
  '                    trSize, settings):\n'
  '        if callback: callback(x, objective)\n'
  '        return x, True\n',
  '    def finish(point, success):\n'
  '        if callback: callback(point, objective)\n'
  '        return point, success\n'
  '\n'
  '    def below_tolerance(point, optimality, realO, modelO, modelOptimality, spgIters, trSizeUsed):\n'
  '        if not optimality < settings.tol:\n'
  '            return False\n'
  '        print_min_banner(realO, modelO, optimality, modelOptimality, spgIters, trSizeUsed, interiorString, True, settings)\n'
  '        if settings.check_stability:\n'
  '            objective.check_stability(point)\n'
  "        print('')\n"
  '        return True\n'
  '\n'
  '    if below_tolerance(x, prevOptimality, 0.0, 0.0, prevOptimality, 0, trSize):\n'
  '        return finish(x, True)\n'),
 ('        if is_converged(objective, y, realObjective, modelObjective,\n'
  '                        realOptimality, modelOptimality, spgIters, trSizeUsed,\n'
  '                        settings):\n'
  '            if callback: callback(y, objective)\n'
  '            return y, True\n',
  '        if below_tolerance(y, realOptimality, realObjective, modelObjective, modelOptimality, spgIters, trSizeUsed):\n'
  '            return finish(y, True)\n'),
 ('                if callback: callback(x, objective)\n                return x, False\n', '                return finish(x, False)\n')]

CHAINS['q4_m'] = [('        if not optimality < settings.tol:\n            return False\n', '        if optimality >= settings.tol:\n            return False\n')]
PARENT['q4_m'] = 'q4'

CHAINS['q4_m2'] = [('                return finish(x, False)\n', '                return finish(x, True)\n')]
PARENT['q4_m2'] = 'q4'

CHAINS['s1'] = [('        alpha = min(1.0, alpha) if sBs > 0 else 1.0\n', '        alpha = np.clip(alpha, None, 1.0) if sBs > 0 else 1.0\n')]

CHAINS['s1b'] = [('        alpha = min(1.0, alpha) if sBs > 0 else 1.0\n', '        alpha = float(np.clip(alpha, -np.inf, 1.0)) if sBs > 0 else 1.0\n')]

CHAINS['s1_m'] = [('        alpha = min(1.0, alpha) if sBs > 0 else 1.0\n', '        alpha = np.clip(alpha, None, 10.0) if sBs > 0 else 1.0\n')]

CHAINS['s7'] = [('        if is_converged(objective, y, realObjective, modelObjective,\n'
  '                        realOptimality, modelOptimality, spgIters, trSizeUsed,\n'
  '                        settings):\n'
  '            if callback: callback(y, objective)\n'
  '            return y, True\n',
  '        if is_converged(objective, y, realObjective, modelObjective,\n'
  '                        realOptimality, modelOptimality, spgIters, trSizeUsed,\n'
  '                        settings):\n'
  '            x = y\n'
  '            solved = True\n'
  '            break\n'),
 ('    cumulativeSpgIters=0\n    \n    for i in range(settings.max_trust_iters):\n',
  '    cumulativeSpgIters=0\n    solved = False\n    gaveUp = False\n    \n    for i in range(settings.max_trust_iters):\n'),
 ('                print("The trust region is still too small.  Accepting, but be careful.")\n'
  '                if callback: callback(x, objective)\n'
  '                return x, False\n'
  '                    \n'
  '    print("Reached the maximum number of trust region iterations.")\n'
  '    if settings.check_stability:\n'
  '        objective.check_stability(x)\n'
  '\n'
  '        if callback: callback(x, objective)\n'
  '    return x, False\n',
  '                print("The trust region is still too small.  Accepting, but be careful.")\n'
  '                gaveUp = True\n'
  '                break\n'
  '\n'
  '    if solved or gaveUp:\n'
  '        if callback: callback(x, objective)\n'
  '        return x, solved\n'
  '\n'
  '    print("Reached the maximum number of trust region iterations.")\n'
  '    if settings.check_stability:\n'
  '        objective.check_stability(x)\n'
  '\n'
  '        if callback: callback(x, objective)\n'
  '    return x, False\n')]

CHAINS['s7_m'] = [('                gaveUp = True\n                break\n', '                solved = True\n                break\n')]
PARENT['s7_m'] = 's7'

CHAINS['t1'] = [('    lb = bounds[:,0]\n    ub = bounds[:,1]\n    x = np.maximum(lb, np.minimum(x, ub))\n    return x\n', '    return np.clip(x, *bounds.T)\n')]

CHAINS['t2'] = [('        if not rho >= settings.eta2:  # write it this way to handle NaNs\n            trSize *= settings.t1\n',
  '        if rho < settings.eta2 or np.isnan(rho):\n            trSize *= settings.t1\n')]

CHAINS['t2_m'] = [('        if not rho >= settings.eta2:  # write it this way to handle NaNs\n            trSize *= settings.t1\n',
  '        if rho < settings.eta2 and not np.isnan(rho):\n            trSize *= settings.t1\n')]

CHAINS['t3'] = [('def solve_spg_subproblem(x, cauchyStep, r, bounds, hess_vec_func, precond, trSize, settings):',
  "SpgResult = namedtuple('SpgResult', ['step', 'modelObjective', 'modelOptimality', 'stepType', 'iters'])\n"
  '\n'
  '\n'
  'def solve_spg_subproblem(x, cauchyStep, r, bounds, hess_vec_func, precond, trSize, settings):'),
 ('        return z, q, np.sqrt(chi2), cauchyString, 0\n', '        return SpgResult(z, q, np.sqrt(chi2), cauchyString, 0)\n'),
 ('            return z, q, np.sqrt(chi2), boundaryString, i+1\n',
  '            return SpgResult(step=z, modelObjective=q, modelOptimality=np.sqrt(chi2), stepType=boundaryString, iters=i+1)\n'),
 ("    return z, q, np.sqrt(chi2), interiorString+'_', i+1\n", "    return SpgResult(z, q, np.sqrt(chi2), interiorString+'_', i+1)\n"),
 ('        s, modelObjective, modelOptimality, stepType, spgIters = solve_spg_subproblem(\n'
  '            x, cauchyPoint, g, bounds, hess_vec_func,\n'
  '            objective.apply_precond, trSize, settings)\n',
  '        sub = solve_spg_subproblem(\n'
  '            x, cauchyPoint, g, bounds, hess_vec_func,\n'
  '            objective.apply_precond, trSize, settings)\n'
  '        s, modelObjective, modelOptimality = sub.step, sub.modelObjective, sub.modelOptimality\n'
  '        stepType, spgIters = sub.stepType, sub.iters\n')]

CHAINS['t4'] = [('        R = project(y - gy, bounds) - y\n        realOptimality = np.linalg.norm(R)\n',
  '        R = y - project(y - gy, bounds)\n        realOptimality = np.sqrt(np.vdot(R, R))\n')]

CHAINS['t5'] = [('        R = project(y - gy, bounds) - y\n        realOptimality = np.linalg.norm(R)\n',
  '        R = project(y - gy, bounds) - y\n        realOptimality = np.sqrt(np.sum(R**2))\n')]

CHAINS['u1'] = [('    trSize = settings.tr_size\n    triedNewPrecond = False\n    \n    gradient = objective.gradient\n',
  '    trSize = settings.tr_size\n'
  '    triedNewPrecond = False\n'
  '    report = (lambda point: callback(point, objective)) if callback else (lambda point: None)\n'
  '    \n'
  '    gradient = objective.gradient\n'),
 ('        if callback: callback(x, objective)\n        return x, True\n', '        report(x)\n        return x, True\n'),
 ('            if callback: callback(y, objective)\n            return y, True\n', '            report(y)\n            return y, True\n'),
 ('            triedNewPrecond = False\n            if callback: callback(x, objective)\n',
  '            triedNewPrecond = False\n            report(x)\n'),
 ('                if callback: callback(x, objective)\n                return x, False\n',
  '                report(x)\n                return x, False\n')]

CHAINS['u1_m'] = [('            triedNewPrecond = False\n            report(x)\n', '            triedNewPrecond = False\n')]
PARENT['u1_m'] = 'u1'

CHAINS['u14'] = [('    trSize = settings.tr_size\n    triedNewPrecond = False\n    \n    gradient = objective.gradient\n',
  '    trSize = settings.tr_size\n'
  '    triedNewPrecond = False\n'
  '    report = partial(callback, objective=objective) if callback is not None else (lambda point: None)\n'
  '    \n'
  '    gradient = objective.gradient\n'),
 ('        if callback: callback(x, objective)\n        return x, True\n', '        report(x)\n        return x, True\n'),
 ('            if callback: callback(y, objective)\n            return y, True\n', '            report(y)\n            return y, True\n'),
 ('            triedNewPrecond = False\n            if callback: callback(x, objective)\n',
  '            triedNewPrecond = False\n            report(x)\n'),
 ('                if callback: callback(x, objective)\n                return x, False\n',
  '                report(x)\n                return x, False\n')]

CHAINS['u8'] = [('    lBar = objective.scaling * lowerBounds\n    uBar = objective.scaling * upperBounds\n', ''),
 ('    bounds = np.column_stack((lBar, uBar))\n', '    bounds = objective.scaling[:, None] * np.column_stack((lowerBounds, upperBounds))\n')]

CHAINS['u10'] = [('        alpha = line_search(ds, sBs, q, qMax, settings)\n        alpha = min(1.0, alpha) if sBs > 0 else 1.0\n\n        z += alpha*s\n',
  '        alpha = 1.0 if not sBs > 0 else min(1.0, line_search(ds, sBs, q, qMax, settings))\n\n        zNew = z + alpha*s\n        z = zNew\n')]


def full_chain(name):
    """all (old, new) pairs of a variant, parents first"""
    pairs = []
    if name in PARENT:
        pairs += full_chain(PARENT[name])
    return pairs + list(CHAINS[name])


# ---- closures -> module-level functions bound with functools.partial / root finder `args=` (own version of that kind of change)
CHAINS['v_partial'] = [
    ("def project_onto_tr(x, xk, bounds, trSize):",
     "def _distance_to_tr_boundary(t, target, centre, bounds, radius):\n    r = project(centre + t*(target - centre), bounds) - centre\n    return r@r - radius*radius\n\n\n"
     "def _model_decrease(hessVec, gradient, step):\n    return 0.5*step@hessVec(step) + gradient@step\n\n\n"
     "def project_onto_tr(x, xk, bounds, trSize):"),
    ("    def f(t):\n        r = project(xk + t*(x - xk), bounds) - xk\n        return r@r - trSize*trSize\n\n", ""),
    ("    t, results = optimize.brentq(f, 0.0, 1.0, full_output=True)\n",
     "    t, results = optimize.brentq(_distance_to_tr_boundary, 0.0, 1.0, args=(x, xk, bounds, trSize), full_output=True)\n"),
    ("    def m(s): return 0.5*s@hess_vec_func(s) + g@s\n", "    m = partial(_model_decrease, hess_vec_func, g)\n"),
    ("        hess_vec_func = lambda v: objective.hessian_vec(x, v)\n", "        hess_vec_func = partial(objective.hessian_vec, x)\n"),
]
CHAINS['v_partial_m'] = [("    return project(xk + t*(x - xk), bounds)\n", "    return xk + t*(x - xk)\n")]
PARENT['v_partial_m'] = 'v_partial'

# ---- the two cut-back loops of the Cauchy search merged into one helper that takes the rejection test as a function
CHAINS['v_split'] = [
    ("def find_generalized_cauchy_point(x, g, hess_vec_func, bounds, alpha, trSize, settings):",
     "def _shrink_step(x, g, bounds, alpha, shrink, rejected, maxIters):\n"
     "    count = 0\n"
     "    while True:\n"
     "        alpha = alpha*shrink\n"
     "        step = project(x - alpha*g, bounds) - x\n"
     "        count += 1\n"
     "        if not (rejected(step) and count < maxIters):\n"
     "            break\n"
     "    if count == maxIters:\n"
     "        raise RuntimeError('No acceptable Cauchy point found after maximum allowed line search iterations')\n"
     "    return alpha, step\n\n\n"
     "def find_generalized_cauchy_point(x, g, hess_vec_func, bounds, alpha, trSize, settings):"),
    ("        i = 0\n        search = True\n        while search:\n            # print('i', i)\n            alpha *= cutback\n            s = project(x - alpha*g, bounds) - x\n            i += 1\n            search = m(s) > mu0*g@s and i < maxLineSearchIters\n        if i == maxLineSearchIters:\n            raise RuntimeError('No acceptable Cauchy point found after maximum allowed line search iterations')\n",
     "        alpha, s = _shrink_step(x, g, bounds, alpha, cutback, lambda step: m(step) > mu0*g@step, maxLineSearchIters)\n"),
    ("        i = 0\n        search = True\n        while search:\n            alpha *= cutback\n            s = project(x - alpha*g, bounds) - x\n            ss = s@s\n            i += 1\n            search = ss > deltaSquared and i < maxLineSearchIters\n        if i == maxLineSearchIters:\n            raise RuntimeError('No acceptable Cauchy point found after maximum allowed line search iterations')\n",
     "        alpha, s = _shrink_step(x, g, bounds, alpha, cutback, lambda step: step@step > deltaSquared, maxLineSearchIters)\n"),
]
CHAINS['v_split_m'] = [("        step = project(x - alpha*g, bounds) - x\n        count += 1\n", "        step = -alpha*g\n        count += 1\n")]
PARENT['v_split_m'] = 'v_split'

# (variant name, chain, rule that must refute it | None for a behaviour-preserving change)
EXPECT = [
    ("SPG: NamedTuple loop state, iteration helper, dict dispatch of the line search, partial projection", "n1", None),
    ("... without the step cap in one line search", "n1_m_cap", "D3/T9-feasible-by-construction"),
    ("... projection centred at the moving point", "n1_m_centre", "D3/T9-feasible-by-construction"),
    ("... direction measured from the wrong base point", "n1_m_base", "D3/T9-feasible-by-construction"),
    ("driver: NamedTuple iterate, trial-point helper, measure helper, partial", "n2", None),
    ("... stale reference objective in the new iterate", "n2_m_stale", "D2/T8-descent"),
    ("... measure helper without projection", "n2_m_measure", "D1/T1-guarded-success"),
    ("... accepted iterate not reported", "n2_m_noreport", "D3/T2-reported-iterate"),
    ("... acceptance without rho >= 0", "n2_m_rho", "D2/T8-descent"),
    ("... success returns the old iterate", "n2_m_oldpoint", "D1/T1-guarded-success"),
    ("project by nested np.where, bounds.T unpacked", "p1", None),
    ("... upper side clamps to the lower bound", "p1_m", "D3/T9-feasible-by-construction"),
    ("project by np.where with mirrored tests, bounds[..., k]", "p2", None),
    ("project by the array method x.clip", "p3", None),
    ("project by minimum(maximum(.)), np.transpose(bounds)", "p4", None),
    ("... bound rows unpacked in the wrong order", "p4_m", "D3/T9-feasible-by-construction"),
    ("driver: loop body in a helper, lambdas with default-argument binding, while loop", "q1", None),
    ("... actual reduction with the wrong sign of the reference", "q1_m_obj", "D2/T8-descent"),
    ("... measure taken at the old iterate", "q1_m_meas", "D1/T1-guarded-success"),
    ("solve: scaling closure, np.stack(axis=-1), setattr, single assignment of the parameters", "q2", None),
    ("... upper bounds not scaled", "q2_m", "D3/T9-feasible-by-construction"),
    ("... parameters assigned before the warm start", "q2_m2", "D1/T2-parameters-before-solve"),
    ("Cauchy: for/break loop, tuple carry with while True", "q3", None),
    ("... carried step scaled instead of projected", "q3_m", "D3/T9-feasible-by-construction"),
    ("driver: convergence test as a closure, exits through a finish helper", "q4", None),
    ("... NaN passes the closure test", "q4_m", "D1/T1-guarded-success"),
    ("... small-radius exit reports success", "q4_m2", "D1/T1-guarded-success"),
    ("step cap by np.clip(alpha, None, 1.0)", "s1", None),
    ("step cap by np.clip(alpha, -np.inf, 1.0)", "s1b", None),
    ("... cap at 10", "s1_m", "D3/T9-feasible-by-construction"),
    ("driver: single exit (flags + break), success point stored in the iterate", "s7", None),
    ("... giving up reports success", "s7_m", "D1/T1-guarded-success"),
    ("project by np.clip(x, *bounds.T)", "t1", None),
    ("radius shrink test as `rho < eta2 or isnan(rho)`", "t2", None),
    ("... `rho < eta2 and not isnan(rho)`", "t2_m", "D4/T12-nan-polarity"),
    ("SPG returns a NamedTuple, driver reads its fields", "t3", None),
    ("measure as sqrt(vdot(R, R)) of the mirrored vector", "t4", None),
    ("measure as sqrt(sum(R**2))", "t5", None),
    ("report wrapper lambda chosen by the presence of the callback", "u1", None),
    ("... accepted iterate not reported through the wrapper", "u1_m", "D3/T2-reported-iterate"),
    ("report wrapper as functools.partial", "u14", None),
    ("SPG: mirrored cap expression, step through a temporary", "u10", None),
    ("closures as module functions bound with partial / brentq args", "v_partial", None),
    ("... unprojected return of project_onto_tr", "v_partial_m", "D3/T9-feasible-by-construction"),
    ("Cauchy cut-back loops merged into a helper taking the rejection test", "v_split", None),
    ("... helper without projection", "v_split_m", "D3/T9-feasible-by-construction"),
]


# ---- further restructurings: conditional tuple assignment of the new state, a small class for the radius, state tuples with slices, a callable class
CHAINS['w2'] = [('        if willAccept:\n'
  '            x = y\n'
  '            g = gy\n'
  '            o = objective.value(x)\n'
  '            prevOptimality = realOptimality\n'
  '            triedNewPrecond = False\n'
  '            if callback: callback(x, objective)\n',
  '        x, g, o, prevOptimality = (y, gy, objective.value(y), realOptimality) if willAccept else (x, g, o, prevOptimality)\n'
  '        if willAccept:\n'
  '            triedNewPrecond = False\n'
  '            if callback: callback(x, objective)\n')]
CHAINS['w2_m'] = [('        if willAccept:\n'
  '            x = y\n'
  '            g = gy\n'
  '            o = objective.value(x)\n'
  '            prevOptimality = realOptimality\n'
  '            triedNewPrecond = False\n'
  '            if callback: callback(x, objective)\n',
  '        x, g, o, prevOptimality = (y, gy, o, realOptimality) if willAccept else (x, g, o, prevOptimality)\n'
  '        if willAccept:\n'
  '            triedNewPrecond = False\n'
  '            if callback: callback(x, objective)\n')]
CHAINS['w8'] = [('def bound_constrained_trust_region_minimize(objective, x, bounds, settings, callback=None):\n    trSize = settings.tr_size\n',
  'class _TrustRegion:\n'
  '    def __init__(self, size):\n'
  '        self.size = size\n'
  '\n'
  '    def shrink(self, factor):\n'
  '        self.size *= factor\n'
  '\n'
  '    def grow(self, factor):\n'
  '        self.size *= factor\n'
  '\n'
  '\n'
  'def bound_constrained_trust_region_minimize(objective, x, bounds, settings, callback=None):\n'
  '    region = _TrustRegion(settings.tr_size)\n'
  '    trSize = region.size\n'),
 ('        if not rho >= settings.eta2:  # write it this way to handle NaNs\n'
  '            trSize *= settings.t1\n'
  '        elif rho > settings.eta3 and is_on_boundary(stepType):\n'
  '            trSize *= settings.t2\n',
  '        if not rho >= settings.eta2:  # write it this way to handle NaNs\n'
  '            region.shrink(settings.t1)\n'
  '        elif rho > settings.eta3 and is_on_boundary(stepType):\n'
  '            region.grow(settings.t2)\n'
  '        trSize = region.size\n'),
 ('                triedNewPrecond = True\n                trSize = settings.tr_size                    \n',
  '                triedNewPrecond = True\n                region.size = settings.tr_size\n                trSize = region.size\n')]
CHAINS['w17'] = [('        search = True\n'
  '        i = 0\n'
  '        while search:\n'
  "            # print('i', i)\n"
  '            if qTry <= mu0*g@sTry and np.abs(q-qTry) > qTol*np.abs(q):\n'
  '                alpha = alphaTry\n'
  '                s = sTry\n'
  '            else:\n'
  '                search = False\n'
  '                             \n'
  '            alphaTry /= cutback\n'
  '            sTry = project(x - alphaTry*g, bounds) - x\n'
  '            qTry = m(sTry)\n'
  '            i += 1\n'
  '\n'
  '            # We need to check against the trust region size\n'
  '            # here in case the Hessian has negative eigenvalues.\n'
  '            if sTry@sTry >= deltaSquared or i == maxLineSearchIters:\n'
  '                search = False\n',
  '        best = (alpha, s)\n'
  '        trial = (alphaTry, sTry, qTry)\n'
  '        for i in range(1, maxLineSearchIters + 1):\n'
  '            improved = trial[2] <= mu0*g@trial[1] and np.abs(q-trial[2]) > qTol*np.abs(q)\n'
  '            if improved:\n'
  '                best = trial[:2]\n'
  '            nextAlpha = trial[0]/cutback\n'
  '            nextStep = project(x - nextAlpha*g, bounds) - x\n'
  '            trial = (nextAlpha, nextStep, m(nextStep))\n'
  '            if not improved or nextStep@nextStep >= deltaSquared:\n'
  '                break\n'
  '        alpha, s = best\n')]
CHAINS['w8_m'] = [('    def shrink(self, factor):\n        self.size *= factor\n', '    def shrink(self, factor):\n        self.size *= 1.0\n')]
PARENT['w8_m'] = 'w8'
CHAINS['w9'] = [('def find_generalized_cauchy_point(x, g, hess_vec_func, bounds, alpha, trSize, settings):',
  'class _QuadraticModel:\n'
  '    def __init__(self, gradient, hessVec):\n'
  '        self.gradient = gradient\n'
  '        self.hessVec = hessVec\n'
  '\n'
  '    def __call__(self, s):\n'
  '        return 0.5*s@self.hessVec(s) + self.gradient@s\n'
  '\n'
  '    def sufficient_decrease(self, s, mu0):\n'
  '        return self(s) <= mu0*self.gradient@s\n'
  '\n'
  '\n'
  'def find_generalized_cauchy_point(x, g, hess_vec_func, bounds, alpha, trSize, settings):'),
 ('    def m(s): return 0.5*s@hess_vec_func(s) + g@s\n', '    m = _QuadraticModel(g, hess_vec_func)\n'),
 ('    intialStepAcceptable = m(s) <= mu0*g@s\n', '    intialStepAcceptable = m.sufficient_decrease(s, mu0)\n')]

EXPECT += [
    ("driver: new state by one conditional tuple assignment", "w2", None),
    ("... stale reference objective in the tuple", "w2_m", "D2/T8-descent"),
    ("driver: radius kept in a small class with shrink / grow methods", "w8", None),
    ("... shrink method does not shrink", "w8_m", "D4/T12-nan-polarity"),
    ("Cauchy: quadratic model as a callable class with a sufficient-decrease method", "w9", None),
    ("Cauchy: forward tracking with state tuples, slices and for/break", "w17", None),
]
