"""Self-test inputs of C15 (thorough tier): in-memory edits of optimism/Mechanics.py.  A Variant whose last argument is a rule id must be
REFUTED by that rule; `None` means the edit preserves behaviour and every verdict must stay as on the unmodified tree."""
from __future__ import annotations


def variants(repo):
    from optilint.selftest import Variant, sub, sub_in_func, alpha_rename, reformat
    P = "optimism/Mechanics.py"
    return [
        Variant("un-projected transformation kept in an unused local", "optimism/Mechanics.py",
                sub_in_func("create_dynamics_functions", "    modify_element_gradient = define_pressure_projection_gradient_tranformation(\n        functionSpace, pressureProjectionDegree, modify_element_gradient)",
                            "    grad_2D_to_3D = modify_element_gradient\n    modify_element_gradient = define_pressure_projection_gradient_tranformation(functionSpace, pressureProjectionDegree, modify_element_gradient)\n    _unused = grad_2D_to_3D"), None),
        Variant("dynamics: axisymmetric mode selects the plane-strain transformation", "optimism/Mechanics.py",
                sub("        grad_2D_to_3D = axisymmetric_element_gradient_transformation\n    else:\n        raise ValueError", "        grad_2D_to_3D = plane_strain_gradient_transformation\n    else:\n        raise ValueError"), "D2/T14-mode-dispatch"),
        Variant("(1-2beta) -> (1-beta)", P, sub("0.5*dt*dt*(1.0 - 2.0*newmarkParameters.beta)*A", "0.5*dt*dt*(1.0 - newmarkParameters.beta)*A"), "D1/T7-newmark-formulas"),
        Variant("gamma <-> beta in correct", P, sub("        V += dt*newmarkParameters.gamma*A", "        V += dt*newmarkParameters.beta*A"), "D1/T7-newmark-formulas"),
        Variant("predictor velocity with gamma", P, sub("        V += dt*(1.0 - newmarkParameters.gamma)*A", "        V += dt*newmarkParameters.gamma*A"), "D1/T7-newmark-formulas"),
        Variant("corrector 1/(beta dt)", P, sub("        A = UCorrection/(newmarkParameters.beta*dt*dt)", "        A = UCorrection/(newmarkParameters.beta*dt)"), "D1/T7-newmark-formulas"),
        Variant("inertia factor 1/(beta dt)", P, sub("    KE *= 1 / (newmarkBeta*dt**2)", "    KE *= 1 / (newmarkBeta*dt)"), "D2/T7-inertia-wiring"),
        Variant("inertia of U only", P, sub_in_func("compute_newmark_lagrangian", "integrate_over_block(functionSpace, U - UPredicted, internals, dt,", "integrate_over_block(functionSpace, U, internals, dt,"), "D2/T7-inertia-wiring"),
        Variant("kinetic density without 1/2", P, sub("    return 0.5*density*np.dot(V, V)", "    return density*np.dot(V, V)"), "D2/T7-inertia-wiring"),
        Variant("hessian inertia factor", P, sub("kinetic_energy_density(W, density)/(newmarkBeta*dtime**2)", "kinetic_energy_density(W, density)/(newmarkBeta*dtime)"), "D2/T7-inertia-wiring"),
        Variant("energy gets gamma", P, sub_in_func("create_dynamics_functions", "materialModel.density, dt, newmarkParameters.beta,\n                                          materialModel.compute_energy_density,",
                                                   "materialModel.density, dt, newmarkParameters.gamma,\n                                          materialModel.compute_energy_density,"), "D2/T7-inertia-wiring"),
        Variant("reformat", P, reformat(), None),
        Variant("rename corrector local", P, sub("        A = UCorrection/(newmarkParameters.beta*dt*dt)\n        V += dt*newmarkParameters.gamma*A\n        return V, A",
                                               "        ANew = UCorrection/(newmarkParameters.beta*dt*dt)\n        V += dt*newmarkParameters.gamma*ANew\n        return V, ANew"), None),
        Variant("equivalent predictor form", P, sub("0.5*dt*dt*(1.0 - 2.0*newmarkParameters.beta)*A", "dt*dt*(0.5 - newmarkParameters.beta)*A"), None),
        Variant("equivalent inertia factor", P, sub("    KE *= 1 / (newmarkBeta*dt**2)", "    KE *= 1.0 / (dt*dt*newmarkBeta)"), None),
        Variant("inertia factor inside the integrand", P, sub("        return kinetic_energy_density(W, density)\n    KE =  FunctionSpace.integrate_over_block(functionSpace, U - UPredicted, internals, dt,\n                                             lagrangian_density, slice(None))\n    KE *= 1 / (newmarkBeta*dt**2)\n",
                                                               "        return kinetic_energy_density(W, density)/(newmarkBeta*dtime*dtime)\n    KE =  FunctionSpace.integrate_over_block(functionSpace, U - UPredicted, internals, dt,\n                                             lagrangian_density, slice(None))\n"), None),
        Variant("inertia of the negated difference", P, sub_in_func("compute_newmark_lagrangian", "integrate_over_block(functionSpace, U - UPredicted, internals, dt,", "integrate_over_block(functionSpace, UPredicted - U, internals, dt,"), None),
        Variant("hessian linearised about U - UPredicted", P, sub("    return f(U, fs.mesh.coords, internals, dt, fs.mesh.conns, fs.shapes, fs.shapeGrads, fs.vols,\n             lagrangian_density, modify_element_gradient)",
                                                                   "    return f(U - UPredicted, fs.mesh.coords, internals, dt, fs.mesh.conns, fs.shapes, fs.shapeGrads, fs.vols,\n             lagrangian_density, modify_element_gradient)"), "D2/T7-inertia-wiring"),
        Variant("strain energy without the gradient transformation", P, sub_in_func("compute_newmark_lagrangian", "                                            slice(None), modify_element_gradient=modify_element_gradient)", "                                            slice(None))"), "D2/T7-inertia-wiring"),
        Variant("strain energy weighted by beta", P, sub_in_func("compute_newmark_lagrangian", "    return SE + KE", "    return newmarkBeta*SE + KE"), "D2/T7-inertia-wiring"),
    ] + more_variants()


def multi(*pairs):
    """several textual replacements, each of which must apply exactly once (otherwise the variant is inapplicable on this tree)"""
    def f(src):
        for old, new in pairs:
            if src.count(old) != 1:
                return None
            src = src.replace(old, new)
        return src
    return f


# ---- building blocks of restructured (behaviour-preserving) forms of the dynamics code
_PARSE_OLD = """def parse_2D_to_3D_gradient_transformation(mode2D):
    if mode2D == 'plane strain':
        grad_2D_to_3D = plane_strain_gradient_transformation
    elif mode2D == 'axisymmetric':
        grad_2D_to_3D = axisymmetric_element_gradient_transformation
    else:
        raise ValueError("Unrecognized value for mode2D")
    
    return grad_2D_to_3D
"""
_PARSE_TABLE = """def _gradient_transformations():
    table = dict()
    table['plane strain'] = plane_strain_gradient_transformation
    table['axisymmetric'] = %s
    return table


def parse_2D_to_3D_gradient_transformation(mode2D):
    transformation = _gradient_transformations().get(mode2D)
    if transformation is None:
        raise ValueError("Unrecognized value for mode2D")
    return transformation
"""
_PARSE_MATCH = """def parse_2D_to_3D_gradient_transformation(mode2D):
    match mode2D:
        case 'axisymmetric':
            return %s
        case 'plane strain':
            return plane_strain_gradient_transformation
        case _:
            raise ValueError(f"Unrecognized value for mode2D: {mode2D}")
"""
_STEP_OLD = """    def predict(U, V, A, dt):
        U += dt*V + 0.5*dt*dt*(1.0 - 2.0*newmarkParameters.beta)*A
        V += dt*(1.0 - newmarkParameters.gamma)*A
        return U, V

    def correct(UCorrection, V, A, dt):
        A = UCorrection/(newmarkParameters.beta*dt*dt)
        V += dt*newmarkParameters.gamma*A
        return V, A

"""
_SCHEME_CLASS = """class _NewmarkScheme:
    def __init__(self, parameters):
        if parameters.beta <= 0.0:
            raise ValueError("Newmark beta must be positive")
        self.gamma = parameters.gamma
        self.beta = parameters.beta

    def displacement_weights(self, dt):
        return dt, dt*dt*(%s - self.beta)

    def inverse_inertial_scale(self, dt):
        return 1.0/(self.beta*dt**2)

    def predict(self, U, V, A, dt):
        cV, cA = self.displacement_weights(dt)
        return U + cV*V + cA*A, V + (dt - dt*self.gamma)*A

    def correct(self, UCorrection, V, A, dt):
        ANew = UCorrection*self.inverse_inertial_scale(dt)
        return V + dt*self.gamma*ANew, ANew


def create_dynamics_functions("""
_KE_OLD = """    def lagrangian_density(W, gradW, Q, X, dtime):
        return kinetic_energy_density(W, density)
    KE =  FunctionSpace.integrate_over_block(functionSpace, U - UPredicted, internals, dt,
                                             lagrangian_density, slice(None))
    KE *= 1 / (newmarkBeta*dt**2)
"""
_KE_VECTORISED = """    fs = functionSpace
    elemIncrements = (U - UPredicted)[fs.mesh.conns]
    Wq = np.einsum('eqa,eai->eqi', fs.shapes, elemIncrements)
    inertialDensity = density/(newmarkBeta*dt*dt)
    KE = 0.5*inertialDensity*np.sum(%snp.einsum('eqi,eqi->eq', Wq, Wq))
"""
_HESS_OLD = """    def lagrangian_density(W, gradW, Q, X, dtime):
        return kinetic_energy_density(W, density)/(newmarkBeta*dtime**2) + strain_energy_density(gradW, Q, dtime)
    f =  vmap(compute_element_stiffness_from_global_fields,
              (None, None, 0, None, 0, 0, 0, 0, None, None))
    fs = functionSpace
    # The strain energy must be linearized about U. The kinetic term is quadratic in
    # U - UPredicted, so its Hessian does not depend on the evaluation point.
    return f(U, fs.mesh.coords, internals, dt, fs.mesh.conns, fs.shapes, fs.shapeGrads, fs.vols,
             lagrangian_density, modify_element_gradient)
"""
_HESS_LOCAL = """    inertial = density/(newmarkBeta*dt*dt)
    fs = functionSpace

    def element_energy(elU, elX, elQ, elN, elDN, elVols):
        def density_fn(W, gradW, Q, X, dtime):
            return 0.5*inertial*np.dot(W, W) + strain_energy_density(gradW, Q, dtime)
        return FunctionSpace.integrate_element_from_local_field(elU, elX, elQ, dt, elN, elDN, elVols, density_fn,
                                                                modify_element_gradient=modify_element_gradient)

    element_hessian = jacfwd(grad(element_energy))
    return vmap(element_hessian, in_axes=0)(%s[fs.mesh.conns], fs.mesh.coords[fs.mesh.conns], internals,
                                            fs.shapes, fs.shapeGrads, fs.vols)
"""
_AXI_OLD = """    elemPointDisps = elemShapes@elemNodalDisps
    elemPointCoords = elemShapes@elemNodalCoords
    return vmap(axisymmetric_gradient)(elemDispGrads, elemPointDisps, elemPointCoords)
"""
_AXI_VECTORISED = """    radialDisps = elemShapes@elemNodalDisps[:, %s]
    radii = np.einsum('qa,a->q', elemShapes, elemNodalCoords[:, 0])
    grads3D = np.zeros((elemDispGrads.shape[0], 3, 3)).at[:, :2, :2].set(elemDispGrads)
    return grads3D.at[:, 2, 2].set(radialDisps/radii)
"""
_FACTORY_TAIL_OLD = """    def compute_element_hessians(U, UPredicted, stateVariables, dt):
        return _compute_newmark_element_hessians(
            functionSpace, U, UPredicted, stateVariables, materialModel.density, dt, 
            newmarkParameters.beta, materialModel.compute_energy_density, modify_element_gradient)
"""
_FACTORY_TAIL_CARRIER = """    shared = dict(functionSpace=functionSpace, density=materialModel.density, newmarkBeta=newmarkParameters.beta,
                  strain_energy_density=materialModel.compute_energy_density, modify_element_gradient=%s)

    def compute_element_hessians(U, UPredicted, stateVariables, dt):
        return _compute_newmark_element_hessians(U=U, UPredicted=UPredicted, internals=stateVariables, dt=dt, **shared)
"""


def more_variants():
    from optilint.selftest import Variant, sub
    P = "optimism/Mechanics.py"
    AXI = "axisymmetric_element_gradient_transformation"
    PS = "plane_strain_gradient_transformation"
    scheme = lambda half: multi((_STEP_OLD, "    scheme = _NewmarkScheme(newmarkParameters)\n\n"),
                                ("jit(predict),\n                             jit(correct))", "jit(scheme.predict),\n                             jit(scheme.correct))"),
                                ("def create_dynamics_functions(", _SCHEME_CLASS % half))
    return [
        # ---- preserving restructurings
        Variant("dispatch: table built by a helper, .get and explicit rejection", P, sub(_PARSE_OLD, _PARSE_TABLE % AXI), None),
        Variant("dispatch: match statement", P, sub(_PARSE_OLD, _PARSE_MATCH % AXI), None),
        Variant("predict/correct as methods of a scheme object with parameter validation", P, scheme("0.5"), None),
        Variant("inertia term vectorised (gather + einsum) instead of integrate_over_block", P, sub(_KE_OLD, _KE_VECTORISED % "fs.vols*"), None),
        Variant("element hessians: local element energy, jacfwd(grad), gathered nodal fields", P, sub(_HESS_OLD, _HESS_LOCAL % "U"), None),
        Variant("axisymmetric kinematics vectorised (.at[].set on a zero array)", P, sub(_AXI_OLD, _AXI_VECTORISED % "0"), None),
        Variant("plane strain kinematics by np.pad", P, sub("    return vmap(tensor_2D_to_3D)(elemDispGrads)\n\n\ndef volume", "    return np.pad(elemDispGrads, ((0, 0), (0, 1), (0, 1)))\n\n\ndef volume"), None),
        Variant("hessian closure forwards a keyword carrier", P, sub(_FACTORY_TAIL_OLD, _FACTORY_TAIL_CARRIER % "modify_element_gradient"), None),
        Variant("closures replaced by functools.partial of lambdas", P, multi(
            ("    def compute_output_strain_energy(U, stateVariables, dt):\n        return _compute_strain_energy(functionSpace, U, stateVariables, dt, materialModel.compute_energy_density, modify_element_gradient)\n",
             "    compute_output_strain_energy = partial(lambda hook, U, stateVariables, dt: _compute_strain_energy(functionSpace, U, stateVariables, dt, materialModel.compute_energy_density, hook), modify_element_gradient)\n")), None),
        # ---- breaking edits of restructured forms
        Variant("dispatch table: axisymmetric -> plane strain", P, sub(_PARSE_OLD, _PARSE_TABLE % PS), "D2/T14-mode-dispatch"),
        Variant("match dispatch: axisymmetric -> plane strain", P, sub(_PARSE_OLD, _PARSE_MATCH % PS), "D2/T14-mode-dispatch"),
        Variant("scheme object: predictor weight (1 - beta)", P, scheme("1.0"), "D1/T7-newmark-formulas"),
        Variant("vectorised inertia term without the quadrature volumes", P, sub(_KE_OLD, _KE_VECTORISED % ""), "D2/T7-inertia-wiring"),
        Variant("local element hessian taken at UPredicted", P, sub(_HESS_OLD, _HESS_LOCAL % "UPredicted"), "D2/T7-inertia-wiring"),
        Variant("hoop strain from the axial displacement", P, sub(_AXI_OLD, _AXI_VECTORISED % "1"), "D2/T14-mode-dispatch"),
        Variant("keyword carrier with the un-projected transformation", P, multi(
            ("    modify_element_gradient = parse_2D_to_3D_gradient_transformation(mode2D)\n    modify_element_gradient = define_pressure_projection_gradient_tranformation(\n        functionSpace, pressureProjectionDegree, modify_element_gradient)",
             "    grad_2D_to_3D = parse_2D_to_3D_gradient_transformation(mode2D)\n    modify_element_gradient = define_pressure_projection_gradient_tranformation(\n        functionSpace, pressureProjectionDegree, grad_2D_to_3D)"),
            (_FACTORY_TAIL_OLD, _FACTORY_TAIL_CARRIER % "grad_2D_to_3D")), "D2/T6-one-gradient-transformation"),
        Variant("corrector velocity with the old acceleration", P, sub("        A = UCorrection/(newmarkParameters.beta*dt*dt)\n        V += dt*newmarkParameters.gamma*A\n        return V, A",
                                                                       "        ANew = UCorrection/(newmarkParameters.beta*dt*dt)\n        V += dt*newmarkParameters.gamma*A\n        return V, ANew"), "D1/T7-newmark-formulas"),
        Variant("state update with the un-projected transformation", P, multi(
            ("    modify_element_gradient = parse_2D_to_3D_gradient_transformation(mode2D)\n    modify_element_gradient = define_pressure_projection_gradient_tranformation(\n        functionSpace, pressureProjectionDegree, modify_element_gradient)",
             "    grad_2D_to_3D = parse_2D_to_3D_gradient_transformation(mode2D)\n    modify_element_gradient = define_pressure_projection_gradient_tranformation(\n        functionSpace, pressureProjectionDegree, grad_2D_to_3D)"),
            ("        return _compute_updated_internal_variables(fs, U, stateVariables, dt, materialModel.compute_state_new, modify_element_gradient)\n    \n    def compute_element_hessians",
             "        return _compute_updated_internal_variables(fs, U, stateVariables, dt, materialModel.compute_state_new, grad_2D_to_3D)\n    \n    def compute_element_hessians")),
            "D2/T6-one-gradient-transformation"),
        Variant("kinetic energy output without the mass density", P, sub("        return _compute_kinetic_energy(functionSpace, V, stateVariables, materialModel.density)", "        return _compute_kinetic_energy(functionSpace, V, stateVariables, 1.0)"), "D2/T7-inertia-wiring"),
    ]
