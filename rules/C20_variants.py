"""C20_variants -- whole-writer restructurings used by the self-test of rules/C20.py (test inputs of the checker, not rules).

Each builder cuts the reference VTKWriter.py at three anchors (`def write`, the `# private` comment, `def _write_header`) and replaces the
output half of the class by an equivalent one written in a different style; it returns None (variant inapplicable) when the anchors are gone.
  collect_lines : every section returns a list of lines (loops append to it, also inside the loop over fields); write() joins them once
  generators    : sections are generator functions, write() is `writelines(line + newline for line in chain(..))` in a with-block;
                  np.pad / np.c_ / np.r_ / f-strings / percent formatting / star-arguments / os.path
"""

WRITE_B = "    def write(self):\n        lines = self._header_lines()\n        lines += self._point_lines()\n        lines += self._cell_lines()\n        lines += self._cell_type_lines()\n        lines += self._field_lines('POINT_DATA', self._all_point_fields(), self._n_points())\n        lines += self._field_lines('CELL_DATA', self._all_cell_fields(), self._n_cells())\n        try:\n            vtkFile = open(self.fileName, 'w')\n        except OSError as err:\n            warnings.warn('VTKWriter: Unable to open file: {0}'.format(err))\n            return\n        vtkFile.write('\\n'.join(lines) + '\\n')\n        vtkFile.close()\n\n"

TAIL_B = "    def _n_points(self):\n        return self.outputNodes.shape[0] + len(self.spheres)\n\n    def _n_cells(self):\n        return self.mesh.conns.shape[0] + self.contactEdges.shape[0]\n\n    def _header_lines(self):\n        return ['# vtk DataFile Version 3.0', 'Written from jax-fem', self.vtkFormat, 'DATASET UNSTRUCTURED_GRID']\n\n    def _point_lines(self):\n        coords = self.mesh.coords[self.outputNodes]\n        coords3D = np.zeros((coords.shape[0], 3))\n        coords3D[:, 0:coords.shape[1]] = coords\n        lines = ['POINTS {} double'.format(self._n_points())]\n        lines.append(write_matrix_as_table(coords3D))\n        lines.extend(' '.join(str(c) for c in p) for p in self.spheres)\n        return lines\n\n    def _cell_lines(self):\n        conns = self.mesh.conns[:,self.elConn]\n        counts = np.tile(conns.shape[1], (conns.shape[0], 1))\n        table = np.concatenate((counts, conns), axis=1)\n        nvals = table.size + 3 * self.contactEdges.shape[0]\n        lines = ['CELLS {} {}'.format(self._n_cells(), nvals), write_matrix_as_table(table)]\n        for e in self.contactEdges:\n            lines.append('2 {} {}'.format(e[0], e[1]))\n        return lines\n\n    def _cell_type_lines(self):\n        nelements = self.mesh.conns.shape[0]\n        lines = ['CELL_TYPES {}'.format(self._n_cells())]\n        lines.append(write_matrix_as_table(np.tile(self.vtkCellType, (nelements, 1))))\n        lines += ['3'] * self.contactEdges.shape[0]\n        return lines\n\n    def _pad(self, record, n):\n        for _ in range(n):\n            record = record._replace(data=np.vstack((record.data, default_values(record.fieldType, record.dataType))))\n        return record\n\n    def _all_point_fields(self):\n        fields = {name: self._pad(rec, len(self.spheres)) for name, rec in self.nodalFields.items()}\n        if self.spheres:\n            vals = np.hstack((np.zeros(self.outputNodes.shape[0]), np.array(self.sphereRadii)))\n            fields['sphere_radius'] = self.VTKFieldRecord(vals.reshape(-1, 1), VTKFieldType.SCALARS, VTKDataType.DOUBLE)\n        return fields\n\n    def _all_cell_fields(self):\n        return {name: self._pad(rec, self.contactEdges.shape[0]) for name, rec in self.cellFields.items()}\n\n    def _field_lines(self, keyword, fields, n):\n        if not fields:\n            return []\n        lines = ['{} {}'.format(keyword, n)]\n        for name, rec in fields.items():\n            lines.append('{} {} {}'.format(rec.fieldType.name, name, rec.dataType.value))\n            if rec.fieldType == VTKFieldType.SCALARS:\n                lines.append('LOOKUP_TABLE default')\n            lines.append(write_matrix_as_table(rec.data))\n        return lines\n"

WRITE_E = "    def write(self):\n        try:\n            with open(self.fileName, 'w') as vtkFile:\n                vtkFile.writelines(line + '\\n' for line in chain(self._geometry(), self._attributes()))\n        except OSError as err:\n            warnings.warn('VTKWriter: Unable to open file: {0}'.format(err))\n\n"

TAIL_E = "    def _geometry(self):\n        yield '# vtk DataFile Version 3.0'\n        yield 'Written from jax-fem'\n        yield self.vtkFormat\n        yield 'DATASET UNSTRUCTURED_GRID'\n        coords = self.mesh.coords[self.outputNodes]\n        nPoints = len(coords) + len(self.spheres)\n        nEdges = len(self.contactEdges)\n        nCells = len(self.mesh.conns) + nEdges\n        yield f'POINTS {nPoints:d} double'\n        yield write_matrix_as_table(np.pad(coords, ((0, 0), (0, 3 - coords.shape[1]))))\n        for p, r in zip(self.spheres, self.sphereRadii):\n            yield '{} {} {}'.format(*p)\n        conns = self.mesh.conns[:, self.elConn]\n        table = np.c_[np.full(len(conns), conns.shape[1]), conns]\n        yield f'CELLS {nCells} {table.size + 3 * nEdges}'\n        yield write_matrix_as_table(table)\n        yield from ('2 {} {}'.format(a, b) for a, b in self.contactEdges)\n        yield 'CELL_TYPES %d' % nCells\n        yield from [str(self.vtkCellType)] * len(conns)\n        yield from ['3'] * nEdges\n\n    def _attributes(self):\n        nPoints = len(self.outputNodes) + len(self.spheres)\n        point = {k: self._pad(v, len(self.spheres)) for k, v in self.nodalFields.items()}\n        if self.spheres:\n            radii = np.r_[np.zeros(len(self.outputNodes)), self.sphereRadii]\n            point['sphere_radius'] = self.VTKFieldRecord(radii.reshape(-1, 1), VTKFieldType.SCALARS, VTKDataType.DOUBLE)\n        if point:\n            yield f'POINT_DATA {nPoints}'\n            yield from self._arrays(point)\n        if self.cellFields:\n            nEdges = len(self.contactEdges)\n            yield f'CELL_DATA {len(self.mesh.conns) + nEdges}'\n            yield from self._arrays({k: self._pad(v, nEdges) for k, v in self.cellFields.items()})\n\n    def _pad(self, rec, n):\n        data = rec.data\n        for _ in range(n):\n            data = np.vstack((data, default_values(rec.fieldType, rec.dataType)))\n        return rec._replace(data=data)\n\n    @staticmethod\n    def _arrays(fields):\n        for name, rec in fields.items():\n            yield f'{rec.fieldType.name} {name} {rec.dataType.value}'\n            if rec.fieldType is VTKFieldType.SCALARS:\n                yield 'LOOKUP_TABLE default'\n            yield write_matrix_as_table(rec.data)\n"

A1, A2, A3 = "    def write(self):", "    # private\n", "    def _write_header(self, vtkFile):"


def _cut(src):
    if src.count(A1) != 1 or src.count(A2) != 1 or src.count(A3) != 1:
        return None
    i, j, k = src.index(A1), src.index(A2), src.index(A3)
    if not i < j < k:
        return None
    return src[:i], src[j:k]


def collect_lines(src):
    c = _cut(src)
    if c is None:
        return None
    return c[0] + WRITE_B + c[1] + TAIL_B


def generators(src):
    c = _cut(src)
    if c is None or src.count("self.fileName = baseFileName + '.vtk'") != 1 or src.count("import warnings") != 1:
        return None
    head = c[0].replace("import warnings", "import warnings\nimport os\nfrom itertools import chain")
    head = head.replace("self.fileName = baseFileName + '.vtk'", "self.fileName = os.path.splitext(baseFileName)[0] + '.vtk'")
    return head + WRITE_E + c[1] + TAIL_E


def then(f, g):
    """apply edit f, then edit g"""
    def h(src):
        a = f(src)
        return None if a is None else g(a)
    return h
