"""Abstract interpreter for the small numeric kernels of the material modules.

Domain: *dual rational constants* -- every number is  a0 + a1*eps  (eps^2 = 0) with a0, a1 exact
rational functions of named symbols (material constants, generic matrix entries).  Arrays are
explicit nested lists of such numbers.  This is sparse conditional constant propagation on an
extended constant lattice: branches whose condition is decidable from the constants (string
options, comparisons of constants, comparisons whose sign follows from positive symbols) are
resolved; anything else evaluates to TOP and the obligation that needed it is UNDECIDED.

It interprets the *source* of repo functions (resolved through the optilint model); library calls
are given by a transfer table.  Spectral functions of symmetric tensors are only defined on diagonal
arguments (all that occurs at the rest state): f(diag(d)) = diag(f(d)).
"""
from __future__ import annotations

import ast
import math
from fractions import Fraction

from .expr import Algebra, Rat, Poly, NotPolynomial, simplify
from .model import (Repo, Scope, FuncVal, ClassVal, ModVal, ExtVal, ParamVal, NamedTupleVal, dotted, norm_src,
                    namedtuple_fields, canonical_ext)


class Top:
    def __init__(self, why=""):
        self.why = why

    def __repr__(self):
        return f"TOP({self.why})"


class EvalError(Exception):
    pass


class Raised(Exception):
    """The interpreted code executed a `raise`."""


class LookupFailed(EvalError):
    """A dictionary of the interpreted program has no such key (the interpreted program would raise KeyError)."""


_A = Algebra()


def R(x) -> Rat:
    if isinstance(x, Rat):
        return x
    if isinstance(x, bool):
        raise EvalError("bool as number")
    if isinstance(x, (int, Fraction)):
        return Rat(Poly.const(Fraction(x)))
    if isinstance(x, float):
        return _A.const(x)
    raise EvalError(f"not a number: {x!r}")


ZERO, ONE = R(0), R(1)


def rat_is_zero(r: Rat):
    return _A.is_zero(r)


def rat_const(r: Rat):
    r = _A.norm(r)
    if r.n.is_const() and r.d.is_const() and r.d.const_value() != 0:
        return r.n.const_value() / r.d.const_value()
    return None


def poly_sign(p: Poly, positive):
    """Sign of a polynomial all of whose atoms are positive symbols: +1 / -1 / 0 / None."""
    if p.is_zero():
        return 0
    for a in p.atoms():
        if a not in positive and not a.startswith("sqrt["):
            return None
    cs = list(p.t.values())
    if all(c > 0 for c in cs):
        return 1
    if all(c < 0 for c in cs):
        return -1
    return None


def rat_sign(r: Rat, positive):
    r = _A.norm(r)
    sn, sd = poly_sign(r.n, positive), poly_sign(r.d, positive)
    if sn is None or sd is None or sd == 0:
        return None
    return sn * sd


class _AllPositive:
    """Every symbol is a positive material constant (used for exponent comparisons)."""
    def __contains__(self, x):
        return True


_POSITIVE_ALL = _AllPositive()


class Dual:
    __slots__ = ("a", "b")

    def __init__(self, a, b=None):
        self.a = simplify(R(a))
        self.b = simplify(R(b)) if b is not None else ZERO

    def __repr__(self):
        if rat_is_zero(self.b):
            return f"{self.a!r}"
        return f"{self.a!r} + ({self.b!r})*eps"

    @staticmethod
    def of(x):
        if isinstance(x, Dual):
            return x
        return Dual(R(x))

    def __add__(self, o):
        o = Dual.of(o)
        return Dual(_A.norm(self.a + o.a), _A.norm(self.b + o.b))

    __radd__ = __add__

    def __neg__(self):
        return Dual(-self.a, -self.b)

    def __sub__(self, o):
        return self + (-Dual.of(o))

    def __rsub__(self, o):
        return Dual.of(o) - self

    def __mul__(self, o):
        o = Dual.of(o)
        return Dual(_A.norm(self.a * o.a), _A.norm(self.a * o.b + self.b * o.a))

    __rmul__ = __mul__

    def __truediv__(self, o):
        o = Dual.of(o)
        if rat_is_zero(o.a):
            raise EvalError("division by zero at the evaluation point")
        return Dual(_A.norm(self.a / o.a), _A.norm((self.b * o.a - self.a * o.b) / (o.a * o.a)))

    def __rtruediv__(self, o):
        return Dual.of(o) / self

    def is_zero(self):
        return rat_is_zero(self.a) and rat_is_zero(self.b)


OPAQUE = [False]     # when set, transcendental functions / symbolic powers of symbolic arguments become opaque atoms


def _opaque(name, *parts):
    return Dual(_A.atom(f"{name}[" + " | ".join(repr(simplify(_A.norm(p))) for p in parts) + "]"))


def d_pow(x: Dual, k) -> Dual:
    """x ** k for constant exponent k (Fraction/int/float or a Dual without eps part)."""
    if isinstance(k, Dual):
        if not rat_is_zero(k.b):
            raise EvalError("eps-dependent exponent")
        kc = rat_const(k.a)
        ksym = k.a
    else:
        kc = Fraction(repr(k)) if isinstance(k, float) else Fraction(k)
        ksym = R(kc)
    a0 = rat_const(x.a)
    if kc is not None and kc.denominator == 1:
        n = int(kc)
        if n == 0:
            return Dual(1)
        base = x.a.pow(n)
        dbase = R(n) * x.a.pow(n - 1) * x.b if n != 0 else ZERO
        if n < 0 and rat_is_zero(x.a):
            raise EvalError("negative power of zero")
        return Dual(_A.norm(base), _A.norm(dbase))
    # non-integer / symbolic exponent: only at base value 1 or 0
    if a0 == 1:
        return Dual(ONE, _A.norm(ksym * x.b))
    if a0 == 0 and rat_is_zero(x.b):
        return Dual(0)          # 0**k with k > 0 (exponents are positive material constants / literals)
    if a0 == 0:
        # (b*eps)**k : zero value; first-order part vanishes iff k > 1 (all symbols in k are positive constants)
        s1 = rat_sign(_A.norm(ksym - ONE), _POSITIVE_ALL)
        if s1 == 1:
            return Dual(0)
        if s1 == 0:
            return Dual(ZERO, x.b)
        raise EvalError(f"power {x!r} ** {k!r}: exponent not provably > 1 at base 0")
    if kc is not None and kc.denominator == 2 and kc > 0:
        s = _A.sqrt(x.a)
        val = s.pow(int(kc.numerator))
        if rat_is_zero(x.b):
            return Dual(_A.norm(val))
        return Dual(_A.norm(val), _A.norm(R(kc) * val / x.a * x.b))
    if OPAQUE[0] and rat_is_zero(x.b):
        return _opaque("pow", x.a, ksym)
    raise EvalError(f"power {x!r} ** {k!r} not representable")


def d_fun(name, x: Dual) -> Dual:
    a0 = rat_const(x.a)
    if name == "log":
        if a0 == 1:
            return Dual(ZERO, x.b)
        if OPAQUE[0] and rat_is_zero(x.b):
            return _opaque("log", x.a)
        raise EvalError(f"log at {x.a!r}")
    if name == "log1p":
        if a0 == 0:
            return Dual(ZERO, x.b)
        if OPAQUE[0] and rat_is_zero(x.b):
            return _opaque("log1p", x.a)
        raise EvalError(f"log1p at {x.a!r}")
    if name == "exp":
        if a0 == 0:
            return Dual(ONE, x.b)
        if OPAQUE[0] and rat_is_zero(x.b):
            return _opaque("exp", x.a)
        raise EvalError(f"exp at {x.a!r}")
    if name == "expm1":
        if a0 == 0:
            return Dual(ZERO, x.b)
        if OPAQUE[0] and rat_is_zero(x.b):
            return _opaque("expm1", x.a)
        raise EvalError(f"expm1 at {x.a!r}")
    if name == "sqrt":
        if a0 == 0:
            if rat_is_zero(x.b):
                return Dual(0)
            raise EvalError("sqrt is not differentiable at 0")
        s = _A.sqrt(x.a)
        return Dual(s, _A.norm(x.b / (R(2) * s)))
    if name == "abs":
        if a0 is not None:
            if a0 > 0:
                return x
            if a0 < 0:
                return -x
            if rat_is_zero(x.b):
                return Dual(0)
        if OPAQUE[0] and rat_is_zero(x.b):
            return _opaque("abs", x.a)
        raise EvalError("abs of a symbolic value")
    raise EvalError(f"function {name}")


class Arr:
    """n-d array as nested python lists of Dual with an explicit shape."""

    isbool = False

    def __init__(self, data, shape, isbool=False):
        self.data = data          # flat list
        self.shape = tuple(shape)
        if isbool:
            self.isbool = True

    @staticmethod
    def from_nested(x):
        def shape_of(v):
            if isinstance(v, (list, tuple)):
                if not v:
                    return (0,)
                return (len(v),) + shape_of(v[0])
            if isinstance(v, Arr):
                return v.shape
            return ()
        def flat(v):
            if isinstance(v, (list, tuple)):
                out = []
                for e in v:
                    out += flat(e)
                return out
            if isinstance(v, Arr):
                return list(v.data)
            return [Dual.of(v)]
        return Arr(flat(x), shape_of(x))

    def __repr__(self):
        return f"Arr{self.shape}{self.data}"

    @property
    def ndim(self):
        return len(self.shape)

    def size(self):
        n = 1
        for s in self.shape:
            n *= s
        return n

    def reshape(self, shape):
        shape = tuple(shape)
        if -1 in shape:
            known = 1
            for s in shape:
                if s != -1:
                    known *= s
            shape = tuple(self.size() // known if s == -1 else s for s in shape)
        n = 1
        for s in shape:
            n *= s
        if n != self.size():
            raise EvalError(f"reshape {self.shape} -> {shape}")
        return Arr(list(self.data), shape)

    def ravel(self):
        return Arr(list(self.data), (self.size(),))

    def get(self, idx):
        if len(self.shape) == 1:
            return self.data[idx[0]]
        stride = 1
        off = 0
        for i, s in zip(reversed(idx), reversed(self.shape)):
            off += i * stride
            stride *= s
        return self.data[off]

    def T(self):
        if self.ndim != 2:
            return self
        r, c = self.shape
        return Arr([self.data[i * c + j] for j in range(c) for i in range(r)], (c, r))

    def map(self, f):
        return Arr([f(x) for x in self.data], self.shape)

    def zip(self, o, f):
        if isinstance(o, Arr):
            if o.shape != self.shape:
                if o.size() == 1:
                    return self.map(lambda x: f(x, o.data[0]))
                if self.size() == 1:
                    return o.map(lambda y: f(self.data[0], y))
                raise EvalError(f"shape mismatch {self.shape} vs {o.shape}")
            return Arr([f(x, y) for x, y in zip(self.data, o.data)], self.shape)
        return self.map(lambda x: f(x, Dual.of(o)))

    def index(self, key):
        """numpy-style basic indexing with ints / slices."""
        if not isinstance(key, tuple):
            key = (key,)
        key = key + (slice(None),) * (self.ndim - len(key))
        ranges = []
        outshape = []
        for k, s in zip(key, self.shape):
            if isinstance(k, slice):
                r = list(range(*k.indices(s)))
                ranges.append(r)
                outshape.append(len(r))
            elif isinstance(k, int):
                if k < 0:
                    k += s
                if not 0 <= k < s:
                    raise EvalError("index out of range")
                ranges.append([k])
            else:
                raise EvalError(f"unsupported index {k!r}")
        import itertools
        out = [self.get(ix) for ix in itertools.product(*ranges)]
        if not outshape:
            return out[0]
        return Arr(out, outshape)

    def __iter__(self):
        """iteration / unpacking along the first axis (like numpy)"""
        if self.ndim == 0:
            raise EvalError("iteration over a 0-d array")
        return iter([self.index(i) for i in range(self.shape[0])])

    def is_diagonal(self):
        if self.ndim != 2 or self.shape[0] != self.shape[1]:
            return False
        n = self.shape[0]
        return all(self.data[i * n + j].is_zero() for i in range(n) for j in range(n) if i != j)


def matmul(a, b):
    if isinstance(a, Arr) and isinstance(b, Arr):
        if a.ndim == 2 and b.ndim == 2:
            r, k = a.shape
            k2, c = b.shape
            if k != k2:
                raise EvalError("matmul shape")
            out = []
            for i in range(r):
                for j in range(c):
                    s = Dual(0)
                    for t in range(k):
                        s = s + a.data[i * k + t] * b.data[t * c + j]
                    out.append(s)
            return Arr(out, (r, c))
        if a.ndim == 2 and b.ndim == 1:
            r, k = a.shape
            return Arr([sum_d(a.data[i * k + t] * b.data[t] for t in range(k)) for i in range(r)], (r,))
        if a.ndim == 1 and b.ndim == 2:
            k, c = b.shape
            return Arr([sum_d(a.data[t] * b.data[t * c + j] for t in range(k)) for j in range(c)], (c,))
        if a.ndim == 1 and b.ndim == 1:
            if a.shape != b.shape:
                raise EvalError("dot shape")
            return sum_d(x * y for x, y in zip(a.data, b.data))
    raise EvalError("matmul operands")


def einsum_arr(spec, ops):
    """np.einsum on explicit arrays by explicit summation (small dimensions)"""
    import itertools
    spec = spec.replace(" ", "")
    lhs, _, rhs = spec.partition("->")
    ins = lhs.split(",")
    if len(ins) != len(ops) or "." in spec:
        raise EvalError(f"einsum {spec!r}")
    dims = {}
    for idx, op in zip(ins, ops):
        if not isinstance(op, Arr) or len(idx) != op.ndim:
            raise EvalError(f"einsum operand for {idx!r}")
        for ch, d in zip(idx, op.shape):
            if dims.setdefault(ch, d) != d:
                raise EvalError("einsum dimensions")
    if "->" not in spec:
        rhs = "".join(sorted(ch for ch in dims if sum(i.count(ch) for i in ins) == 1))
    summed = [ch for ch in dims if ch not in rhs]
    out = []
    for o in itertools.product(*[range(dims[ch]) for ch in rhs]):
        env = dict(zip(rhs, o))
        tot = Dual(0)
        for sidx in itertools.product(*[range(dims[ch]) for ch in summed]):
            env.update(zip(summed, sidx))
            term = Dual(1)
            for idx, op in zip(ins, ops):
                term = term * op.get(tuple(env[ch] for ch in idx))
            tot = tot + term
        out.append(tot)
    if not rhs:
        return out[0]
    return Arr(out, tuple(dims[ch] for ch in rhs))


def sum_d(it):
    s = Dual(0)
    for x in it:
        s = s + x
    return s


class Closure:
    def __init__(self, scope: Scope, env, name=None):
        self.scope, self.env = scope, env
        self.name = name or scope.name

    def __repr__(self):
        return f"<closure {self.scope.qualname}>"


class Unknown:
    """Value of a statement that could not be interpreted (tolerant mode); any use of it fails again."""
    def __init__(self, why):
        self.why = why

    def __repr__(self):
        return f"<unknown: {self.why[:60]}>"


class Record:
    def __init__(self, tname, fields, values, cls=None):
        self.tname, self.fields, self.values = tname, list(fields), list(values)
        self.cls = cls      # class scope (dataclass-like modules): properties and methods are looked up there

    def get(self, name):
        return self.values[self.fields.index(name)]

    def __repr__(self):
        return f"{self.tname}({', '.join(self.fields)})"


class Instance(Record):
    """Object of a plain repository class (no bases, no decorators, only methods in the body), instantiated symbolically:
    `__init__` is interpreted with `self` bound to the object and stores its attributes (`self.x = v`, only while the
    constructor runs); methods and properties are then looked up in the class scope like those of a Record."""
    def __init__(self, tname, cls):
        super().__init__(tname, [], [], cls=cls)
        self.constructing = False

    def store(self, name, value):
        if name in self.fields:
            self.values[self.fields.index(name)] = value
        else:
            self.fields.append(name)
            self.values.append(value)

    def __repr__(self):
        return f"<instance of {self.tname}>"


def plain_class_init(csc):
    """the `__init__` scope (or False when there is none) of a class whose instances can be modelled by `Instance`; None otherwise:
    no base classes / keywords / decorators, a body of plain methods and properties only, no special method besides __init__"""
    node = csc.node
    if not isinstance(node, ast.ClassDef) or node.keywords or node.decorator_list:
        return None
    if any(not (isinstance(b, ast.Name) and b.id == "object") for b in node.bases):
        return None
    for st in node.body:
        if isinstance(st, ast.Pass) or (isinstance(st, ast.Expr) and isinstance(st.value, ast.Constant) and isinstance(st.value.value, str)):
            continue
        if not isinstance(st, ast.FunctionDef):
            return None
        if any(norm_src(d) != "property" for d in st.decorator_list):
            return None
        if st.name.startswith("__") and st.name.endswith("__") and st.name not in ("__init__", "__repr__", "__str__"):
            return None
        a = st.args
        if not (a.posonlyargs + a.args) or st.name in [m.name for m in node.body if isinstance(m, ast.FunctionDef) and m is not st]:
            return None
    for c in csc.children:
        if c.kind == "function" and c.name == "__init__":
            return c
    return False


class Ext:
    def __init__(self, name):
        self.name = name

    def __repr__(self):
        return f"<ext {self.name}>"


class PyFunc:
    """Analyser-supplied function value (a symbolic stand-in passed as an argument to interpreted code)."""
    def __init__(self, name, fn, grad=None):
        self.name, self.fn, self.grad = name, fn, grad

    def __repr__(self):
        return f"<pyfunc {self.name}>"


class Vmapped:
    """jax.vmap(f): maps over the leading axis of every array argument."""
    def __init__(self, fn):
        self.fn = fn


class Deriv:
    """jax.grad / jax.jacfwd of a closure w.r.t. positional argument k."""
    def __init__(self, fn, argnum):
        self.fn, self.argnum = fn, argnum


class PosVec:
    """Opaque vector of positive material constants: v[k] -> positive symbol."""
    def __init__(self, prefix, interp):
        self.prefix, self.interp = prefix, interp

    def item(self, k):
        nm = f"{self.prefix}{k}"
        self.interp.positive.add(nm)
        return Dual(_A.atom(nm))


class ReturnSignal(Exception):
    def __init__(self, value):
        self.value = value


class Env:
    def __init__(self, scope, parent=None):
        self.scope, self.parent, self.vars = scope, parent, {}

    def lookup(self, name):
        e = self
        while e is not None:
            if name in e.vars:
                return e.vars[name]
            e = e.parent
        raise KeyError(name)

    def has(self, name):
        e = self
        while e is not None:
            if name in e.vars:
                return True
            e = e.parent
        return False


class Interp:
    def __init__(self, repo: Repo, positive=(), max_depth=40):
        self.repo = repo
        self.positive = set(positive)
        self.modenv = {}
        self.depth = 0
        self.max_depth = max_depth
        self.trace = []
        self.special = {}        # qualname -> python callable(interp, args, kwargs)
        self.visited = set()
        self.policy = None       # None: undecidable comparisons raise; True/False: they evaluate to this value
        self.tolerant = False    # True: an assignment that cannot be interpreted binds Unknown instead of aborting
        self.ext_special = {}    # external function name -> python callable(interp, args, kwargs)
        self.undecided_comparisons = 0

    # ---- module environments
    def module_env(self, module):
        if module.name not in self.modenv:
            self.modenv[module.name] = Env(module.scope, None)
        return self.modenv[module.name]

    def module_value(self, module, name):
        env = self.module_env(module)
        if name in env.vars:
            return env.vars[name]
        sc = module.scope
        bs = sc.bindings.get(name)
        if not bs:
            s2, bs2 = self.repo.star_lookup(name, module)
            if s2 is not None:
                return self.module_value(s2.module, name)
            import builtins
            if hasattr(builtins, name):
                return Ext("builtins." + name)
            raise EvalError(f"name {name} unbound in {module.name}")
        b = bs[-1]
        if b.kind == "def":
            v = Closure(b.extra, env)
        elif b.kind == "class":
            v = Ext(f"class:{b.extra.qualname}")
        elif b.kind == "import":
            m = self.repo.modules.get(b.extra)
            v = ("module", m) if m else Ext(b.extra)
        elif b.kind == "importfrom":
            modname, attr, level = b.extra
            full = f"{modname}.{attr}"
            if full in self.repo.modules:
                v = ("module", self.repo.modules[full])
            elif modname in self.repo.modules:
                v = self.module_value(self.repo.modules[modname], attr)
            else:
                v = Ext(canonical_ext(full))
        elif b.kind == "assign" and b.value is not None:
            v = self.eval(b.value, env)
            if b.index:
                for i in b.index:
                    v = v[i]
        else:
            raise EvalError(f"module binding {name} of kind {b.kind}")
        env.vars[name] = v
        return v

    # ---- names
    def lookup(self, name, env: Env):
        if env.has(name):
            return env.lookup(name)
        return self.module_value(env_root_module(env), name)

    # ---- expressions
    def eval(self, e, env):
        m = getattr(self, "e_" + type(e).__name__, None)
        if m is None:
            raise EvalError(f"expression {type(e).__name__}: {norm_src(e)[:50]}")
        return m(e, env)

    def e_Constant(self, e, env):
        return e.value

    def e_Name(self, e, env):
        v = self.lookup(e.id, env)
        if isinstance(v, Unknown) and not self.tolerant:
            raise EvalError(f"{e.id} is unknown ({v.why[:60]})")
        return v

    def e_Tuple(self, e, env):
        return tuple(self.eval(x, env) for x in e.elts)

    def e_List(self, e, env):
        return [self.eval(x, env) for x in e.elts]

    def e_Dict(self, e, env):
        return {self.eval(k, env): self.eval(v, env) for k, v in zip(e.keys, e.values)}

    def e_JoinedStr(self, e, env):
        out = ""
        for v in e.values:
            if isinstance(v, ast.Constant):
                out += str(v.value)
            else:
                out += str(self.eval(v.value, env))
        return out

    def e_Lambda(self, e, env):
        sc = self.repo.scope_of(e)
        if sc is None:
            raise EvalError("lambda scope")
        return Closure(sc, env)

    def _comp(self, e, env, make):
        out = []

        def rec(k, env_k):
            if k == len(e.generators):
                out.append(make(env_k))
                return
            g = e.generators[k]
            it = self.eval(g.iter, env_k)
            if isinstance(it, Arr):
                it = [it.index(i) for i in range(it.shape[0])]
            for x in it:
                e2 = Env(env_k.scope, env_k)
                self.assign(g.target, x, e2)
                if all(self.truth(self.eval(c, e2)) for c in g.ifs):
                    rec(k + 1, e2)
        rec(0, env)
        return out

    def e_ListComp(self, e, env):
        return self._comp(e, env, lambda en: self.eval(e.elt, en))

    def e_GeneratorExp(self, e, env):
        return self._comp(e, env, lambda en: self.eval(e.elt, en))

    def e_DictComp(self, e, env):
        return dict(self._comp(e, env, lambda en: (self.eval(e.key, en), self.eval(e.value, en))))

    def e_SetComp(self, e, env):
        return self._comp(e, env, lambda en: self.eval(e.elt, en))

    def e_IfExp(self, e, env):
        c = self.truth(self.eval(e.test, env))
        return self.eval(e.body if c else e.orelse, env)

    def e_UnaryOp(self, e, env):
        v = self.eval(e.operand, env)
        if isinstance(e.op, ast.USub):
            return self.neg(v)
        if isinstance(e.op, ast.UAdd):
            return v
        if isinstance(e.op, ast.Not):
            return not self.truth(v)
        if isinstance(e.op, ast.Invert) and isinstance(v, bool):
            return not v
        raise EvalError("unary op")

    def neg(self, v):
        if isinstance(v, Arr):
            return v.map(lambda x: -x)
        if isinstance(v, (int, float, Fraction)) and not isinstance(v, bool):
            return -v
        return -Dual.of(v)

    def e_BoolOp(self, e, env):
        if isinstance(e.op, ast.And):
            for v in e.values:
                if not self.truth(self.eval(v, env)):
                    return False
            return True
        for v in e.values:
            if self.truth(self.eval(v, env)):
                return True
        return False

    def num(self, v):
        if isinstance(v, (Dual, Arr)):
            return v
        if isinstance(v, bool):
            raise EvalError("bool in arithmetic")
        if isinstance(v, (int, float, Fraction)):
            return Dual.of(v)
        if isinstance(v, Ext) and v.name.split(".")[-1] in ("nan", "NaN", "NAN"):
            return Dual(_A.atom("@nan"))
        raise EvalError(f"non-numeric operand {v!r}")

    def e_BinOp(self, e, env):
        a, b = self.eval(e.left, env), self.eval(e.right, env)
        op = e.op
        if isinstance(a, bool) and isinstance(b, bool) and isinstance(op, (ast.BitOr, ast.BitAnd, ast.BitXor)):
            return (a or b) if isinstance(op, ast.BitOr) else (a and b) if isinstance(op, ast.BitAnd) else (a != b)
        if isinstance(op, ast.Mod) and isinstance(a, str):
            return a
        if isinstance(a, str) and isinstance(b, str) and isinstance(op, ast.Add):
            return a + b
        if isinstance(a, (int, Fraction)) and isinstance(b, (int, Fraction)) and not isinstance(a, bool) and not isinstance(b, bool):
            if isinstance(op, ast.Add):
                return a + b
            if isinstance(op, ast.Sub):
                return a - b
            if isinstance(op, ast.Mult):
                return a * b
            if isinstance(op, ast.FloorDiv):
                return a // b
            if isinstance(op, ast.Div):
                return Fraction(a) / Fraction(b)
            if isinstance(op, ast.Pow) and isinstance(b, int):
                return Fraction(a) ** b if b < 0 else a ** b
        if isinstance(a, tuple) and isinstance(b, tuple) and isinstance(op, ast.Add):
            return a + b
        if isinstance(a, list) and isinstance(b, list) and isinstance(op, ast.Add):
            return a + b
        if isinstance(op, ast.MatMult):
            return matmul(self.num(a), self.num(b))
        if isinstance(op, ast.Pow):
            a = self.num(a)
            if isinstance(a, Arr):
                return a.map(lambda x: d_pow(x, b))
            return d_pow(a, b)
        a, b = self.num(a), self.num(b)
        f = {ast.Add: lambda x, y: x + y, ast.Sub: lambda x, y: x - y, ast.Mult: lambda x, y: x * y,
             ast.Div: lambda x, y: x / y}.get(type(op))
        if f is None:
            raise EvalError("binary op " + type(op).__name__)
        if isinstance(a, Arr):
            return a.zip(b, f)
        if isinstance(b, Arr):
            return b.map(lambda y: f(a, y))
        return f(a, b)

    def e_Compare(self, e, env):
        left = self.eval(e.left, env)
        res = True
        for op, c in zip(e.ops, e.comparators):
            right = self.eval(c, env)
            res = res and self.compare(left, op, right)
            left = right
        return res

    def compare(self, a, op, b):
        if isinstance(op, (ast.In, ast.NotIn)):
            if isinstance(b, Arr):
                av = self.as_int(a)
                r = any(rat_const(x.a) == av for x in b.data)
            else:
                r = a in b
            return r if isinstance(op, ast.In) else not r
        if isinstance(op, (ast.Is, ast.IsNot)):
            r = (a is b) or (a is None and b is None)
            return r if isinstance(op, ast.Is) else not r
        simple = (str, type(None), bool)
        if isinstance(a, simple) or isinstance(b, simple):
            if isinstance(op, ast.Eq):
                return a == b
            if isinstance(op, ast.NotEq):
                return a != b
        a, b = self.num(a), self.num(b)
        if isinstance(a, Arr) or isinstance(b, Arr):
            raise EvalError("array comparison")
        d = _A.norm(a.a - b.a)
        s = rat_sign(d, self.positive)
        if s is None:
            if callable(self.policy):
                # region sampling: the caller supplies a point of the region being explored; comparisons are decided there
                self.undecided_comparisons += 1
                sv = self.policy(d)
                if sv is None:
                    raise EvalError(f"cannot decide the sign of {d!r} at the sample point")
                return {ast.Lt: sv < 0, ast.LtE: sv <= 0, ast.Gt: sv > 0, ast.GtE: sv >= 0, ast.Eq: sv == 0, ast.NotEq: sv != 0}[type(op)]
            if self.policy is not None:
                # path splitting: the caller runs the code once per outcome of undecidable comparisons
                self.undecided_comparisons += 1
                return self.policy
            raise EvalError(f"cannot decide the sign of {d!r}")
        if s == 0:
            # values equal at the evaluation point: the comparison is decided by the eps-parts' sign if strict
            pass
        return {ast.Lt: s < 0, ast.LtE: s <= 0, ast.Gt: s > 0, ast.GtE: s >= 0, ast.Eq: s == 0, ast.NotEq: s != 0}[type(op)]

    def truth(self, v):
        if isinstance(v, bool):
            return v
        if v is None:
            return False
        if isinstance(v, (str, tuple, list, dict)):
            return bool(v)
        if isinstance(v, (int, float, Fraction)):
            return v != 0
        if isinstance(v, Dual):
            c = rat_const(v.a)
            if c is not None:
                return c != 0
            if callable(self.policy):
                sv = self.policy(v.a)
                if sv is not None:
                    return sv != 0
        raise EvalError(f"truth value of {v!r}")

    def e_Subscript(self, e, env):
        base = self.eval(e.value, env)
        key = self.eval_index(e.slice, env)
        return self.getitem(base, key)

    def eval_index(self, s, env):
        if isinstance(s, ast.Slice):
            f = lambda x: None if x is None else self.as_int(self.eval(x, env))
            return slice(f(s.lower), f(s.upper), f(s.step))
        if isinstance(s, ast.Tuple):
            return tuple(self.eval_index(x, env) for x in s.elts)
        v = self.eval(s, env)
        if isinstance(v, (Dual, Fraction)):
            return self.as_int(v)
        return v

    def as_int(self, v):
        if isinstance(v, bool):
            raise EvalError("bool index")
        if isinstance(v, int):
            return v
        if isinstance(v, Fraction) and v.denominator == 1:
            return int(v)
        if isinstance(v, Dual):
            c = rat_const(v.a)
            if c is not None and c.denominator == 1:
                return int(c)
        raise EvalError(f"not an integer: {v!r}")

    def _norm_key(self, key):
        if isinstance(key, tuple):
            return tuple(self._norm_key(k) for k in key)
        if isinstance(key, (Dual, Fraction)):
            return self.as_int(key)
        return key

    def getitem(self, base, key):
        key = self._norm_key(key)
        if isinstance(base, Arr):
            if isinstance(key, Arr) and key.isbool:
                keep = [i for i, x in enumerate(key.data) if rat_const(x.a) == 1]
                key = Arr([Dual(i) for i in keep], (len(keep),))
            if isinstance(key, Arr):      # integer-array (gather) indexing along the first axis
                rows = [base.index(self.as_int(k)) for k in key.ravel().data]
                # numpy: the result has the shape of the index array followed by the shape of one row (a table of indices of
                # two or more dimensions gathers into that many leading axes; vectors as before)
                lead = tuple(key.shape) if key.ndim >= 2 else (len(rows),)
                if all(isinstance(r, Dual) for r in rows):
                    return Arr(rows, lead)
                return Arr([x for r in rows for x in r.data], lead + tuple(rows[0].shape))
            return base.index(key)
        if isinstance(base, PosVec):
            return base.item(self.as_int(key))
        if isinstance(base, dict):
            try:
                return base[key]
            except KeyError:
                raise LookupFailed(f"missing key {key!r}")
        if isinstance(base, (tuple, list)):
            return base[key]
        if isinstance(base, Instance):
            raise EvalError(f"subscript of {base!r}")
        if isinstance(base, Record):
            return base.values[key]
        if isinstance(base, AtProxy):
            return AtIndexed(base.arr, key)
        raise EvalError(f"subscript of {base!r}")

    def e_Attribute(self, e, env):
        base = self.eval(e.value, env)
        a = e.attr
        if isinstance(base, tuple) and len(base) == 2 and base[0] == "module":
            return self.module_value(base[1], a)
        if isinstance(base, Ext):
            return Ext(canonical_ext(base.name + "." + a))
        if isinstance(base, Record):
            if a in base.fields:
                return base.get(a)
            if base.cls is not None:
                for c in base.cls.children:
                    if c.kind == "function" and c.name == a:
                        decos = [norm_src(d) for d in c.node.decorator_list]
                        cl = Closure(c, self.module_env(c.module))
                        if "property" in decos:
                            return self.call_closure(cl, [base], {})
                        return PyFunc(f"{base.tname}.{a}", lambda it, args, kw, cl=cl, base=base: it.call_closure(cl, [base] + list(args), kw))
            raise EvalError(f"attribute {a} of {base!r}")
        if isinstance(base, Arr):
            if a == "T":
                return base.T()
            if a == "shape":
                return base.shape
            if a == "size":
                return base.size()
            if a == "at":
                return AtProxy(base)
            if a in ("ravel", "reshape", "dot"):
                return ("method", base, a)
        if isinstance(base, dict) and a in ("get", "items", "keys"):
            return ("method", base, a)
        if isinstance(base, list) and a in ("append", "extend"):
            return ("method", base, a)
        if isinstance(base, AtIndexed) and a in ("get", "set", "add"):
            return ("method", base, a)
        if isinstance(base, Closure) and a in ("defjvp", "defvjp"):
            return Ext("<register>")
        if isinstance(base, str) and a in ("lower", "upper", "strip", "casefold", "startswith", "endswith", "replace", "title"):
            return PyFunc("str." + a, lambda it, args, kw, base=base, a=a: getattr(base, a)(*args))
        raise EvalError(f"attribute {a} of {base!r}")

    # ---- calls
    def e_Call(self, e, env):
        f = self.eval(e.func, env)
        args = []
        for a in e.args:
            if isinstance(a, ast.Starred):
                args += list(self.eval(a.value, env))
            else:
                args.append(self.eval(a, env))
        kwargs = {}
        for k in e.keywords:
            if k.arg:
                kwargs[k.arg] = self.eval(k.value, env)
            else:
                d = self.eval(k.value, env)
                if not isinstance(d, dict):
                    raise EvalError("** of a value that is not a dictionary")
                kwargs.update(d)
        return self.call(f, args, kwargs)

    def call(self, f, args, kwargs):
        if isinstance(f, Closure):
            return self.call_closure(f, args, kwargs)
        if isinstance(f, Deriv):
            return self.call_deriv(f, args, kwargs)
        if isinstance(f, tuple) and f and f[0] == "method":
            return self.call_method(f[1], f[2], args, kwargs)
        if isinstance(f, NamedTupleVal):
            vals = list(args) + [None] * (len(f.fields) - len(args))
            for k, v in kwargs.items():
                vals[f.fields.index(k)] = v
            return Record(f.name, f.fields, vals)
        if isinstance(f, Ext):
            return self.call_ext(f.name, args, kwargs)
        if isinstance(f, PyFunc):
            return f.fn(self, args, kwargs)
        if isinstance(f, Vmapped):
            arrs = [a for a in args if isinstance(a, Arr)]
            if not arrs:
                raise EvalError("vmap without array arguments")
            k = arrs[0].shape[0]
            outs = [self.num(self.call(f.fn, [self.getitem(a, i) if isinstance(a, Arr) else a for a in args], kwargs)) for i in range(k)]
            if all(isinstance(o, Dual) for o in outs):
                return Arr(outs, (k,))
            raise EvalError("vmap of a non-scalar function")
        raise EvalError(f"call of {f!r}")

    def call_closure(self, f: Closure, args, kwargs):
        q = f.scope.qualname
        if q in self.special:
            return self.special[q](self, args, kwargs)
        self.depth += 1
        if self.depth > self.max_depth:
            self.depth -= 1
            raise EvalError("recursion too deep")
        try:
            self.visited.add(q)
            env = Env(f.scope, f.env)
            sc = f.scope
            ps = sc.params()
            if len(args) > len(ps) and not sc.has_varargs():
                raise EvalError(f"too many arguments for {q}")
            for p, a in zip(ps, args):
                env.vars[p] = a
            for k, v in kwargs.items():
                env.vars[k] = v
            for p in ps + sc.kwonly():
                if p not in env.vars:
                    d = sc.default_of(p)
                    if d is None:
                        raise EvalError(f"missing argument {p} of {q}")
                    env.vars[p] = self.eval(d, f.env)
            if sc.kind == "lambda":
                return self.eval(sc.node.body, env)
            try:
                self.block(sc.node.body, env)
            except ReturnSignal as r:
                return r.value
            return None
        finally:
            self.depth -= 1

    def call_deriv(self, f: Deriv, args, kwargs):
        # forward-mode with the same infinitesimal: valid only if no argument depends on eps
        for a in args:
            if isinstance(a, Dual) and not rat_is_zero(a.b):
                raise EvalError("derivative of a function whose arguments already depend on eps")
            if isinstance(a, Arr) and any(not rat_is_zero(x.b) for x in a.data):
                raise EvalError("derivative of a function whose arguments already depend on eps")
        a2 = list(args)
        x = self.num(a2[f.argnum])
        if isinstance(x, Arr):
            raise EvalError("derivative w.r.t. an array argument")
        a2[f.argnum] = Dual(x.a, ONE)
        r = self.call(f.fn, a2, kwargs)
        r = self.num(r)
        if isinstance(r, Arr):
            return r.map(lambda v: Dual(v.b))
        return Dual(r.b)

    def call_method(self, base, name, args, kwargs):
        if isinstance(base, Arr):
            if name == "ravel":
                return base.ravel()
            if name == "reshape":
                shp = args[0] if len(args) == 1 and isinstance(args[0], (tuple, list)) else tuple(args)
                return base.reshape([self.as_int(s) for s in shp])
            if name == "dot":
                return matmul(base, self.num(args[0]))
        if isinstance(base, dict):
            if name == "get":
                return base.get(args[0], args[1] if len(args) > 1 else None)
            if name == "items":
                return list(base.items())
            if name == "keys":
                return list(base.keys())
        if isinstance(base, list):
            # Python lists are mutable objects of the interpreted program as well
            if name == "append":
                base.append(args[0])
                return None
            if name == "extend":
                base.extend(list(args[0]))
                return None
        if isinstance(base, AtIndexed):
            if name == "get":
                return base.arr.index(base.key)
            if name in ("set", "add"):
                val = args[0]
                if isinstance(val, bool) and base.arr.isbool:
                    val = Dual(1 if val else 0)
                return at_update(base.arr, self._norm_key(base.key), self.num(val), add=(name == "add"))
        raise EvalError(f"method {name} of {base!r}")

    def call_ext(self, name, args, kwargs):
        last = name.split(".")[-1]
        n = self.num
        if name in self.ext_special:
            return self.ext_special[name](self, args, kwargs)
        if name == "jax.value_and_grad" and isinstance(args[0], PyFunc) and getattr(args[0], "grad", None) is not None:
            f_ = args[0]
            return PyFunc("value_and_grad(" + f_.name + ")", lambda it, a, k, f_=f_: (f_.fn(it, a, k), f_.grad(it, a, k)))
        if name in ("builtins.print",):
            return None
        if name == "functools.partial" and args:
            f0, a0, k0 = args[0], list(args[1:]), dict(kwargs)
            return PyFunc("partial", lambda it, a, k, f0=f0, a0=a0, k0=k0: it.call(f0, a0 + list(a), dict(k0, **k)))
        if name == "builtins.range":
            return list(range(*[self.as_int(a) for a in args]))
        if name == "builtins.reversed":
            a = args[0]
            if isinstance(a, Arr):
                a = [a.index(i) for i in range(a.shape[0])]
            return list(reversed(list(a)))
        if name == "builtins.list":
            a = args[0] if args else []
            if isinstance(a, Arr):
                return [a.index(i) for i in range(a.shape[0])]
            return list(a)
        if name == "builtins.sorted":
            a = list(args[0])
            return sorted(a, key=lambda v: self.as_int(v) if not isinstance(v, (str, int)) else v)
        if name == "builtins.len":
            a = args[0]
            return a.shape[0] if isinstance(a, Arr) else len(a)
        if name == "builtins.slice":
            return slice(*[None if a is None else self.as_int(a) for a in args])
        if name == "builtins.float" or name == "builtins.int":
            return args[0]
        if name == "builtins.tuple":
            return tuple(self.iterate(args[0])) if args else ()
        if name == "builtins.zip":
            return [tuple(t) for t in zip(*[self.iterate(a) for a in args])]
        if name == "builtins.enumerate":
            start = self.as_int(args[1]) if len(args) > 1 else self.as_int(kwargs.get("start", 0))
            return [(start + i, x) for i, x in enumerate(self.iterate(args[0]))]
        if name == "builtins.map" and len(args) >= 2:
            return [self.call(args[0], list(t), {}) for t in zip(*[self.iterate(a) for a in args[1:]])]
        if name == "builtins.sum" and args:
            acc = args[1] if len(args) > 1 else kwargs.get("start", 0)
            for x in self.iterate(args[0]):
                acc = self.plus(acc, x)
            return acc
        if name == "builtins.abs" and len(args) == 1:
            if isinstance(args[0], (int, Fraction)) and not isinstance(args[0], bool):
                return abs(args[0])
            x = n(args[0])
            return x.map(lambda v: d_fun("abs", v)) if isinstance(x, Arr) else d_fun("abs", x)
        if name in ("builtins.all", "builtins.any") and len(args) == 1:
            vals = [self.truth(x) for x in self.iterate(args[0])]
            return all(vals) if name.endswith("all") else any(vals)
        if name in ("builtins.max", "builtins.min") and len(args) == 2:
            a, b = n(args[0]), n(args[1])
            c = self.compare(a, ast.Lt(), b)
            return (a if c else b) if name.endswith("min") else (b if c else a)
        if name == "collections.namedtuple":
            fields = args[1] if isinstance(args[1], (list, tuple)) else args[1].replace(",", " ").split()
            return NamedTupleVal(args[0], tuple(fields), 0)
        if name in ("jax.grad", "jax.jacfwd", "jax.jacrev"):
            k = args[1] if len(args) > 1 else kwargs.get("argnums", 0)
            return Deriv(args[0], self.as_int(k))
        if name in ("jax.jit", "jax.custom_jvp", "jax.checkpoint"):
            return args[0]
        if name == "jax.vmap":
            return Vmapped(args[0])
        if name == "jax.lax.cond":
            c = self.truth(args[0])
            return self.call(args[1] if c else args[2], list(args[3:]) + ([kwargs["operand"]] if "operand" in kwargs else []), {})
        if name.startswith(("jax.numpy.", "numpy.")):
            return self.np_call(name.split(".", 1)[1] if name.startswith("numpy.") else name[len("jax.numpy."):], args, kwargs)
        if name == "jax.scipy.linalg.expm":
            return self.spectral("exp", n(args[0]))
        if name == "<register>":
            return None
        if name.startswith("class:"):
            csc = self.repo.find(name[len("class:"):])
            if csc is not None:
                fields = [st.target.id for st in csc.node.body if isinstance(st, ast.AnnAssign) and isinstance(st.target, ast.Name)]
                if fields and len(args) <= len(fields):
                    vals = list(args) + [None] * (len(fields) - len(args))
                    for k, v in kwargs.items():
                        if k not in fields:
                            raise EvalError(f"unknown field {k} of {name}")
                        vals[fields.index(k)] = v
                    return Record(csc.name, fields, vals, cls=csc)
                if not fields:
                    init = plain_class_init(csc)
                    if init is not None:
                        return self.instantiate(csc, init, args, kwargs)
        raise EvalError(f"external function {name}")

    def instantiate(self, csc, init, args, kwargs):
        """object of a plain repository class: run `__init__` with self = the new object"""
        obj = Instance(csc.name, csc)
        self.visited.add(csc.qualname)
        if init is False:
            if args or kwargs:
                raise EvalError(f"class {csc.qualname} takes no arguments")
            return obj
        obj.constructing = True
        try:
            r = self.call_closure(Closure(init, self.module_env(csc.module)), [obj] + list(args), kwargs)
        finally:
            obj.constructing = False
        if r is not None:
            raise EvalError(f"__init__ of {csc.qualname} returns a value")
        return obj

    def spectral(self, fname, A, extra=None):
        if not isinstance(A, Arr) or not A.is_diagonal():
            raise EvalError(f"spectral function {fname} of a non-diagonal argument")
        nn = A.shape[0]
        out = [Dual(0)] * (nn * nn)
        for i in range(nn):
            x = A.data[i * nn + i]
            out[i * nn + i] = d_pow(x, extra) if fname == "pow" else d_fun(fname, x)
        return Arr(out, A.shape)

    def np_call(self, fn, args, kwargs):
        n = self.num
        if fn == "finfo":
            # IEEE double precision (the library runs with 64-bit floats enabled): exact values of the limits
            two = Fraction(2)
            return Record("finfo", ["eps", "tiny", "smallest_normal", "max", "min", "resolution"],
                          [Dual(two ** -52), Dual(two ** -1022), Dual(two ** -1022), Dual((2 - two ** -52) * two ** 1023),
                           Dual(-(2 - two ** -52) * two ** 1023), Dual(Fraction(1, 10 ** 15))])
        if fn in ("eye", "identity"):
            k = self.as_int(args[0])
            return Arr([Dual(1 if i == j else 0) for i in range(k) for j in range(k)], (k, k))
        if fn in ("zeros", "ones"):
            shp = args[0]
            shp = (self.as_int(shp),) if not isinstance(shp, (tuple, list)) else tuple(self.as_int(s) for s in shp)
            sz = 1
            for s in shp:
                sz *= s
            return Arr([Dual(0 if fn == "zeros" else 1) for _ in range(sz)], shp)
        if fn == "clip" and len(args) == 3:
            x, lo, hi = n(args[0]), n(args[1]), n(args[2])
            if self.compare(x, ast.Lt(), lo):
                return lo
            if self.compare(x, ast.Gt(), hi):
                return hi
            return x
        if fn == "arange":
            return Arr([Dual(i) for i in range(*[self.as_int(a) for a in args])], (len(range(*[self.as_int(a) for a in args])),))
        if fn == "cumsum":
            x = n(args[0])
            out, acc = [], Dual(0)
            for v in x.ravel().data:
                acc = acc + v
                out.append(acc)
            return Arr(out, (len(out),))
        if fn == "flip":
            x = n(args[0])
            if x.ndim != 1:
                raise EvalError("flip of a multi-dimensional array")
            return Arr(list(reversed(x.data)), x.shape)
        if fn == "full":
            shp = args[0]
            shp = (self.as_int(shp),) if not isinstance(shp, (tuple, list)) else tuple(self.as_int(s_) for s_ in shp)
            sz = 1
            for s_ in shp:
                sz *= s_
            if isinstance(args[1], bool):
                return Arr([Dual(1 if args[1] else 0) for _ in range(sz)], shp, isbool=True)
            return Arr([n(args[1]) for _ in range(sz)], shp)
        if fn == "zeros_like":
            x = n(args[0])
            return Arr([Dual(0)] * len(x.data), x.shape)
        if fn in ("array", "asarray"):
            a = args[0]
            if isinstance(a, Arr):
                return a
            if isinstance(a, (list, tuple)):
                return Arr.from_nested(a)
            return n(a)
        if fn == "reshape":
            shp = args[1]
            return n(args[0]).reshape([self.as_int(x) for x in (shp if isinstance(shp, (tuple, list)) else (shp,))])
        if fn == "hstack":
            out = []
            for p in args[0]:
                p = n(p) if not isinstance(p, Arr) else p
                out += list(p.ravel().data) if isinstance(p, Arr) else [p]
            return Arr(out, (len(out),))
        if fn == "tile":
            reps = args[1]
            reps = (reps,) if not isinstance(reps, (tuple, list)) else tuple(reps)
            if all(self.as_int(r) == 1 for r in reps):
                return args[0]
            base = n(args[0])
            reps = tuple(self.as_int(r) for r in reps)
            if isinstance(base, Dual):
                base = Arr([base], (1,))
            if base.ndim == 1 and len(reps) == 1:
                return Arr(list(base.data) * reps[0], (base.shape[0] * reps[0],))
            if base.ndim == 1 and len(reps) == 2:
                return Arr(list(base.data) * (reps[0] * reps[1]), (reps[0], base.shape[0] * reps[1]))
            raise EvalError("np.tile with repetitions")
        if fn == "concatenate":
            ax = kwargs.get("axis", args[1] if len(args) > 1 else 0)
            parts = [n(p_) for p_ in self.iterate(args[0])]
            if all(isinstance(p_, Arr) and p_.ndim == 1 for p_ in parts) and self.as_int(ax) in (0, -1):
                out = [x for p_ in parts for x in p_.data]
                return Arr(out, (len(out),))
            raise EvalError("np.concatenate of arrays that are not one-dimensional")
        if fn in ("stack", "vstack", "column_stack"):
            parts = [n(p_) for p_ in self.iterate(args[0])]
            ax = self.as_int(kwargs.get("axis", args[1] if len(args) > 1 else 0)) if fn == "stack" else 0
            if fn == "stack" and all(isinstance(p_, Dual) for p_ in parts) and ax in (0, -1):
                return Arr(list(parts), (len(parts),))
            if parts and all(isinstance(p_, Arr) and p_.ndim == 1 and p_.shape == parts[0].shape for p_ in parts):
                rows = Arr([x for p_ in parts for x in p_.data], (len(parts), parts[0].shape[0]))
                if fn == "column_stack" or (fn == "stack" and ax in (1, -1)):
                    return rows.T()
                if ax == 0:
                    return rows
            if fn == "vstack" and parts and all(isinstance(p_, Arr) and p_.ndim == 2 and p_.shape[1] == parts[0].shape[1] for p_ in parts):
                return Arr([x for p_ in parts for x in p_.data], (sum(p_.shape[0] for p_ in parts), parts[0].shape[1]))
            raise EvalError(f"np.{fn} of these operands")
        if fn == "trace":
            A = n(args[0])
            return sum_d(A.data[i * A.shape[1] + i] for i in range(A.shape[0]))
        if fn == "tensordot":
            A, B = n(args[0]), n(args[1])
            if "axes" in kwargs or len(args) > 2:
                raise EvalError("tensordot with axes")
            if A.shape != B.shape:
                raise EvalError("tensordot shapes")
            return sum_d(x * y for x, y in zip(A.data, B.data))
        if fn in ("dot", "vdot", "matmul"):
            A, B = n(args[0]), n(args[1])
            if isinstance(A, Arr) and isinstance(B, Arr):
                if fn == "vdot" and (A.ndim > 1 or B.ndim > 1):
                    # numpy flattens both operands of vdot
                    if A.size() != B.size():
                        raise EvalError("vdot sizes")
                    return sum_d(x * y for x, y in zip(A.data, B.data))
                return matmul(A, B)
            return A * B
        if fn in ("square", "negative", "transpose", "ravel", "atleast_1d") and len(args) == 1:
            x = n(args[0])
            if fn == "square":
                return x.map(lambda v: v * v) if isinstance(x, Arr) else x * x
            if fn == "negative":
                return self.neg(x)
            if fn == "transpose":
                if isinstance(x, Arr) and x.ndim > 2:
                    raise EvalError("transpose of a higher-order array")
                return x.T() if isinstance(x, Arr) else x
            if fn == "ravel":
                return x.ravel() if isinstance(x, Arr) else Arr([x], (1,))
            return x if isinstance(x, Arr) and x.ndim >= 1 else Arr([x.data[0] if isinstance(x, Arr) else x], (1,))
        if fn in ("multiply", "add", "subtract", "divide", "true_divide") and len(args) == 2:
            a, b = n(args[0]), n(args[1])
            f = {"multiply": lambda u, v: u * v, "add": lambda u, v: u + v, "subtract": lambda u, v: u - v}.get(fn, lambda u, v: u / v)
            if isinstance(a, Arr):
                return a.zip(b, f)
            if isinstance(b, Arr):
                return b.map(lambda y: f(a, y))
            return f(a, b)
        if fn == "concatenate" and args and isinstance(args[0], (list, tuple)) and kwargs.get("axis", 0) in (0, None) and len(args) == 1:
            parts = [n(p_) for p_ in args[0]]
            if all(isinstance(p_, Arr) and p_.ndim == 1 for p_ in parts):
                out = [x for p_ in parts for x in p_.data]
                return Arr(out, (len(out),))
            raise EvalError("np.concatenate of arrays that are not one-dimensional")
        if fn == "outer" and len(args) == 2:
            a, b = n(args[0]), n(args[1])
            if isinstance(a, Arr) and isinstance(b, Arr):
                return Arr([x * y for x in a.ravel().data for y in b.ravel().data], (a.size(), b.size()))
            raise EvalError("np.outer operands")
        if fn == "einsum" and args and isinstance(args[0], str):
            return self._einsum(args[0], [n(a) for a in args[1:]])
        if fn in ("sign", "abs", "absolute") and callable(self.policy) and isinstance(n(args[0]), Dual) and rat_const(n(args[0]).a) is None:
            x = n(args[0])
            sv = self.policy(x.a)
            if sv is None:
                raise EvalError("sign at the sample point")
            sg = 1 if sv > 0 else (-1 if sv < 0 else 0)
            if fn == "sign":
                return Dual(sg)
            return x if sg >= 0 else -x
        if fn == "sign":
            x = n(args[0])
            c_ = rat_const(x.a) if isinstance(x, Dual) else None
            if c_ is None:
                raise EvalError("sign of a symbolic value")
            return Dual(1 if c_ > 0 else (-1 if c_ < 0 else 0))
        if fn in ("log", "log1p", "exp", "expm1", "sqrt", "abs"):
            x = n(args[0])
            return x.map(lambda v: d_fun(fn, v)) if isinstance(x, Arr) else d_fun(fn, x)
        if fn == "power":
            x = n(args[0])
            return x.map(lambda v: d_pow(v, args[1])) if isinstance(x, Arr) else d_pow(x, args[1])
        if fn in ("split", "array_split") and len(args) >= 2 and isinstance(args[0], Arr) and args[0].ndim == 1 and not isinstance(args[1], (list, tuple, Arr)):
            k = self.as_int(args[1])
            m = args[0].shape[0]
            if k <= 0 or m % k != 0:
                raise EvalError("np.split into unequal parts")
            w = m // k
            return [Arr(list(args[0].data[i * w:(i + 1) * w]), (w,)) for i in range(k)]
        if fn in ("maximum", "minimum") and len(args) == 2 and not isinstance(n(args[0]), Arr) and not isinstance(n(args[1]), Arr):
            a_, b_ = n(args[0]), n(args[1])
            c_ = self.compare(a_, ast.Lt(), b_)
            return (a_ if c_ else b_) if fn == "minimum" else (b_ if c_ else a_)
        if fn == "cbrt":
            x = n(args[0])
            return x.map(lambda v: d_pow(v, Fraction(1, 3))) if isinstance(x, Arr) else d_pow(x, Fraction(1, 3))
        if fn == "square":
            x = n(args[0])
            return x.map(lambda v: v * v) if isinstance(x, Arr) else x * x
        if fn == "einsum" and args and isinstance(args[0], str):
            return einsum_arr(args[0], [n(a) for a in args[1:]])
        if fn == "where":
            c = args[0]
            if isinstance(c, Arr):
                raise EvalError("np.where with an array condition")
            return args[1] if self.truth(c) else args[2]
        if fn == "sum":
            x = n(args[0])
            return sum_d(x.data) if isinstance(x, Arr) else x
        if fn == "ravel" and len(args) == 1:
            x = n(args[0])
            return x.ravel() if isinstance(x, Arr) else Arr([x], (1,))
        if fn == "transpose" and len(args) == 1 and isinstance(args[0], Arr) and args[0].ndim <= 2:
            return args[0].T()
        if fn == "linalg.det":
            A = n(args[0])
            if A.shape == (3, 3):
                g = lambda i, j: A.data[i * 3 + j]
                return g(0, 0) * g(1, 1) * g(2, 2) + g(0, 1) * g(1, 2) * g(2, 0) + g(0, 2) * g(1, 0) * g(2, 1) \
                    - g(0, 0) * g(1, 2) * g(2, 1) - g(0, 1) * g(1, 0) * g(2, 2) - g(0, 2) * g(1, 1) * g(2, 0)
            if A.shape == (2, 2):
                return A.data[0] * A.data[3] - A.data[1] * A.data[2]
            if A.shape == (1, 1):
                return A.data[0]
            raise EvalError("det shape")
        if fn == "linalg.inv":
            A = n(args[0])
            if A.is_diagonal():
                k = A.shape[0]
                return Arr([(Dual(1) / A.data[i * k + i]) if i == j else Dual(0) for i in range(k) for j in range(k)], A.shape)
            raise EvalError("inverse of a non-diagonal matrix")
        if fn == "linalg.norm":
            x = n(args[0])
            return d_fun("sqrt", sum_d(v * v for v in x.data))
        if fn == "diag":
            x = n(args[0])
            if x.ndim == 1:
                k = x.shape[0]
                return Arr([x.data[i] if i == j else Dual(0) for i in range(k) for j in range(k)], (k, k))
        if fn == "take" and len(args) >= 2 and set(kwargs) <= {"axis"}:
            # np.take(a, constant integer indices, axis): the gather a[indices] along `axis` (axis=None: of the flattened array)
            x, idx = n(args[0]), args[1]
            ax = kwargs.get("axis", args[2] if len(args) > 2 else None)
            if len(args) > 3 or not isinstance(x, Arr):
                raise EvalError("take: unsupported arguments")
            idx = Arr.from_nested(idx) if isinstance(idx, (list, tuple)) else idx
            ks = [self.as_int(k) for k in idx.data] if isinstance(idx, Arr) else [self.as_int(idx)]
            if isinstance(idx, Arr) and idx.isbool or any(k < 0 for k in ks):
                raise EvalError("take: negative or boolean indices")
            key = Arr([Dual(k) for k in ks], idx.shape) if isinstance(idx, Arr) else ks[0]
            if ax is None:
                return self.getitem(x.ravel(), key)
            ax = self.as_int(ax)
            ax = ax + x.ndim if ax < 0 else ax
            if ax == 0:
                return self.getitem(x, key)
            if ax == 1 and x.ndim == 2 and (not isinstance(key, Arr) or key.ndim == 1):
                out = self.getitem(x.T(), key)
                return out.T() if isinstance(out, Arr) else out
            raise EvalError("take along an inner axis")
        if fn == "roll" and len(args) >= 2 and set(kwargs) <= {"axis"}:
            # np.roll of a vector by a constant shift: out[i] = x[(i - shift) mod n]
            x = n(args[0])
            ax = kwargs.get("axis", args[2] if len(args) > 2 else None)
            if len(args) > 3 or not isinstance(x, Arr) or x.ndim != 1 or x.shape[0] == 0 or (ax is not None and self.as_int(ax) not in (0, -1)):
                raise EvalError("roll of an array that is not a vector")
            s_, k = self.as_int(args[1]), x.shape[0]
            return Arr([x.data[(i - s_) % k] for i in range(k)], x.shape)
        raise EvalError(f"numpy function {fn}")

    # ---- helpers of the builtins (zip / enumerate / sum / map)
    def iterate(self, v):
        """the items a Python `for` would see"""
        if isinstance(v, Arr):
            if v.ndim == 0:
                raise EvalError("iteration over a 0-d array")
            return [v.index(i) for i in range(v.shape[0])]
        if isinstance(v, Instance):
            raise EvalError(f"iteration over {v!r}")
        if isinstance(v, Record):
            return list(v.values)
        if isinstance(v, dict):
            return list(v.keys())
        if isinstance(v, (list, tuple)):
            return list(v)
        raise EvalError(f"iteration over {v!r}")

    def plus(self, a, b):
        """a + b on values (the semantics of the BinOp Add)"""
        env = Env(None, None)
        env.vars["__l"], env.vars["__r"] = a, b
        return self.e_BinOp(ast.BinOp(left=ast.Name(id="__l", ctx=ast.Load()), op=ast.Add(), right=ast.Name(id="__r", ctx=ast.Load())), env)

    def _einsum(self, spec, ops):
        """explicit-index einsum over small dense arrays (no ellipsis)"""
        import itertools
        spec = spec.replace(" ", "")
        if "." in spec:
            raise EvalError("einsum with ellipsis")
        lhs, _, rhs = spec.partition("->")
        ins = lhs.split(",")
        if len(ins) != len(ops) or not all(isinstance(o, Arr) and o.ndim == len(i_) for o, i_ in zip(ops, ins)):
            raise EvalError("einsum operands")
        if "->" not in spec:
            letters = "".join(ins)
            rhs = "".join(sorted(c for c in set(letters) if letters.count(c) == 1))
        dims = {}
        for o, i_ in zip(ops, ins):
            for c, d_ in zip(i_, o.shape):
                if dims.setdefault(c, d_) != d_:
                    raise EvalError("einsum dimension mismatch")
        summed = [c for c in dims if c not in rhs]
        out = []
        for oidx in itertools.product(*[range(dims[c]) for c in rhs]):
            env_ = dict(zip(rhs, oidx))
            tot = Dual(0)
            for sidx in itertools.product(*[range(dims[c]) for c in summed]):
                env_.update(zip(summed, sidx))
                term = Dual(1)
                for o, i_ in zip(ops, ins):
                    term = term * o.get(tuple(env_[c] for c in i_))
                tot = tot + term
            out.append(tot)
        if not rhs:
            return out[0]
        return Arr(out, tuple(dims[c] for c in rhs))

    # ---- statements
    def block(self, body, env):
        for st in body:
            self.stmt(st, env)

    def stmt(self, st, env):
        if isinstance(st, ast.Assign):
            try:
                v = self.eval(st.value, env)
                for t in st.targets:
                    self.assign(t, v, env)
            except EvalError as ex:
                if not self.tolerant:
                    raise
                # partial evaluation: the targets become unknown, evaluation continues
                for t in st.targets:
                    for nme in ast.walk(t):
                        if isinstance(nme, ast.Name) and isinstance(nme.ctx, ast.Store):
                            env.vars[nme.id] = Unknown(str(ex))
                        elif isinstance(t, ast.Subscript) and isinstance(t.value, ast.Name):
                            env.vars[t.value.id] = Unknown(str(ex))
        elif isinstance(st, ast.AugAssign):
            try:
                cur = self.eval(ast.Name(id=st.target.id, ctx=ast.Load()), env) if isinstance(st.target, ast.Name) else None
                if cur is None:
                    raise EvalError("augmented assignment target")
                env2 = Env(env.scope, env)
                env2.vars["__l"], env2.vars["__r"] = cur, self.eval(st.value, env)
                v = self.e_BinOp(ast.BinOp(left=ast.Name(id="__l", ctx=ast.Load()), op=st.op, right=ast.Name(id="__r", ctx=ast.Load())), env2)
                env.vars[st.target.id] = v
            except EvalError as ex:
                if not self.tolerant or not isinstance(st.target, ast.Name):
                    raise
                env.vars[st.target.id] = Unknown(str(ex))
        elif isinstance(st, ast.Return):
            raise ReturnSignal(self.eval(st.value, env) if st.value is not None else None)
        elif isinstance(st, ast.If):
            c = self.truth(self.eval(st.test, env))
            self.block(st.body if c else st.orelse, env)
        elif isinstance(st, ast.For):
            it = self.eval(st.iter, env)
            for x in it:
                self.assign(st.target, x, env)
                self.block(st.body, env)
        elif isinstance(st, (ast.FunctionDef,)):
            sc = self.repo.scope_of(st)
            env.vars[st.name] = Closure(sc, env)
        elif isinstance(st, ast.Expr):
            if isinstance(st.value, ast.Constant):
                return
            self.eval(st.value, env)
        elif isinstance(st, (ast.Delete, ast.Pass, ast.Import, ast.ImportFrom, ast.Assert)):
            return
        elif isinstance(st, ast.Raise):
            raise Raised(norm_src(st)[:80])
        elif isinstance(st, ast.Try):
            # try / except of the interpreted program: a failed dictionary lookup is its KeyError, an interpreted `raise X(...)` is X
            def handler_for(kind):
                for hd in st.handlers:
                    names = []
                    if hd.type is None:
                        return hd
                    for t in (hd.type.elts if isinstance(hd.type, ast.Tuple) else [hd.type]):
                        names.append((dotted(t) or "").split(".")[-1])
                    if any(n in kind for n in names):
                        return hd
                return None
            try:
                try:
                    self.block(st.body, env)
                except LookupFailed as ex:
                    hd = handler_for(("KeyError", "LookupError", "Exception", "BaseException"))
                    if hd is None:
                        raise
                    if hd.name:
                        env.vars[hd.name] = str(ex)
                    self.block(hd.body, env)
                except Raised as ex:
                    txt = str(ex)
                    cls = txt[len("raise "):].split("(")[0].strip().split(".")[-1] if txt.startswith("raise ") else ""
                    hd = handler_for((cls, "Exception", "BaseException")) if cls else None
                    if hd is None:
                        raise
                    if hd.name:
                        env.vars[hd.name] = txt
                    self.block(hd.body, env)
                else:
                    self.block(st.orelse, env)
            finally:
                if st.finalbody:
                    self.block(st.finalbody, env)
        else:
            raise EvalError(f"statement {type(st).__name__}")

    def assign(self, t, v, env):
        if isinstance(t, ast.Name):
            env.vars[t.id] = v
        elif isinstance(t, (ast.Tuple, ast.List)):
            if isinstance(v, Instance):
                raise EvalError(f"unpacking of {v!r}")
            vs = list(v.values) if isinstance(v, Record) else list(v)
            if len(vs) != len(t.elts):
                raise EvalError("unpack width")
            for a, b in zip(t.elts, vs):
                self.assign(a, b, env)
        elif isinstance(t, ast.Subscript):
            base = self.eval(t.value, env)
            key = self.eval_index(t.slice, env)
            if isinstance(base, dict):
                base[key] = v
            elif isinstance(base, list):
                base[key] = v
            elif isinstance(base, Arr) and isinstance(t.value, ast.Name):
                new = at_update(base, self._norm_key(key), self.num(v) if not isinstance(v, Arr) else v)
                # numpy arrays are mutable: every alias in scope sees the store
                e_ = env
                while e_ is not None:
                    for k_, v_ in list(e_.vars.items()):
                        if v_ is base:
                            e_.vars[k_] = new
                    e_ = e_.parent
            else:
                raise EvalError("subscript store")
        elif isinstance(t, ast.Attribute):
            base = self.eval(t.value, env)
            if not isinstance(base, Instance):
                raise EvalError("assignment target")
            if not base.constructing:
                raise EvalError(f"attribute {t.attr} of {base!r} is stored after its construction")
            if any(c.kind == "function" and c.name == t.attr for c in base.cls.children):
                raise EvalError(f"attribute {t.attr} of {base!r} shadows a method")
            base.store(t.attr, v)
        else:
            raise EvalError("assignment target")


class AtProxy:
    def __init__(self, arr):
        self.arr = arr


class AtIndexed:
    def __init__(self, arr, key):
        self.arr, self.key = arr, key


def at_update(arr: Arr, key, val, add=False):
    import itertools
    if not isinstance(key, tuple):
        key = (key,)
    key = key + (slice(None),) * (arr.ndim - len(key))
    ranges = []
    for k, s in zip(key, arr.shape):
        if isinstance(k, Arr):
            ks = []
            for x in k.ravel().data:
                c = rat_const(x.a)
                if c is None or c.denominator != 1:
                    raise EvalError("non-integer index array")
                ks.append(int(c) if c >= 0 else int(c) + s)
            ranges.append(ks)
        else:
            ranges.append(list(range(*k.indices(s))) if isinstance(k, slice) else [k if k >= 0 else k + s])
    data = list(arr.data)
    idxs = list(itertools.product(*ranges))
    vals = val.data if isinstance(val, Arr) else [val] * len(idxs)
    if len(vals) != len(idxs):
        raise EvalError(".at[].set shape")
    for ix, v in zip(idxs, vals):
        off, stride = 0, 1
        for i, s in zip(reversed(ix), reversed(arr.shape)):
            off += i * stride
            stride *= s
        data[off] = (data[off] + v) if add else v
    return Arr(data, arr.shape, isbool=arr.isbool)


def env_root_module(env: Env):
    e = env
    while e.parent is not None:
        e = e.parent
    return e.scope.module
