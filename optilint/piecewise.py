"""Piecewise symbolic evaluation of small straight-line scalar functions built from
np.where / if_then_else / comparisons, into a list of pieces (conditions, rational function).

Conditions are atomic comparisons `L op R` over rational functions with a polarity.  GLUE checks:
sampling *discovers* which pieces are adjacent across which switching surface; symbolic normal
forms *decide* C0 / C1 agreement on that surface (exact, over the reals).
"""
from __future__ import annotations

import ast
import itertools
from dataclasses import dataclass
from fractions import Fraction

from .expr import Algebra, Rat, Poly, NotPolynomial
from .model import dotted, norm_src


@dataclass(frozen=True)
class Atom:
    key: str            # canonical text "L op R"
    op: str             # Lt | LtE | Gt | GtE
    diff: object        # Rat  L - R   (hash by key)

    def __hash__(self):
        return hash(self.key)

    def __eq__(self, o):
        return isinstance(o, Atom) and o.key == self.key


@dataclass
class Piece:
    conds: tuple        # ((Atom, polarity), ...)
    value: object       # Rat | bool-formula


class BoolVal:
    """Disjunction of conjunctions of (Atom, polarity)."""
    def __init__(self, dnf):
        self.dnf = dnf      # list of tuples


class PW:
    """Piecewise rational value."""
    def __init__(self, pieces):
        self.pieces = pieces


def _consistent(conds):
    seen = {}
    for (a, p) in conds:
        if a.key in seen and seen[a.key] != p:
            return False
        seen[a.key] = p
    return True


def _merge(c1, c2):
    out = list(c1)
    keys = {(a.key, p) for (a, p) in c1}
    for (a, p) in c2:
        if (a.key, p) not in keys:
            out.append((a, p))
    return tuple(out)


class PiecewiseEval:
    def __init__(self, algebra: Algebra, assumptions=None, opaque_sqrt=None):
        self.A = algebra
        self.assumed = dict(assumptions or {})     # canonical atom key -> bool
        self.names = {}

    # ---- atoms
    def atom(self, L: Rat, op: str, R: Rat) -> Atom:
        A = self.A
        if op in ("Gt", "GtE"):
            # normalise to Lt / LtE by swapping
            L, R = R, L
            op = {"Gt": "Lt", "GtE": "LtE"}[op]
        d = A.norm(L - R)
        key = f"{d!r} {op} 0"
        return Atom(key, op, d)

    def const_pw(self, r: Rat) -> PW:
        return PW([Piece((), r)])

    # ---- evaluation of expressions to PW / BoolVal
    def ev(self, e, env):
        if isinstance(e, ast.Name) and e.id in env:
            return env[e.id]
        if isinstance(e, ast.Compare) and len(e.ops) == 1:
            return self._cmp(e, env)
        if isinstance(e, ast.BoolOp):
            vals = [self._as_bool(self.ev(v, env)) for v in e.values]
            if isinstance(e.op, ast.And):
                dnf = [()]
                for v in vals:
                    dnf = [_merge(a, b) for a in dnf for b in v.dnf if _consistent(_merge(a, b))]
                return BoolVal(dnf)
            dnf = []
            for v in vals:
                dnf += v.dnf
            return BoolVal(dnf)
        if isinstance(e, ast.BinOp) and isinstance(e.op, ast.BitAnd):
            l, r = self._as_bool(self.ev(e.left, env)), self._as_bool(self.ev(e.right, env))
            return BoolVal([_merge(a, b) for a in l.dnf for b in r.dnf if _consistent(_merge(a, b))])
        if isinstance(e, ast.UnaryOp) and isinstance(e.op, ast.Not):
            return self._neg(self._as_bool(self.ev(e.operand, env)))
        if isinstance(e, ast.Call):
            d = (dotted(e.func) or "").split(".")[-1]
            if d in ("where", "if_then_else") and len(e.args) == 3:
                c = self._as_bool(self.ev(e.args[0], env))
                a = self._as_pw(self.ev(e.args[1], env))
                b = self._as_pw(self.ev(e.args[2], env))
                nc = self._neg(c)
                out = []
                for conj in c.dnf:
                    for p in a.pieces:
                        m = _merge(conj, p.conds)
                        if _consistent(m):
                            out.append(Piece(m, p.value))
                for conj in nc.dnf:
                    for p in b.pieces:
                        m = _merge(conj, p.conds)
                        if _consistent(m):
                            out.append(Piece(m, p.value))
                return PW(self._prune(out))
            if d in ("abs", "fabs") and len(e.args) == 1:
                # |u| as a piecewise value
                u = self._as_pw(self.ev(e.args[0], env))
                out = []
                for p in u.pieces:
                    at = self.atom(p.value, "Lt", self.A.const(0))
                    out.append(Piece(_merge(p.conds, ((at, True),)), -p.value))
                    out.append(Piece(_merge(p.conds, ((at, False),)), p.value))
                return PW(self._prune(out))
            if d in ("minimum", "maximum") and len(e.args) == 2:
                a = self._as_pw(self.ev(e.args[0], env))
                b = self._as_pw(self.ev(e.args[1], env))
                out = []
                for p in a.pieces:
                    for q in b.pieces:
                        at = self.atom(p.value, "Lt", q.value)
                        base = _merge(p.conds, q.conds)
                        lo, hi = (p.value, q.value)
                        out.append(Piece(_merge(base, ((at, True),)), lo if d == "minimum" else hi))
                        out.append(Piece(_merge(base, ((at, False),)), hi if d == "minimum" else lo))
                return PW(self._prune(out))
            if d in ("sqrt", "safe_sqrt") and len(e.args) == 1:
                u = self._as_pw(self.ev(e.args[0], env))
                return PW([Piece(p.conds, self.A.sqrt(p.value)) for p in u.pieces])
        # arithmetic: distribute over pieces
        if isinstance(e, ast.BinOp):
            l = self._as_pw(self.ev(e.left, env))
            r = self._as_pw(self.ev(e.right, env))
            out = []
            for p in l.pieces:
                for q in r.pieces:
                    m = _merge(p.conds, q.conds)
                    if not _consistent(m):
                        continue
                    out.append(Piece(m, self._arith(e.op, p.value, q.value, e)))
            return PW(self._prune(out))
        if isinstance(e, ast.UnaryOp) and isinstance(e.op, ast.USub):
            v = self._as_pw(self.ev(e.operand, env))
            return PW([Piece(p.conds, -p.value) for p in v.pieces])
        # leaf
        return self.const_pw(self.A.lower(e))

    def _arith(self, op, a: Rat, b: Rat, e):
        A = self.A
        if isinstance(op, ast.Add):
            return A.norm(a + b)
        if isinstance(op, ast.Sub):
            return A.norm(a - b)
        if isinstance(op, (ast.Mult, ast.MatMult)):
            return A.norm(a * b)
        if isinstance(op, ast.Div):
            return A.norm(a / b)
        if isinstance(op, ast.Pow):
            if b.d == Poly.const(1) and b.n.is_const():
                k = b.n.const_value()
                if k.denominator == 1:
                    return A.norm(a.pow(int(k)))
                if k.denominator == 2:
                    return A.norm(A.sqrt(a).pow(int(k.numerator)))
        raise NotPolynomial(norm_src(e))

    def _cmp(self, e, env):
        l = self._as_pw(self.ev(e.left, env))
        r = self._as_pw(self.ev(e.comparators[0], env))
        opn = type(e.ops[0]).__name__
        dnf = []
        for p in l.pieces:
            for q in r.pieces:
                at = self.atom(p.value, opn, q.value)
                m = _merge(_merge(p.conds, q.conds), ((at, True),))
                if _consistent(m):
                    dnf.append(m)
        return BoolVal(dnf)

    def _neg(self, b: BoolVal) -> BoolVal:
        # negate DNF -> CNF -> DNF (small sizes only)
        if not b.dnf:
            return BoolVal([()])
        choices = [[(a, not p) for (a, p) in conj] for conj in b.dnf]
        out = []
        for combo in itertools.product(*choices):
            m = ()
            for c in combo:
                m = _merge(m, (c,))
            if _consistent(m):
                out.append(m)
        # dedupe
        seen = set()
        res = []
        for m in out:
            k = tuple(sorted((a.key, p) for (a, p) in m))
            if k not in seen:
                seen.add(k)
                res.append(m)
        return BoolVal(res)

    def _as_bool(self, v) -> BoolVal:
        if isinstance(v, BoolVal):
            return v
        raise NotPolynomial("boolean expected")

    def _as_pw(self, v) -> PW:
        if isinstance(v, PW):
            return v
        if isinstance(v, Rat):
            return self.const_pw(v)
        raise NotPolynomial("numeric value expected")

    def _prune(self, pieces):
        out = []
        for p in pieces:
            ok = True
            conds = []
            for (a, pol) in p.conds:
                if a.key in self.assumed:
                    if self.assumed[a.key] != pol:
                        ok = False
                        break
                    continue
                # trivially decidable atoms (constant difference)
                if a.diff.d == Poly.const(1) and a.diff.n.is_const():
                    c = a.diff.n.const_value()
                    truth = (c < 0) if a.op == "Lt" else (c <= 0)
                    if truth != pol:
                        ok = False
                        break
                    continue
                conds.append((a, pol))
            if ok:
                out.append(Piece(tuple(conds), p.value))
        return out

    def assume(self, src_text: str, truth=True):
        e = ast.parse(src_text, mode="eval").body
        b = self._cmp(e, {})
        for conj in b.dnf:
            for (a, p) in conj:
                self.assumed[a.key] = (p == truth)

    # ---- running a function body (Assign / Return only)
    def run_function(self, fn_node: ast.FunctionDef, env=None):
        env = dict(env or {})
        for st in fn_node.body:
            if isinstance(st, ast.Expr) and isinstance(st.value, ast.Constant):
                continue
            if isinstance(st, ast.Assign) and len(st.targets) == 1 and isinstance(st.targets[0], ast.Name):
                env[st.targets[0].id] = self.ev(st.value, env)
            elif isinstance(st, ast.Return):
                v = self.ev(st.value, env)
                return self._as_pw(v) if not isinstance(v, BoolVal) else v
            else:
                raise NotPolynomial("statement not supported: " + norm_src(st)[:60])
        raise NotPolynomial("no return")

    # ---- piece selection at a numeric point
    def truth(self, a: Atom, point) -> bool:
        # exact rational evaluation whenever the condition has no algebraic atoms
        try:
            env = {k: Fraction(v).limit_denominator(10**12) if not isinstance(v, Fraction) else v for k, v in point.items()}
            atoms = a.diff.n.atoms() | a.diff.d.atoms()
            if all(x in env for x in atoms):
                v = a.diff.n.eval({k: env[k] for k in atoms}) / a.diff.d.eval({k: env[k] for k in atoms})
                return (v < 0) if a.op == "Lt" else (v <= 0)
        except (ZeroDivisionError, KeyError, TypeError):
            pass
        v = self.A.eval(a.diff, point)
        return (v < 0) if a.op == "Lt" else (v <= 0)

    def active(self, pw: PW, point):
        hits = [p for p in pw.pieces if all(self.truth(a, point) == pol for (a, pol) in p.conds)]
        return hits


def solve_linear(A: Algebra, diff: Rat, var: str):
    """diff = c1*var + c0 (numerator linear in var, denominator free of var) -> -c0/c1, or None."""
    n = diff.n
    if var in diff.d.atoms() or n.degree_in(var) != 1:
        return None
    c1 = n.diff(var)
    if var in c1.atoms():
        return None
    c0 = n - c1 * Poly.atom(var)
    return A.norm(Rat(-c0, c1))


def glue_obligations(pe: PiecewiseEval, pw: PW, variables, samples, deriv_vars=None, delta=Fraction(1, 10**6)):
    """Discover adjacent pieces by sampling each switching surface; return a list of
    (surface description, var, vstar Rat, piece P, piece Q)."""
    A = pe.A
    found = {}
    atoms = {}
    for p in pw.pieces:
        for (a, pol) in p.conds:
            atoms[a.key] = a
    for a in atoms.values():
        for var in variables:
            vstar = solve_linear(A, a.diff, var)
            if vstar is None:
                continue
            for pt in samples:
                try:
                    vs = A.eval(vstar, pt)
                except (KeyError, ZeroDivisionError):
                    continue
                lo = dict(pt)
                hi = dict(pt)
                lo[var] = vs - float(delta) * max(1.0, abs(vs))
                hi[var] = vs + float(delta) * max(1.0, abs(vs))
                pl, ph = pe.active(pw, lo), pe.active(pw, hi)
                if len(pl) != 1 or len(ph) != 1:
                    continue
                if pl[0] is ph[0]:
                    continue
                key = (a.key, var, id(pl[0]), id(ph[0]))
                if key not in found:
                    found[key] = (a, var, vstar, pl[0], ph[0], pt)
            break   # one variable per surface is enough
    return list(found.values())


def solve_square(A: Algebra, diff: Rat, var: str):
    """diff numerator = c2*var^2 - m^2 (m a monomial free of var, c2 a perfect-square constant) ->
    the non-negative root var* = m/sqrt(c2) (var is assumed >= 0 by the caller)."""
    import math
    n = diff.n
    if var in diff.d.atoms() or n.degree_in(var) != 2:
        return None
    quad = {m: c for m, c in n.t.items() if dict(m).get(var, 0) == 2}
    lin = {m: c for m, c in n.t.items() if dict(m).get(var, 0) == 1}
    rest = {m: c for m, c in n.t.items() if dict(m).get(var, 0) == 0}
    if lin or len(quad) != 1 or len(rest) != 1:
        return None
    (mq, cq), = quad.items()
    (mr, cr), = rest.items()
    if mq != ((var, 2),) or cq * cr >= 0:
        return None
    ratio = -cr / cq
    sn, sd = math.isqrt(ratio.numerator), math.isqrt(ratio.denominator)
    if sn * sn != ratio.numerator or sd * sd != ratio.denominator or any(e % 2 for (_, e) in mr):
        return None
    return Rat(Poly({tuple((k, e // 2) for (k, e) in mr): Fraction(sn, sd)}))


def breakpoints(pe: PiecewiseEval, pw: PW, var: str, nonneg=False):
    """[(Atom, vstar Rat)] for every atom that can be solved for `var`."""
    A = pe.A
    atoms = {}
    for p in pw.pieces:
        for (a, pol) in p.conds:
            atoms[a.key] = a
    out = []
    for a in atoms.values():
        v = solve_linear(A, a.diff, var)
        if v is None and nonneg:
            v = solve_square(A, a.diff, var)
        if v is not None:
            out.append((a, v))
        elif var in a.diff.n.atoms() | a.diff.d.atoms():
            out.append((a, None))
    return out


def cell_samples(pe: PiecewiseEval, pw: PW, var: str, point: dict, nonneg=False):
    """Values of `var` that hit every cell of the arrangement of switching surfaces at `point`
    (each breakpoint, a point strictly between consecutive breakpoints, and one beyond each end).
    Returns (values, unsolved atoms)."""
    A = pe.A
    bps = breakpoints(pe, pw, var, nonneg)
    unsolved = [a for (a, v) in bps if v is None]
    vals = sorted({Fraction(A.eval(v, point)).limit_denominator(10**9) for (a, v) in bps if v is not None})
    if nonneg:
        vals = sorted(set([v for v in vals if v >= 0] + [Fraction(0)]))
    out = []
    if not vals:
        return [Fraction(0), Fraction(1), Fraction(-1)], unsolved
    out.append(vals[0] - 1 if not nonneg or vals[0] - 1 >= 0 else vals[0] / 2)
    for i, v in enumerate(vals):
        out.append(v)
        if i + 1 < len(vals):
            out.append((v + vals[i + 1]) / 2)
    out.append(vals[-1] + 1)
    out.append(vals[-1] * 3 + 7)
    if nonneg:
        out = [v for v in out if v >= 0]
    return sorted(set(out)), unsolved
