"""Call sites, higher-order function-value flow into parameters, call graph, and the
E4 link checker (unresolved attributes, undefined names, arity, unpack width, slot protocols)."""
from __future__ import annotations

import ast
import builtins
from dataclasses import dataclass, field

from .model import (Repo, Scope, Val, FuncVal, ClassVal, InstanceVal, ModVal, ExtVal, ParamVal,
                    NamedTupleVal, MissingAttr, UNKNOWN, walk_local, norm_src, canonical_ext)


@dataclass(eq=False)
class CallSite:
    scope: Scope
    node: ast.Call
    callees: set = field(default_factory=set)       # resolved Val set (ParamVal replaced by flows)
    raw: set = field(default_factory=set)


class CallGraph:
    def __init__(self, repo: Repo, scopes=None):
        self.repo = repo
        self.sites: list[CallSite] = []
        self.sites_by_scope: dict[int, list[CallSite]] = {}
        self.flows: dict[tuple, set] = {}            # (id(scope), pname) -> set[Val]
        self._flow_links: dict[tuple, set] = {}      # (scope,p) -> set of (scope',p') it inherits from
        self._scopes = list(scopes) if scopes is not None else None
        self._collect()
        self._propagate()
        self._finalize()

    # ---- collection
    def _all_scopes(self):
        if self._scopes is not None:
            return self._scopes
        out = []
        for m in self.repo.modules.values():
            out.append(m.scope)
            out.extend(m.scope.descendants())
        return out

    def _collect(self):
        for s in self._all_scopes():
            if s.kind == "comp":
                continue
            lst = []
            for n in walk_local(s.node):
                if isinstance(n, ast.Call):
                    cs = CallSite(s, n)
                    cs.raw = self.repo.resolve(n.func, s)
                    lst.append(cs)
            self.sites_by_scope[id(s)] = lst
            self.sites.extend(lst)

    def _map_args(self, fv: FuncVal, call: ast.Call):
        """Yield (param name, actual expr) pairs that can be mapped with certainty."""
        sc = fv.scope
        ps = sc.params()
        pos = fv.bound
        for a in call.args:
            if isinstance(a, ast.Starred):
                break
            if pos < len(ps):
                yield ps[pos], a
            pos += 1
        allp = set(ps) | set(sc.kwonly())
        for k in call.keywords:
            if k.arg and k.arg in allp:
                yield k.arg, k.value

    def _propagate(self):
        # direct flows
        for cs in self.sites:
            for fv in cs.raw:
                targets = []
                if isinstance(fv, FuncVal):
                    targets.append(fv)
                elif isinstance(fv, ClassVal):
                    init = self._init_of(fv.scope)
                    if init is not None:
                        targets.append(FuncVal(init, bound=1))
                for t in targets:
                    for pname, actual in self._map_args(t, cs.node):
                        key = (id(t.scope), pname)
                        for v in self.repo.resolve(actual, cs.scope):
                            if isinstance(v, (FuncVal, ClassVal)):
                                self.flows.setdefault(key, set()).add(v)
                            elif isinstance(v, ParamVal):
                                self._flow_links.setdefault(key, set()).add((id(v.scope), v.name))
        # transitive closure over parameter-to-parameter links
        changed = True
        it = 0
        while changed and it < 50:
            changed = False
            it += 1
            for key, srcs in self._flow_links.items():
                cur = self.flows.setdefault(key, set())
                before = len(cur)
                for sk in srcs:
                    cur |= self.flows.get(sk, set())
                if len(cur) != before:
                    changed = True

    def _init_of(self, cls: Scope):
        for c in self.repo.class_mro(cls):
            for ch in c.children:
                if ch.kind == "function" and ch.name == "__init__":
                    return ch
        return None

    def expand(self, vals) -> set:
        out = set()
        for v in vals:
            if isinstance(v, ParamVal):
                fl = self.flows.get((id(v.scope), v.name), set())
                if fl:
                    out |= fl
                else:
                    out.add(v)
            else:
                out.add(v)
        return out

    def _finalize(self):
        for cs in self.sites:
            cs.callees = self.expand(cs.raw)

    # ---- queries
    def callee_scopes(self, cs: CallSite):
        out = []
        for v in cs.callees:
            if isinstance(v, FuncVal):
                out.append(v.scope)
            elif isinstance(v, ClassVal):
                init = self._init_of(v.scope)
                if init is not None:
                    out.append(init)
        return out

    def cone(self, roots, by_attr_name=True, stop=None):
        """Scopes reachable from root scopes through resolved calls, nested definitions that are
        *referenced*, and (optionally) duck-typed attribute calls resolved by method name."""
        seen = {}
        work = list(roots)
        methods_by_name = {}
        if by_attr_name:
            for s in self.repo.functions():
                if s.cls is not None:
                    methods_by_name.setdefault(s.name, []).append(s)
        while work:
            s = work.pop()
            if s is None or id(s) in seen:
                continue
            if stop and stop(s):
                continue
            seen[id(s)] = s
            for cs in self.sites_by_scope.get(id(s), []):
                for t in self.callee_scopes(cs):
                    work.append(t)
                # function values passed as arguments are (potentially) called by the callee
                for a in list(cs.node.args) + [k.value for k in cs.node.keywords]:
                    if isinstance(a, ast.Starred):
                        a = a.value
                    for v in self.expand(self.repo.resolve(a, s)):
                        if isinstance(v, FuncVal):
                            work.append(v.scope)
                if by_attr_name and isinstance(cs.node.func, ast.Attribute):
                    if all(not isinstance(v, (FuncVal, ClassVal, ExtVal, ModVal)) for v in cs.callees):
                        for t in methods_by_name.get(cs.node.func.attr, []):
                            work.append(t)
            # nested functions/lambdas referenced from this scope
            for c in s.children:
                if c.is_function():
                    work.append(c)
                elif c.kind == "comp":
                    work.append(c)
            # names referring to functions (returned / stored), not only called
            for n in walk_local(s.node):
                if isinstance(n, (ast.Name, ast.Attribute)) and isinstance(getattr(n, "ctx", None), ast.Load):
                    if isinstance(n, ast.Attribute) and not isinstance(n.value, ast.Name):
                        continue
                    for v in self.repo.resolve(n, s):
                        if isinstance(v, FuncVal) and v.scope.module is not None:
                            work.append(v.scope)
        return list(seen.values())


# --------------------------------------------------------------------------- link checker

@dataclass
class LinkFinding:
    kind: str           # missing-attr | undefined-name | arity | unpack | slot-arity | ctor-arity
    scope: Scope
    node: ast.AST
    detail: str
    construct: str      # position-free key

    def key(self):
        return f"{self.kind}|{self.scope.qualname}|{self.construct}"


def _conditionally_bound_names(scope: Scope):
    return set(scope.bindings)


def check_arity(fv: FuncVal, call: ast.Call, drop_self=0):
    """Return None if `call` is a valid call of fv's signature, else a message."""
    sc = fv.scope
    a = sc.node.args
    pos_params = [x.arg for x in a.posonlyargs + a.args]
    bound = fv.bound + drop_self
    pos_params_eff = pos_params[bound:] if bound <= len(pos_params) else []
    n_defaults = len(a.defaults)
    required = pos_params[: len(pos_params) - n_defaults][bound:] if len(pos_params) - n_defaults > bound else []
    has_star_arg = any(isinstance(x, ast.Starred) for x in call.args)
    has_star_kw = any(k.arg is None for k in call.keywords)
    npos = sum(1 for x in call.args if not isinstance(x, ast.Starred))
    kwnames = [k.arg for k in call.keywords if k.arg]
    kwonly = [x.arg for x in a.kwonlyargs]
    # too many positionals
    if not a.vararg and npos > len(pos_params_eff):
        return (f"{npos} positional argument(s) for {len(pos_params_eff)} positional parameter(s) "
                f"({', '.join(pos_params_eff)})")
    # unknown keywords
    if not a.kwarg:
        for k in kwnames:
            if k not in pos_params_eff and k not in kwonly:
                if k in fv.bound_kw:
                    continue
                return f"unexpected keyword argument '{k}'"
    # keyword duplicates positional
    for k in kwnames:
        if k in pos_params_eff[:npos] and not has_star_arg:
            return f"argument '{k}' given by position and by keyword"
    # missing required
    if not has_star_arg and not has_star_kw:
        supplied = set(pos_params_eff[:npos]) | set(kwnames) | set(fv.bound_kw)
        missing = [p for p in required if p not in supplied]
        if missing:
            return f"missing required argument(s) {', '.join(missing)}"
        for x, d in zip(a.kwonlyargs, a.kw_defaults):
            if d is None and x.arg not in supplied:
                return f"missing required keyword-only argument '{x.arg}'"
    return None


def return_tuple_widths(scope: Scope):
    """Set of literal tuple widths returned by the function, or None if any return is not a
    literal tuple (width unknown)."""
    widths = set()
    rets = scope.returns()
    if not rets:
        return None
    for r in rets:
        if isinstance(r, ast.Tuple) and not any(isinstance(e, ast.Starred) for e in r.elts):
            widths.add(len(r.elts))
        else:
            return None
    return widths


class LinkChecker:
    def __init__(self, repo: Repo, cg: CallGraph):
        self.repo = repo
        self.cg = cg
        self.stats = dict(functions=0, call_sites=0, resolved_sites=0, attr_reads=0, names=0,
                          arity_checked=0, unpack_checked=0, slot_calls=0)

    def check_scope(self, s: Scope) -> list:
        out = []
        self.stats["functions"] += 1
        repo = self.repo
        # 1. attributes on repo modules / undefined names
        comp_bound = set()
        for c in s.children:
            if c.kind == "comp":
                comp_bound |= set(c.bindings)
        for n in walk_local(s.node):
            if isinstance(n, ast.Attribute) and isinstance(n.ctx, ast.Load):
                self.stats["attr_reads"] += 1
                for v in repo.resolve(n, s):
                    if isinstance(v, MissingAttr):
                        out.append(LinkFinding(
                            "missing-attr", s, n,
                            f"module {v.owner} has no attribute '{v.attr}'",
                            f"{v.owner}.{v.attr}"))
            elif isinstance(n, ast.Name) and isinstance(n.ctx, ast.Load):
                self.stats["names"] += 1
                if n.id in comp_bound:
                    continue
                if not repo.is_bound(n.id, s):
                    out.append(LinkFinding("undefined-name", s, n,
                                           f"name '{n.id}' is not bound in any enclosing scope",
                                           n.id))
        # 2. call sites
        for cs in self.cg.sites_by_scope.get(id(s), []):
            self.stats["call_sites"] += 1
            vals = cs.callees
            concrete = [v for v in vals if isinstance(v, (FuncVal, ClassVal, NamedTupleVal))]
            if any(isinstance(v, (FuncVal, ClassVal, ExtVal, NamedTupleVal, InstanceVal)) for v in vals):
                self.stats["resolved_sites"] += 1
            is_slot = any(isinstance(v, ParamVal) for v in cs.raw)
            if is_slot and concrete:
                self.stats["slot_calls"] += 1
            for v in concrete:
                msg = None
                if isinstance(v, FuncVal):
                    drop = 0
                    msg = check_arity(v, cs.node, drop)
                    self.stats["arity_checked"] += 1
                elif isinstance(v, ClassVal):
                    init = self.cg._init_of(v.scope)
                    if init is not None:
                        msg = check_arity(FuncVal(init, bound=1), cs.node)
                        self.stats["arity_checked"] += 1
                    else:
                        msg = self._check_fields_ctor(v.scope, cs.node)
                elif isinstance(v, NamedTupleVal):
                    msg = self._check_namedtuple_ctor(v, cs.node)
                    self.stats["arity_checked"] += 1
                if msg:
                    kind = "slot-arity" if is_slot else "arity"
                    tgt = v.scope.qualname if hasattr(v, "scope") else v.name
                    via = ""
                    if is_slot:
                        via = " (through parameter slot '%s')" % norm_src(cs.node.func)
                    out.append(LinkFinding(kind, s, cs.node,
                                           f"call of {tgt}{via}: {msg}",
                                           f"{norm_src(cs.node.func)}->{tgt}"))
        # 2b. escaping closure that calls itself through a name the enclosing function rebinds to it
        out.extend(self._closure_self_call(s))
        # 3. unpack widths
        for st in walk_local(s.node):
            if isinstance(st, ast.Assign) and isinstance(st.value, ast.Call):
                for t in st.targets:
                    if isinstance(t, (ast.Tuple, ast.List)) and not any(isinstance(e, ast.Starred) for e in t.elts):
                        want = len(t.elts)
                        vals = self.cg.expand(repo.resolve(st.value.func, s))
                        fvs = [v for v in vals if isinstance(v, FuncVal)]
                        if not fvs or len(fvs) != len(vals):
                            continue
                        for fv in fvs:
                            if any(w in ("jax.grad", "jax.hessian", "jax.jacfwd", "jax.jacrev",
                                         "jax.value_and_grad", "jax.linearize", "jax.vmap",
                                         "jax.custom_jvp", "jax.custom_vjp") for w in fv.wrappers):
                                # vmap keeps tuple structure, custom_* keep it too; derivative wrappers change it
                                if any(w in ("jax.grad", "jax.hessian", "jax.jacfwd", "jax.jacrev",
                                             "jax.value_and_grad", "jax.linearize") for w in fv.wrappers):
                                    continue
                            ws = return_tuple_widths(fv.scope)
                            self.stats["unpack_checked"] += 1
                            if ws and want not in ws:
                                out.append(LinkFinding(
                                    "unpack", s, st,
                                    f"unpacks {want} values from {fv.scope.qualname}, which returns "
                                    f"{'/'.join(str(w) for w in sorted(ws))}-tuples",
                                    f"{norm_src(st.value.func)}->{fv.scope.qualname}"))
        return out

    def _check_namedtuple_ctor(self, nt: NamedTupleVal, call: ast.Call):
        if any(isinstance(x, ast.Starred) for x in call.args) or any(k.arg is None for k in call.keywords):
            return None
        npos = len(call.args)
        if npos > len(nt.fields):
            return f"{npos} positional arguments for {len(nt.fields)} fields"
        for k in call.keywords:
            if k.arg not in nt.fields:
                return f"unexpected field '{k.arg}'"
            if k.arg in nt.fields[:npos]:
                return f"field '{k.arg}' given twice"
        supplied = set(nt.fields[:npos]) | {k.arg for k in call.keywords}
        required = nt.fields[: len(nt.fields) - nt.ndefaults]
        missing = [f for f in required if f not in supplied]
        if missing:
            return f"missing field(s) {', '.join(missing)}"
        return None

    def _check_fields_ctor(self, cls: Scope, call: ast.Call):
        """eqx.Module / dataclass-like classes without __init__: fields are annotated names."""
        fields = []
        defaults = set()
        for c in reversed(self.repo.class_mro(cls)):
            for st in c.node.body:
                if isinstance(st, ast.AnnAssign) and isinstance(st.target, ast.Name):
                    if st.target.id not in fields:
                        fields.append(st.target.id)
                    if st.value is not None:
                        defaults.add(st.target.id)
        if not fields:
            return None
        self.stats["arity_checked"] += 1
        if any(isinstance(x, ast.Starred) for x in call.args) or any(k.arg is None for k in call.keywords):
            return None
        npos = len(call.args)
        if npos > len(fields):
            return f"{npos} positional arguments for {len(fields)} fields"
        for k in call.keywords:
            if k.arg not in fields:
                return f"unexpected field '{k.arg}'"
        supplied = set(fields[:npos]) | {k.arg for k in call.keywords}
        missing = [f for f in fields if f not in supplied and f not in defaults]
        if missing:
            return f"missing field(s) {', '.join(missing)}"
        return None


def _closure_self_call(self, g: Scope):
    """Python closures bind late: a nested function G that calls free name v sees the value v has
    when G *runs*.  If the enclosing function F rebinds v to G before returning G (``v = G``),
    then ``v(...)`` inside G is G itself; when that call lies on every path through G the
    recursion never terminates."""
    from .cfg import cfg_of
    out = []
    f = g.parent
    if f is None or not f.is_function() or g.kind != "function":
        return out
    gcfg = cfg_of(g)
    fcfg = None
    for n in gcfg.nodes:
        if n.kind != "stmt" or n.ast is None:
            continue
        for call in [c for c in ast.walk(n.ast) if isinstance(c, ast.Call) and isinstance(c.func, ast.Name)]:
            v = call.func.id
            if v in g.bindings:
                continue
            owner, _ = self.repo.lookup(v, g)
            if owner is not f:
                continue
            # is the call on every path entry -> exit of G ?
            if gcfg.paths_between(gcfg.entry, gcfg.exit, avoid=[n]):
                continue
            fcfg = fcfg or cfg_of(f)
            rets = [r for r in fcfg.returns() if r.ast.value is not None]
            if not rets:
                continue
            always_g = True
            for r in rets:
                ds = fcfg.reaching(r, v)
                if not ds:
                    always_g = False
                    break
                for d in ds:
                    a = d.ast
                    is_g = (isinstance(a, ast.FunctionDef) and a is g.node) or \
                           (isinstance(a, ast.Assign) and isinstance(a.value, ast.Name) and a.value.id == g.name
                            and len(fcfg.reaching(d, g.name)) == 1 and fcfg.reaching(d, g.name)[0].ast is g.node)
                    if not is_g:
                        always_g = False
                if not always_g:
                    break
            if always_g:
                out.append(LinkFinding(
                    "closure-self-call", g, call,
                    f"`{v}` is rebound to {g.name} itself in {f.name} before it is returned, so this "
                    f"unconditional call recurses forever (late-binding closure)",
                    f"{v}->{g.qualname}"))
    return out


LinkChecker._closure_self_call = _closure_self_call
