"""E0 -- program model: modules, scopes, bindings, name/callee resolution, call graph.

The model is built from source text only (``ast``).  Resolution is flow-insensitive
inside a scope (every binding of a name is a candidate), which is the conservative
choice for "what may be called here".
"""
from __future__ import annotations

import ast
import builtins
import hashlib
import os
from dataclasses import dataclass, field
from typing import Iterable, Optional

REPO_ROOT = os.environ.get("OPTILINT_REPO", "/repo")
PKG = "optimism"


# --------------------------------------------------------------------------- values

class Val:
    """Abstract value of an expression as far as *which code object* it denotes."""
    __slots__ = ()


@dataclass(frozen=True)
class FuncVal(Val):
    scope: "Scope"                      # function or lambda scope
    bound: int = 0                      # number of leading positional args already bound (partial / method self)
    bound_kw: tuple = ()                # keyword names already bound (partial)
    wrappers: tuple = ()                # e.g. ('jax.vmap',) outermost first

    def __repr__(self):
        return f"Func({self.scope.qualname}{'+%d' % self.bound if self.bound else ''})"


@dataclass(frozen=True)
class ClassVal(Val):
    scope: "Scope"

    def __repr__(self):
        return f"Class({self.scope.qualname})"


@dataclass(frozen=True)
class InstanceVal(Val):
    cls: "Scope"

    def __repr__(self):
        return f"Instance({self.cls.qualname})"


@dataclass(frozen=True)
class ModVal(Val):
    module: "Module"

    def __repr__(self):
        return f"Mod({self.module.name})"


@dataclass(frozen=True)
class ExtVal(Val):
    name: str                           # dotted external name, e.g. 'jax.numpy.dot'

    def __repr__(self):
        return f"Ext({self.name})"


@dataclass(frozen=True)
class ParamVal(Val):
    scope: "Scope"
    name: str

    def __repr__(self):
        return f"Param({self.scope.qualname}:{self.name})"


@dataclass(frozen=True)
class NamedTupleVal(Val):
    name: str
    fields: tuple
    ndefaults: int = 0

    def __repr__(self):
        return f"NamedTuple({self.name})"


@dataclass(frozen=True)
class MissingAttr(Val):
    """Attribute looked up on a repo module (or class) that has no such binding."""
    owner: str
    attr: str

    def __repr__(self):
        return f"Missing({self.owner}.{self.attr})"


class _Unknown(Val):
    def __repr__(self):
        return "Unknown"


UNKNOWN = _Unknown()

# wrappers that return "the same function" as far as callee resolution is concerned
TRANSPARENT = {
    "jax.jit", "jax.vmap", "jax.grad", "jax.hessian", "jax.jacfwd", "jax.jacrev",
    "jax.value_and_grad", "jax.custom_jvp", "jax.custom_vjp", "jax.checkpoint",
    "jax.linearize", "equinox.filter_jit", "jax.numpy.vectorize",
}
PARTIAL = {"functools.partial"}
# wrappers whose result has a *different* output structure (kept as wrapper tag)
DERIV_WRAPPERS = {"jax.grad", "jax.hessian", "jax.jacfwd", "jax.jacrev", "jax.value_and_grad"}


# --------------------------------------------------------------------------- scopes

@dataclass(eq=False)
class Binding:
    kind: str                   # param | assign | aug | def | class | import | importfrom | for | with | except | comp | global | nonlocal | walrus | del
    node: ast.AST               # statement (or arg node for params)
    value: Optional[ast.AST] = None     # value expression for assign-like bindings
    index: Optional[tuple] = None       # tuple-unpack path of the target inside the value
    scope: "Scope" = None
    extra: object = None                # importfrom: (module, name, level); import: dotted; def/class: child scope


@dataclass(eq=False)
class Scope:
    kind: str                   # module | function | lambda | class | comp
    node: ast.AST
    parent: Optional["Scope"]
    module: "Module"
    name: str
    bindings: dict = field(default_factory=dict)
    children: list = field(default_factory=list)
    globals_: set = field(default_factory=set)
    nonlocals_: set = field(default_factory=set)
    cls: Optional["Scope"] = None       # enclosing class for methods

    @property
    def qualname(self):
        if self.kind == "module":
            return self.module.name
        parts = []
        s = self
        while s is not None and s.kind != "module":
            parts.append(s.name)
            s = s.parent
        return self.module.name + ":" + ".".join(reversed(parts))

    @property
    def shortname(self):
        return self.qualname.split(":", 1)[-1] if ":" in self.qualname else self.qualname

    def is_function(self):
        return self.kind in ("function", "lambda")

    # ---- parameters
    def params(self):
        if not self.is_function():
            return []
        a = self.node.args
        return [x.arg for x in a.posonlyargs + a.args]

    def kwonly(self):
        if not self.is_function():
            return []
        return [x.arg for x in self.node.args.kwonlyargs]

    def has_varargs(self):
        return self.is_function() and self.node.args.vararg is not None

    def has_kwargs(self):
        return self.is_function() and self.node.args.kwarg is not None

    def n_required(self):
        a = self.node.args
        return len(a.posonlyargs) + len(a.args) - len(a.defaults)

    def default_of(self, pname):
        a = self.node.args
        pos = a.posonlyargs + a.args
        nd = len(a.defaults)
        for i, x in enumerate(pos):
            if x.arg == pname:
                j = i - (len(pos) - nd)
                return a.defaults[j] if j >= 0 else None
        for x, d in zip(a.kwonlyargs, a.kw_defaults):
            if x.arg == pname:
                return d
        return None

    def body(self):
        n = self.node
        if isinstance(n, ast.Lambda):
            return [ast.Return(value=n.body)]
        return n.body

    def returns(self):
        """Return-value expressions of a function scope (not of nested scopes)."""
        if self.kind == "lambda":
            return [self.node.body]
        out = []
        for st in walk_local(self.node):
            if isinstance(st, ast.Return):
                out.append(st.value)
        return out

    def descendants(self):
        for c in self.children:
            yield c
            yield from c.descendants()

    def __repr__(self):
        return f"<Scope {self.kind} {self.qualname}>"


@dataclass(eq=False)
class Module:
    name: str
    path: str
    source: str
    tree: ast.Module
    digest: str
    scope: Scope = None
    is_test: bool = False
    star_imports: list = field(default_factory=list)


def walk_local(node):
    """Yield nodes of a function/class/module body without descending into nested
    function, lambda or class scopes (their header expressions -- decorators, defaults --
    are yielded, since those are evaluated in the enclosing scope)."""
    if isinstance(node, ast.Lambda):
        stack = [node.body]
    elif isinstance(node, (ast.FunctionDef, ast.AsyncFunctionDef, ast.ClassDef, ast.Module)):
        stack = list(reversed(node.body))
    elif isinstance(node, list):
        stack = list(reversed(node))
    else:
        stack = list(reversed(list(ast.iter_child_nodes(node))))
    while stack:
        n = stack.pop()
        yield n
        if isinstance(n, (ast.FunctionDef, ast.AsyncFunctionDef)):
            for d in n.decorator_list:
                stack.append(d)
            for d in n.args.defaults + [k for k in n.args.kw_defaults if k is not None]:
                stack.append(d)
            continue
        if isinstance(n, ast.Lambda):
            for d in n.args.defaults + [k for k in n.args.kw_defaults if k is not None]:
                stack.append(d)
            continue
        if isinstance(n, ast.ClassDef):
            for d in n.decorator_list + n.bases:
                stack.append(d)
            continue
        if isinstance(n, (ast.ListComp, ast.SetComp, ast.DictComp, ast.GeneratorExp)):
            # comprehension variables are local to the comprehension; treat them as a tiny
            # scope handled separately, but still walk the expressions for calls.
            for c in reversed(list(ast.iter_child_nodes(n))):
                stack.append(c)
            continue
        for c in reversed(list(ast.iter_child_nodes(n))):
            stack.append(c)


# --------------------------------------------------------------------------- building

class _ScopeBuilder:
    def __init__(self, module: Module):
        self.module = module
        self.lambda_counter = {}

    def build(self):
        m = self.module
        m.scope = Scope("module", m.tree, None, m, m.name)
        self._fill(m.scope, m.tree.body)
        return m.scope

    def _bind(self, scope, name, b: Binding):
        b.scope = scope
        scope.bindings.setdefault(name, []).append(b)

    def _targets(self, scope, target, stmt, value, kind, path=()):
        if isinstance(target, ast.Name):
            self._bind(scope, target.id, Binding(kind, stmt, value, path if path else None))
        elif isinstance(target, (ast.Tuple, ast.List)):
            for i, el in enumerate(target.elts):
                if isinstance(el, ast.Starred):
                    self._targets(scope, el.value, stmt, None, kind, path + ("*",))
                else:
                    self._targets(scope, el, stmt, value, kind, path + (i,))
        elif isinstance(target, ast.Starred):
            self._targets(scope, target.value, stmt, None, kind, path + ("*",))
        # Attribute / Subscript targets bind no local name

    def _child(self, scope, kind, node, name):
        c = Scope(kind, node, scope, self.module, name)
        if kind in ("function", "lambda") and scope.kind == "class":
            c.cls = scope
        scope.children.append(c)
        return c

    def _fill(self, scope, body):
        # parameters
        if scope.is_function():
            a = scope.node.args
            for x in a.posonlyargs + a.args + a.kwonlyargs:
                self._bind(scope, x.arg, Binding("param", x))
            if a.vararg:
                self._bind(scope, a.vararg.arg, Binding("param", a.vararg))
            if a.kwarg:
                self._bind(scope, a.kwarg.arg, Binding("param", a.kwarg))
        for st in body:
            self._stmt(scope, st)

    def _stmt(self, scope, st):
        if isinstance(st, (ast.FunctionDef, ast.AsyncFunctionDef)):
            c = self._child(scope, "function", st, st.name)
            self._bind(scope, st.name, Binding("def", st, None, None, extra=c))
            for d in st.decorator_list:
                self._expr(scope, d)
            for d in st.args.defaults + [k for k in st.args.kw_defaults if k is not None]:
                self._expr(scope, d)
            self._fill(c, st.body)
            return
        if isinstance(st, ast.ClassDef):
            c = self._child(scope, "class", st, st.name)
            self._bind(scope, st.name, Binding("class", st, None, None, extra=c))
            for d in st.decorator_list + st.bases:
                self._expr(scope, d)
            self._fill(c, st.body)
            return
        if isinstance(st, ast.Import):
            for al in st.names:
                if al.asname:
                    self._bind(scope, al.asname, Binding("import", st, extra=al.name))
                else:
                    top = al.name.split(".")[0]
                    self._bind(scope, top, Binding("import", st, extra=top))
            return
        if isinstance(st, ast.ImportFrom):
            for al in st.names:
                if al.name == "*":
                    if scope.kind == "module":
                        self.module.star_imports.append(st.module)
                    continue
                self._bind(scope, al.asname or al.name,
                           Binding("importfrom", st, extra=(st.module, al.name, st.level)))
            return
        if isinstance(st, ast.Global):
            scope.globals_.update(st.names)
            return
        if isinstance(st, ast.Nonlocal):
            scope.nonlocals_.update(st.names)
            return
        if isinstance(st, ast.Assign):
            for t in st.targets:
                self._targets(scope, t, st, st.value, "assign")
                self._expr_targets(scope, t)
            self._expr(scope, st.value)
            return
        if isinstance(st, ast.AnnAssign):
            if st.value is not None or scope.kind == "class":
                self._targets(scope, st.target, st, st.value, "assign")
            if st.value is not None:
                self._expr(scope, st.value)
            return
        if isinstance(st, ast.AugAssign):
            self._targets(scope, st.target, st, None, "aug")
            self._expr_targets(scope, st.target)
            self._expr(scope, st.value)
            return
        if isinstance(st, (ast.For, ast.AsyncFor)):
            self._targets(scope, st.target, st, None, "for")
            self._expr(scope, st.iter)
            for s in st.body + st.orelse:
                self._stmt(scope, s)
            return
        if isinstance(st, ast.While):
            self._expr(scope, st.test)
            for s in st.body + st.orelse:
                self._stmt(scope, s)
            return
        if isinstance(st, ast.If):
            self._expr(scope, st.test)
            for s in st.body + st.orelse:
                self._stmt(scope, s)
            return
        if isinstance(st, (ast.With, ast.AsyncWith)):
            for it in st.items:
                self._expr(scope, it.context_expr)
                if it.optional_vars is not None:
                    self._targets(scope, it.optional_vars, st, None, "with")
            for s in st.body:
                self._stmt(scope, s)
            return
        if isinstance(st, ast.Try) or st.__class__.__name__ == "TryStar":
            for s in st.body + st.orelse + st.finalbody:
                self._stmt(scope, s)
            for h in st.handlers:
                if h.type is not None:
                    self._expr(scope, h.type)
                if h.name:
                    self._bind(scope, h.name, Binding("except", h))
                for s in h.body:
                    self._stmt(scope, s)
            return
        if isinstance(st, ast.Delete):
            for t in st.targets:
                if isinstance(t, ast.Name):
                    self._bind(scope, t.id, Binding("del", st))
            return
        if isinstance(st, ast.Match):
            self._expr(scope, st.subject)
            for case in st.cases:
                for n in ast.walk(case.pattern):
                    nm = getattr(n, "name", None)
                    if isinstance(nm, str):
                        self._bind(scope, nm, Binding("assign", st))
                for s in case.body:
                    self._stmt(scope, s)
            return
        # expression-bearing simple statements
        for ch in ast.iter_child_nodes(st):
            if isinstance(ch, ast.expr):
                self._expr(scope, ch)

    def _expr_targets(self, scope, t):
        # expressions inside attribute/subscript targets
        if isinstance(t, (ast.Attribute, ast.Subscript)):
            self._expr(scope, t)
        elif isinstance(t, (ast.Tuple, ast.List)):
            for e in t.elts:
                self._expr_targets(scope, e)

    def _expr(self, scope, e):
        """Find nested lambda / comprehension scopes and walrus bindings."""
        if e is None:
            return
        if isinstance(e, ast.Lambda):
            k = self.lambda_counter.get(id(scope), 0)
            self.lambda_counter[id(scope)] = k + 1
            c = self._child(scope, "lambda", e, f"<lambda#{k}>")
            for d in e.args.defaults + [x for x in e.args.kw_defaults if x is not None]:
                self._expr(scope, d)
            self._fill(c, [])
            self._expr(c, e.body)
            return
        if isinstance(e, (ast.ListComp, ast.SetComp, ast.GeneratorExp, ast.DictComp)):
            c = self._child(scope, "comp", e, "<comp>")
            for i, g in enumerate(e.generators):
                self._targets(c, g.target, g, None, "comp")
                self._expr(scope if i == 0 else c, g.iter)
                for cond in g.ifs:
                    self._expr(c, cond)
            if isinstance(e, ast.DictComp):
                self._expr(c, e.key)
                self._expr(c, e.value)
            else:
                self._expr(c, e.elt)
            return
        if isinstance(e, ast.NamedExpr):
            s = scope
            while s.kind == "comp":
                s = s.parent
            self._targets(s, e.target, e, e.value, "walrus")
            self._expr(scope, e.value)
            return
        for ch in ast.iter_child_nodes(e):
            if isinstance(ch, ast.expr):
                self._expr(scope, ch)
            elif isinstance(ch, (ast.keyword,)):
                self._expr(scope, ch.value)
            elif isinstance(ch, ast.comprehension):
                pass
            elif isinstance(ch, (ast.FormattedValue,)):
                self._expr(scope, ch.value)


# --------------------------------------------------------------------------- repo

class Repo:
    def __init__(self, root=None, include_tests=False, include_examples=False, overrides=None):
        self.root = root or os.environ.get("OPTILINT_REPO", REPO_ROOT)
        self.overrides = dict(overrides or {})      # relpath -> source text (in-memory variant)
        self.modules: dict[str, Module] = {}
        self.parse_errors = []
        self._load(include_tests, include_examples)
        self._scope_of_node = {}
        for m in self.modules.values():
            for s in [m.scope] + list(m.scope.descendants()):
                self._scope_of_node[id(s.node)] = s
        self._resolve_cache = {}

    # ---- loading
    def _load(self, include_tests, include_examples):
        pkgdir = os.path.join(self.root, PKG)
        for dirpath, dirnames, filenames in os.walk(pkgdir):
            dirnames.sort()
            rel = os.path.relpath(dirpath, self.root)
            is_test = "test" in rel.split(os.sep)
            if is_test and not include_tests:
                continue
            for fn in sorted(filenames):
                if not fn.endswith(".py"):
                    continue
                path = os.path.join(dirpath, fn)
                modname = os.path.relpath(path, self.root)[:-3].replace(os.sep, ".")
                if modname.endswith(".__init__"):
                    modname = modname[: -len(".__init__")]
                self._add(modname, path, is_test)
        if include_examples:
            exdir = os.path.join(self.root, "examples")
            for dirpath, dirnames, filenames in os.walk(exdir):
                dirnames.sort()
                for fn in sorted(filenames):
                    if fn.endswith(".py"):
                        path = os.path.join(dirpath, fn)
                        modname = os.path.relpath(path, self.root)[:-3].replace(os.sep, ".")
                        self._add(modname, path, True)

    def _add(self, modname, path, is_test):
        try:
            rel = os.path.relpath(path, self.root)
            if rel in self.overrides:
                src = self.overrides[rel]
            else:
                with open(path, "r", encoding="utf-8") as f:
                    src = f.read()
            tree = ast.parse(src, filename=path)
        except (SyntaxError, UnicodeDecodeError, OSError) as e:
            self.parse_errors.append((path, repr(e)))
            return
        m = Module(modname, path, src, tree, hashlib.sha256(src.encode()).hexdigest()[:16], is_test=is_test)
        _ScopeBuilder(m).build()
        self.modules[modname] = m

    # ---- lookup helpers
    def module(self, name) -> Optional[Module]:
        return self.modules.get(name)

    def relpath(self, m: Module):
        return os.path.relpath(m.path, self.root)

    def scope_of(self, node) -> Optional[Scope]:
        return self._scope_of_node.get(id(node))

    def find(self, qual: str) -> Optional[Scope]:
        """'optimism.EquationSolver:trust_region_minimize' or with dotted nested path."""
        modname, _, path = qual.partition(":")
        m = self.modules.get(modname)
        if m is None:
            return None
        s = m.scope
        if not path:
            return s
        for part in path.split("."):
            nxt = None
            for c in s.children:
                if c.name == part:
                    nxt = c   # last definition wins
            if nxt is None:
                return None
            s = nxt
        return s

    def functions(self, non_test_only=True) -> Iterable[Scope]:
        for m in self.modules.values():
            if non_test_only and m.is_test:
                continue
            for s in m.scope.descendants():
                if s.is_function():
                    yield s

    def loc(self, scope_or_module, node=None):
        m = scope_or_module.module if isinstance(scope_or_module, Scope) else scope_or_module
        p = self.relpath(m)
        if node is not None and hasattr(node, "lineno"):
            return f"{p}:{node.lineno}"
        if isinstance(scope_or_module, Scope) and hasattr(scope_or_module.node, "lineno"):
            return f"{p}:{scope_or_module.node.lineno}"
        return p

    # ---- name resolution
    def lookup(self, name: str, scope: Scope):
        """Return (defining scope, [bindings]) following Python's scoping rules, or (None, [])."""
        s = scope
        first = True
        while s is not None:
            if s.kind == "class" and not first:
                s = s.parent
                continue
            if name in s.globals_:
                ms = s.module.scope
                return (ms, ms.bindings.get(name, []))
            if name in s.bindings and name not in s.nonlocals_:
                return (s, s.bindings[name])
            first = False
            s = s.parent
        return (None, [])

    def star_lookup(self, name: str, module: Module, seen=None):
        seen = seen or set()
        for sm in module.star_imports:
            if sm in seen:
                continue
            seen.add(sm)
            tm = self.modules.get(sm)
            if tm is None:
                continue
            if name.startswith("_"):
                continue
            if name in tm.scope.bindings:
                bs = [b for b in tm.scope.bindings[name]]
                # names deleted at module end (e.g. `del config`) are not exported
                if bs and bs[-1].kind == "del":
                    continue
                return (tm.scope, bs)
            r = self.star_lookup(name, tm, seen)
            if r[0] is not None:
                return r
        return (None, [])

    def is_bound(self, name, scope) -> bool:
        s, bs = self.lookup(name, scope)
        if s is not None:
            return True
        s, bs = self.star_lookup(name, scope.module)
        if s is not None:
            return True
        return hasattr(builtins, name) or name in ("__name__", "__file__", "__doc__")

    # ---- value resolution
    def resolve(self, expr, scope: Scope, depth=0, _seen=None) -> set:
        """Set of Val that `expr` (evaluated in `scope`) may denote."""
        if depth > 12:
            return {UNKNOWN}
        _seen = _seen if _seen is not None else set()
        key = (id(expr), id(scope))
        if key in _seen:
            return set()
        _seen = _seen | {key}
        R = lambda e, s=scope: self.resolve(e, s, depth + 1, _seen)

        if isinstance(expr, ast.Name):
            return self._resolve_name(expr.id, scope, depth, _seen)
        if isinstance(expr, ast.Attribute):
            out = set()
            for b in R(expr.value):
                out |= self._attr(b, expr.attr, depth, _seen)
            return out or {UNKNOWN}
        if isinstance(expr, ast.Lambda):
            s = self.scope_of(expr)
            return {FuncVal(s)} if s else {UNKNOWN}
        if isinstance(expr, ast.IfExp):
            return R(expr.body) | R(expr.orelse)
        if isinstance(expr, ast.BoolOp):
            out = set()
            for v in expr.values:
                out |= R(v)
            return out
        if isinstance(expr, ast.NamedExpr):
            return R(expr.value)
        if isinstance(expr, ast.Call):
            return self._resolve_call(expr, scope, depth, _seen)
        if isinstance(expr, ast.Subscript):
            # f(...)[0] of a wrapper etc. -- not a code object we track
            return {UNKNOWN}
        return {UNKNOWN}

    def _resolve_name(self, name, scope, depth, _seen):
        s, bs = self.lookup(name, scope)
        if s is None:
            s, bs = self.star_lookup(name, scope.module)
        if s is None:
            if hasattr(builtins, name):
                return {ExtVal("builtins." + name)}
            return {UNKNOWN}
        out = set()
        for b in bs:
            out |= self._binding_value(name, b, depth, _seen)
        return out or {UNKNOWN}

    def _binding_value(self, name, b: Binding, depth, _seen):
        if b.kind == "def":
            return {FuncVal(b.extra)}
        if b.kind == "class":
            return {ClassVal(b.extra)}
        if b.kind == "import":
            dotted = b.extra
            m = self.modules.get(dotted)
            if m is not None:
                return {ModVal(m)}
            return {ExtVal(dotted)}
        if b.kind == "importfrom":
            modname, attr, level = b.extra
            if level:
                base = b.scope.module.name.rsplit(".", level)[0]
                modname = base + ("." + modname if modname else "")
            full = f"{modname}.{attr}"
            if full in self.modules:
                return {ModVal(self.modules[full])}
            m = self.modules.get(modname)
            if m is not None:
                return self._attr(ModVal(m), attr, depth, _seen)
            return {ExtVal(full)}
        if b.kind == "param":
            out = {ParamVal(b.scope, name)}
            d = b.scope.default_of(name) if b.scope.is_function() else None
            if d is not None and b.scope.parent is not None:
                out |= self.resolve(d, b.scope.parent, depth + 1, _seen)
            return out
        if b.kind in ("assign", "walrus") and b.value is not None:
            if b.index is None:
                return self.resolve(b.value, b.scope, depth + 1, _seen)
            # tuple unpack: follow literal tuples only
            v = b.value
            for i in b.index:
                if isinstance(v, (ast.Tuple, ast.List)) and isinstance(i, int) and i < len(v.elts):
                    v = v.elts[i]
                else:
                    return {UNKNOWN}
            return self.resolve(v, b.scope, depth + 1, _seen)
        return {UNKNOWN}

    def _attr(self, base: Val, attr: str, depth, _seen) -> set:
        if isinstance(base, ModVal):
            m = base.module
            sub = self.modules.get(m.name + "." + attr)
            if attr in m.scope.bindings:
                out = set()
                for b in m.scope.bindings[attr]:
                    out |= self._binding_value(attr, b, depth, _seen)
                return out
            s, bs = self.star_lookup(attr, m)
            if s is not None:
                out = set()
                for b in bs:
                    out |= self._binding_value(attr, b, depth, _seen)
                return out
            if sub is not None:
                return {ModVal(sub)}
            return {MissingAttr(m.name, attr)}
        if isinstance(base, ExtVal):
            return {ExtVal(canonical_ext(base.name + "." + attr))}
        if isinstance(base, (ClassVal, InstanceVal)):
            cls = base.scope if isinstance(base, ClassVal) else base.cls
            r = self._class_attr(cls, attr, depth, _seen, bound=isinstance(base, InstanceVal))
            return r if r else {UNKNOWN}
        if isinstance(base, ParamVal):
            # `self.attr` inside a method
            sc = base.scope
            if sc.cls is not None and sc.params() and sc.params()[0] == base.name:
                r = self._class_attr(sc.cls, attr, depth, _seen, bound=True)
                if r:
                    return r
            return {UNKNOWN}
        if isinstance(base, FuncVal):
            # f.defvjp / f.defjvp etc.
            return {ExtVal("<funcattr>." + attr)}
        if isinstance(base, NamedTupleVal):
            return {UNKNOWN}
        return {UNKNOWN}

    def class_mro(self, cls: Scope, _seen=None):
        _seen = _seen or set()
        if id(cls) in _seen:
            return []
        _seen.add(id(cls))
        out = [cls]
        for b in cls.node.bases:
            for v in self.resolve(b, cls.parent):
                if isinstance(v, ClassVal):
                    for c in self.class_mro(v.scope, _seen):
                        if c not in out:
                            out.append(c)
        return out

    def _class_attr(self, cls: Scope, attr, depth, _seen, bound):
        for c in self.class_mro(cls):
            if attr in c.bindings:
                out = set()
                for b in c.bindings[attr]:
                    if b.kind == "def":
                        decos = {norm_src(d) for d in b.extra.node.decorator_list}
                        if "staticmethod" in decos:
                            out.add(FuncVal(b.extra, bound=0))
                        elif "classmethod" in decos:
                            out.add(FuncVal(b.extra, bound=1))
                        elif "property" in decos:
                            out.add(UNKNOWN)
                        else:
                            out.add(FuncVal(b.extra, bound=1 if bound else 0))
                    else:
                        out |= self._binding_value(attr, b, depth, _seen)
                return out
            # self.attr = value assignments in methods
            vals = set()
            for meth in c.children:
                if not meth.is_function() or not meth.params():
                    continue
                selfname = meth.params()[0]
                for st in walk_local(meth.node):
                    if isinstance(st, ast.Assign):
                        for t in st.targets:
                            if (isinstance(t, ast.Attribute) and t.attr == attr
                                    and isinstance(t.value, ast.Name) and t.value.id == selfname):
                                vals |= self.resolve(st.value, meth, depth + 1, _seen)
            if vals:
                return vals
        return set()

    def _resolve_call(self, call: ast.Call, scope, depth, _seen):
        fvals = self.resolve(call.func, scope, depth + 1, _seen)
        out = set()
        for fv in fvals:
            if isinstance(fv, ExtVal):
                nm = canonical_ext(fv.name)
                if nm in TRANSPARENT and call.args:
                    for v in self.resolve(call.args[0], scope, depth + 1, _seen):
                        if isinstance(v, FuncVal):
                            out.add(FuncVal(v.scope, v.bound, v.bound_kw, (nm,) + v.wrappers))
                        else:
                            out.add(v)
                    continue
                if nm in PARTIAL and call.args:
                    inner = self.resolve(call.args[0], scope, depth + 1, _seen)
                    nb = len(call.args) - 1
                    kws = tuple(k.arg for k in call.keywords if k.arg)
                    for v in inner:
                        if isinstance(v, FuncVal):
                            out.add(FuncVal(v.scope, v.bound + nb, v.bound_kw + kws, v.wrappers))
                        elif isinstance(v, ExtVal) and canonical_ext(v.name) in TRANSPARENT:
                            # partial(custom_vjp, nondiff_argnums=...) used as decorator factory
                            out.add(ExtVal(canonical_ext(v.name)))
                        else:
                            out.add(v)
                    continue
                if nm == "collections.namedtuple" and len(call.args) >= 2:
                    nt = namedtuple_fields(call)
                    if nt is not None:
                        out.add(nt)
                        continue
                out.add(UNKNOWN)
                continue
            if isinstance(fv, FuncVal):
                # factory: follow returned function values
                got = False
                for r in fv.scope.returns():
                    if r is None:
                        continue
                    for v in self.resolve(r, fv.scope, depth + 1, _seen):
                        if isinstance(v, (FuncVal, ClassVal, InstanceVal, NamedTupleVal)):
                            out.add(v)
                            got = True
                        elif isinstance(v, ParamVal) and v.scope is fv.scope:
                            # identity-like factory returning one of its arguments
                            idx = self._param_index(fv, v.name)
                            arg = self._actual(call, fv, v.name, idx)
                            if arg is not None:
                                out |= self.resolve(arg, scope, depth + 1, _seen)
                                got = True
                if not got:
                    out.add(UNKNOWN)
                continue
            if isinstance(fv, ClassVal):
                out.add(InstanceVal(fv.scope))
                continue
            out.add(UNKNOWN)
        return out or {UNKNOWN}

    @staticmethod
    def _param_index(fv: FuncVal, pname):
        ps = fv.scope.params()
        return ps.index(pname) if pname in ps else None

    @staticmethod
    def _actual(call: ast.Call, fv: FuncVal, pname, idx):
        for k in call.keywords:
            if k.arg == pname:
                return k.value
        if idx is None:
            return None
        j = idx - fv.bound
        if j < 0:
            return None
        pos = 0
        for a in call.args:
            if isinstance(a, ast.Starred):
                return None
            if pos == j:
                return a
            pos += 1
        return None

    # ---- decorators
    def decorated_value(self, scope: Scope):
        """Wrapper tags introduced by decorators of a function scope (outermost first)."""
        tags = []
        if not isinstance(scope.node, (ast.FunctionDef, ast.AsyncFunctionDef)):
            return tags
        for d in scope.node.decorator_list:
            for v in self.resolve(d, scope.parent):
                if isinstance(v, ExtVal):
                    tags.append(canonical_ext(v.name))
        return tags


_EXT_CANON = {
    "jax.numpy": "jax.numpy",
}
_EXT_PREFIX = [
    ("jax.lax.while_loop", "jax.lax.while_loop"),
    ("jax._src", "jax"),
]


def canonical_ext(name: str) -> str:
    # jax.numpy.linalg.norm stays; `jax.jit` etc stay.  Normalise the handful of aliases in the repo.
    aliases = {
        "jax.api.jit": "jax.jit",
        "jax.lax.cond": "jax.lax.cond",
    }
    return aliases.get(name, name)


def namedtuple_fields(call: ast.Call) -> Optional[NamedTupleVal]:
    try:
        tname = call.args[0].value if isinstance(call.args[0], ast.Constant) else "?"
        f = call.args[1]
        if isinstance(f, (ast.List, ast.Tuple)):
            fields = tuple(e.value for e in f.elts)
        elif isinstance(f, ast.Constant) and isinstance(f.value, str):
            fields = tuple(f.value.replace(",", " ").split())
        else:
            return None
        nd = 0
        for k in call.keywords:
            if k.arg == "defaults" and isinstance(k.value, (ast.Tuple, ast.List)):
                nd = len(k.value.elts)
        return NamedTupleVal(tname, fields, nd)
    except Exception:
        return None


# --------------------------------------------------------------------------- utilities

def norm_src(node) -> str:
    """Position-free textual key of an AST node."""
    try:
        return ast.unparse(node)
    except Exception:
        return ast.dump(node)


def dotted(node) -> Optional[str]:
    """'a.b.c' for Name/Attribute chains, else None."""
    parts = []
    while isinstance(node, ast.Attribute):
        parts.append(node.attr)
        node = node.value
    if isinstance(node, ast.Name):
        parts.append(node.id)
        return ".".join(reversed(parts))
    return None


def names_in(node) -> set:
    return {n.id for n in ast.walk(node) if isinstance(n, ast.Name)}
