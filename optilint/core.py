"""Obligations, three-valued verdicts, known findings, evidence files, exit codes."""
from __future__ import annotations

import json
import os
import sys
import time
import traceback
from dataclasses import dataclass, field, asdict

from .model import Repo, Scope, norm_src

VERIF = os.path.dirname(os.path.dirname(os.path.abspath(__file__)))
PROVED, REFUTED, UNDECIDED = "PROVED", "REFUTED", "UNDECIDED"


@dataclass
class Obligation:
    rule: str
    verdict: str
    function: str = ""
    construct: str = ""          # position-free description of the construct the verdict is about
    where: str = ""              # file:line (for humans only; never part of a key)
    detail: str = ""
    facts: dict = field(default_factory=dict)

    def key(self):
        return f"{self.rule}|{self.function}|{self.construct}"


class Incomplete(Exception):
    """Raised by rules when an anchor cannot be found -- the analysis cannot decide."""


class Ctx:
    """Per-run context handed to rule modules."""

    def __init__(self, prop: str, tier: str, seed: int, repo: Repo = None, overrides=None, quiet=False):
        self.prop = prop
        self.tier = tier
        self.seed = seed
        self.repo = repo or Repo(overrides=overrides)
        self._cg = None
        self.obligations: list[Obligation] = []
        self.analysed_functions = set()
        self.analysed_modules = set()
        self.trusted = []
        self.assumptions = []
        self.notes = []
        self.quiet = quiet
        self.extra_cov = {}

    @property
    def cg(self):
        if self._cg is None:
            from .callgraph import CallGraph
            self._cg = CallGraph(self.repo)
        return self._cg

    # ---- anchors
    def need(self, qual: str) -> Scope:
        s = self.repo.find(qual)
        if s is None:
            raise Incomplete(f"anchor {qual} not found in the source tree")
        self.touch(s)
        return s

    def need_module(self, name: str):
        m = self.repo.module(name)
        if m is None:
            raise Incomplete(f"anchor module {name} not found in the source tree")
        self.analysed_modules.add(name)
        return m

    def guard(self, fn, *a, **kw):
        """Run one rule function; an anchor that cannot be found makes that rule undecided without silencing the others."""
        try:
            return fn(*a, **kw)
        except Incomplete as e:
            self.undecided("anchor", None, None, construct=f"{getattr(fn, '__name__', 'rule')}: {e}", detail=str(e))
            return None
        except (AttributeError, IndexError, KeyError, TypeError, ValueError) as e:
            # the code no longer has the shape this rule can read: undecided (exit 2), never a violation
            import traceback
            tb = traceback.extract_tb(e.__traceback__)[-1]
            self.undecided("anchor", None, None, construct=f"{getattr(fn, '__name__', 'rule')}: unreadable code shape",
                           detail=f"{type(e).__name__}: {e} (at {tb.filename.split('/')[-1]}:{tb.lineno})")
            return None

    def touch(self, s: Scope):
        self.analysed_functions.add(s.qualname)
        self.analysed_modules.add(s.module.name)

    # ---- recording
    def add(self, rule, verdict, scope=None, node=None, construct="", detail="", **facts):
        fn = scope.qualname if isinstance(scope, Scope) else (scope or "")
        where = ""
        if isinstance(scope, Scope):
            self.touch(scope)
            where = self.repo.loc(scope, node)
        if not construct and node is not None:
            construct = norm_src(node)[:200]
        ob = Obligation(f"{self.prop}.{rule}", verdict, fn, construct, where, detail,
                        {k: (v if isinstance(v, (int, float, str, bool, list, dict, type(None))) else str(v))
                         for k, v in facts.items()})
        self.obligations.append(ob)
        return ob

    def proved(self, rule, scope=None, node=None, construct="", detail="", **facts):
        return self.add(rule, PROVED, scope, node, construct, detail, **facts)

    def refuted(self, rule, scope=None, node=None, construct="", detail="", **facts):
        return self.add(rule, REFUTED, scope, node, construct, detail, **facts)

    def undecided(self, rule, scope=None, node=None, construct="", detail="", **facts):
        return self.add(rule, UNDECIDED, scope, node, construct, detail, **facts)

    def decide(self, rule, ok, scope=None, node=None, construct="", detail="", bad_detail=None, **facts):
        """ok: True -> PROVED, False -> REFUTED, None -> UNDECIDED"""
        if ok is True:
            return self.proved(rule, scope, node, construct, detail, **facts)
        if ok is False:
            return self.refuted(rule, scope, node, construct, bad_detail or detail, **facts)
        return self.undecided(rule, scope, node, construct, bad_detail or detail, **facts)

    def trust(self, line):
        if line not in self.trusted:
            self.trusted.append(line)

    def assume(self, line):
        if line not in self.assumptions:
            self.assumptions.append(line)


# --------------------------------------------------------------------------- known findings

def load_known():
    p = os.path.join(VERIF, "known_findings.json")
    if not os.path.exists(p):
        return {"findings": [], "fixed": []}
    with open(p) as f:
        return json.load(f)


def match_known(ob: Obligation, known) -> dict | None:
    for k in known.get("findings", []):
        if k.get("status", "open") != "open":
            continue
        if k["property"] != ob.rule.split(".")[0]:
            continue
        if k.get("rule") and k["rule"] != ob.rule:
            continue
        if k.get("function") and k["function"] != ob.function:
            continue
        if k.get("construct") and k["construct"] != ob.construct:
            continue
        return k
    return None


# --------------------------------------------------------------------------- expected counts

def load_expected():
    p = os.path.join(VERIF, "rules", "expected.json")
    if not os.path.exists(p):
        return {}
    with open(p) as f:
        return json.load(f)


# --------------------------------------------------------------------------- finishing a run

def finish(ctx: Ctx, level: str, t0: float, checker_cmd: str, explanation: str, rule_text: str,
           selftest=None, write=True, out=sys.stdout):
    """Prints the verdict lines, writes evidence, returns the exit code."""
    prop = ctx.prop
    known = load_known()
    expected = load_expected().get(prop, {})
    obs = ctx.obligations
    proved = [o for o in obs if o.verdict == PROVED]
    refuted = [o for o in obs if o.verdict == REFUTED]
    undec = [o for o in obs if o.verdict == UNDECIDED]

    incomplete = []
    # expected obligation counts per rule prefix
    counts = {}
    for o in obs:
        r = o.rule.split(".", 1)[1]
        counts[r] = counts.get(r, 0) + 1
    for r, n in expected.items():
        got = sum(c for rr, c in counts.items() if rr == r or rr.startswith(r + "/") or rr.startswith(r + "."))
        if got < n:
            incomplete.append(f"rule {prop}.{r}: {got} obligation(s) instantiated, {n} confirmed by hand on the reference tree")
    for o in undec:
        incomplete.append(f"rule {o.rule} at {o.where} [{o.function}] {o.construct}: {o.detail}")

    violations = []
    knowns = []
    for o in refuted:
        k = match_known(o, known)
        if k is not None:
            knowns.append((o, k))
        else:
            violations.append(o)

    os.makedirs(os.path.join(VERIF, "evidence", "replay"), exist_ok=True)
    p = lambda *a: print(*a, file=out)
    if not ctx.quiet:
        p(f"== {prop} [{ctx.tier}] modules={len(ctx.analysed_modules)} functions={len(ctx.analysed_functions)} "
          f"obligations={len(obs)} proved={len(proved)} refuted={len(refuted)} undecided={len(undec)}")
        for r in sorted(counts):
            p(f"   rule {prop}.{r}: {counts[r]} obligation(s)")
    for (o, k) in knowns:
        p(f"KNOWN-FINDING: property={prop} {o.rule} {o.where} [{o.function}] {o.construct}: {o.detail}")
    replay_paths = []
    for i, o in enumerate(violations):
        rp = os.path.join(VERIF, "evidence", "replay", f"{prop}-{i}.json")
        if write:
            with open(rp, "w") as f:
                json.dump({"property": prop, "obligation": asdict(o)}, f, indent=1)
        replay_paths.append(rp)
        p(f"REFUTED {o.rule} at {o.where} [{o.function}] {o.construct}: {o.detail}")
        p(f"VIOLATION property={prop} replay={rp}")
    code = 0
    if violations:
        code = 1
    elif incomplete:
        code = 2
    if incomplete and not violations:
        for line in incomplete:
            p(f"ANALYSIS-INCOMPLETE {line}")
    elif incomplete:
        for line in incomplete:
            p(f"note: incomplete: {line}")
    if selftest is not None and selftest.get("broken") and code == 0:
        for line in selftest["broken"]:
            p(f"ANALYSIS-INCOMPLETE selftest: {line}")
        code = 2

    wall = time.time() - t0
    if write:
        # distinct non-trivial = distinct obligation keys whose verdict needed analysis
        keys = sorted(set(o.key() for o in obs))
        samples = []
        seen_rules = set()
        for o in obs:
            if o.rule not in seen_rules or o.verdict != PROVED:
                seen_rules.add(o.rule)
                d = asdict(o)
                samples.append(d)
            if len(samples) >= 40:
                break
        cov = {
            "evaluations": len(obs),
            "distinct_nontrivial": len(keys),
            "rule": rule_text,
            "samples": samples,
            "obligations": len(obs),
            "discharged": len(proved),
            "checker_cmd": checker_cmd,
            "trusted_base": ctx.trusted,
            "explanation": explanation,
            "exhaustive": False,
            "modules_analysed": {m: ctx.repo.modules[m].digest for m in sorted(ctx.analysed_modules) if m in ctx.repo.modules},
            "functions_analysed": sorted(ctx.analysed_functions),
            "obligations_by_rule": counts,
            "refuted": [asdict(o) for o in refuted],
            "undecided": [asdict(o) for o in undec],
            "known_findings_matched": [o.key() for (o, k) in knowns],
            "notes": ctx.notes,
        }
        cov.update(ctx.extra_cov)
        if selftest is not None:
            cov["selftest"] = selftest
        ev = {
            "property_id": prop,
            "tier": ctx.tier,
            "seed": ctx.seed,
            "level": level,
            "coverage": cov,
            "assumptions": ctx.assumptions,
            "wall_s": round(wall, 3),
            "violations": len(violations),
        }
        with open(os.path.join(VERIF, "evidence", f"{prop}.json"), "w") as f:
            json.dump(ev, f, indent=1, default=str)
    if not ctx.quiet:
        p(f"== {prop}: exit {code} ({'held' if code == 0 else 'VIOLATION' if code == 1 else 'analysis incomplete'}) in {wall:.2f}s")
    return code
