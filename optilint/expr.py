"""E2 -- expression algebra: source expressions -> canonical rational functions over atoms.

A value is a quotient of two multivariate polynomials with exact rational coefficients.  Atoms are
names, attribute chains and opaque calls (with canonicalised arguments).  Algebraic atoms carry a
reduction rule: an atom created for ``sqrt(E)`` satisfies atom**2 -> E, applied during
multiplication.  Equality is decided by cross-multiplication and syntactic equality of the
expanded polynomials -- term rewriting to a normal form, no solver and no search.

Also: partial derivative, substitution, degree in an atom, evaluation at rational points (of the
extracted *formula*, never of the analysed program).
"""
from __future__ import annotations

import ast
import math
from fractions import Fraction

from .model import dotted, norm_src


class NotPolynomial(Exception):
    pass


# A monomial is a tuple of (atom, exponent) sorted by atom; a polynomial a dict monomial -> Fraction.

def _mono_mul(a, b):
    d = dict(a)
    for k, e in b:
        d[k] = d.get(k, 0) + e
    return tuple(sorted((k, e) for k, e in d.items() if e != 0))


class Poly:
    __slots__ = ("t",)

    def __init__(self, terms=None):
        self.t = {m: c for m, c in (terms or {}).items() if c != 0}

    @staticmethod
    def const(c):
        return Poly({(): Fraction(c)})

    @staticmethod
    def atom(name):
        return Poly({((name, 1),): Fraction(1)})

    def is_zero(self):
        return not self.t

    def is_const(self):
        return all(m == () for m in self.t)

    def const_value(self):
        return self.t.get((), Fraction(0))

    def __add__(self, o):
        d = dict(self.t)
        for m, c in o.t.items():
            d[m] = d.get(m, 0) + c
        return Poly(d)

    def __neg__(self):
        return Poly({m: -c for m, c in self.t.items()})

    def __sub__(self, o):
        return self + (-o)

    def __mul__(self, o):
        d = {}
        for m1, c1 in self.t.items():
            for m2, c2 in o.t.items():
                m = _mono_mul(m1, m2)
                d[m] = d.get(m, 0) + c1 * c2
        return Poly(d)

    def pow(self, n):
        r = Poly.const(1)
        for _ in range(n):
            r = r * self
        return r

    def atoms(self):
        out = set()
        for m in self.t:
            for k, e in m:
                out.add(k)
        return out

    def degree_in(self, atom):
        return max((dict(m).get(atom, 0) for m in self.t), default=0)

    def diff(self, atom):
        d = {}
        for m, c in self.t.items():
            dm = dict(m)
            e = dm.get(atom, 0)
            if e == 0:
                continue
            dm[atom] = e - 1
            mm = tuple(sorted((k, x) for k, x in dm.items() if x != 0))
            d[mm] = d.get(mm, 0) + c * e
        return Poly(d)

    def subst(self, atom, val: "Rat") -> "Rat":
        res = Rat(Poly(), Poly.const(1))
        for m, c in self.t.items():
            term = Rat(Poly.const(c), Poly.const(1))
            for k, e in m:
                if k == atom:
                    if e < 0:
                        raise NotPolynomial("negative exponent")
                    term = term * val.pow(e)
                else:
                    term = term * Rat(Poly({((k, e),): Fraction(1)}), Poly.const(1))
            res = res + term
        return res

    def reduce(self, rules):
        """Apply algebraic reductions atom**2 -> Poly repeatedly (rules: atom -> Rat with denominator 1)."""
        if not rules:
            return self
        changed = True
        cur = self
        guard = 0
        while changed and guard < 50:
            guard += 1
            changed = False
            d = {}
            for m, c in cur.t.items():
                dm = dict(m)
                hit = None
                for k, e in m:
                    if k in rules and e >= 2:
                        hit = k
                        break
                if hit is None:
                    d[m] = d.get(m, 0) + c
                    continue
                changed = True
                e = dm[hit]
                dm[hit] = e - 2
                rest = tuple(sorted((k, x) for k, x in dm.items() if x != 0))
                repl = rules[hit] * Poly({rest: c})
                for m2, c2 in repl.t.items():
                    d[m2] = d.get(m2, 0) + c2
            cur = Poly(d)
        return cur

    def eval(self, env):
        tot = Fraction(0) if all(isinstance(v, Fraction) for v in env.values()) else 0.0
        for m, c in self.t.items():
            v = c
            for k, e in m:
                v = v * (env[k] ** e)
            tot = tot + v
        return tot

    def __eq__(self, o):
        return isinstance(o, Poly) and self.t == o.t

    def __hash__(self):
        return hash(tuple(sorted(self.t.items())))

    def __repr__(self):
        if not self.t:
            return "0"
        parts = []
        for m, c in sorted(self.t.items(), key=lambda x: (len(x[0]), x[0])):
            mon = "*".join(k if e == 1 else f"{k}^{e}" for k, e in m)
            cs = str(c)
            parts.append(cs if not mon else (mon if c == 1 else f"{cs}*{mon}"))
        return " + ".join(parts)


def _vec(m, atoms):
    d = dict(m)
    return tuple(d.get(a, 0) for a in atoms)


def poly_div_exact(n: "Poly", d: "Poly"):
    """q with d*q == n, or None (multivariate division in lexicographic order)."""
    if d.is_zero():
        return None
    if d.is_const():
        c = d.const_value()
        return Poly({m: v / c for m, v in n.t.items()})
    if n.is_zero():
        return Poly()
    atoms = sorted(n.atoms() | d.atoms())
    dl = max(d.t, key=lambda m: _vec(m, atoms))
    dlv, dlc = _vec(dl, atoms), d.t[dl]
    r = dict(n.t)
    q = {}
    guard = 0
    while r:
        guard += 1
        if guard > 5000:
            return None
        lm = max(r, key=lambda m: _vec(m, atoms))
        lv = _vec(lm, atoms)
        qv = tuple(a - b for a, b in zip(lv, dlv))
        if any(x < 0 for x in qv):
            return None
        qm = tuple((a, e) for a, e in zip(atoms, qv) if e)
        qc = r[lm] / dlc
        q[qm] = q.get(qm, 0) + qc
        for m2, c2 in d.t.items():
            mm = _mono_mul(qm, m2)
            nv = r.get(mm, 0) - qc * c2
            if nv == 0:
                r.pop(mm, None)
            else:
                r[mm] = nv
    return Poly(q)


def simplify(r: "Rat") -> "Rat":
    """Cheap exact simplifications: zero numerator, exact division, common monomial / constant content."""
    n, d = r.n, r.d
    if n.is_zero():
        return Rat(Poly(), Poly.const(1))
    if d.is_const():
        c = d.const_value()
        return Rat(Poly({m: v / c for m, v in n.t.items()}), Poly.const(1)) if c != 1 else r
    q = poly_div_exact(n, d)
    if q is not None:
        return Rat(q, Poly.const(1))
    q = poly_div_exact(d, n)
    if q is not None and len(n.t) > 1:
        return Rat(Poly.const(1), q)
    # common monomial factor
    atoms = sorted(n.atoms() | d.atoms())
    mins = None
    for m in list(n.t) + list(d.t):
        v = _vec(m, atoms)
        mins = v if mins is None else tuple(min(a, b) for a, b in zip(mins, v))
    if mins and any(mins):
        inv = tuple((a, -e) for a, e in zip(atoms, mins) if e)
        n = Poly({_mono_mul(m, inv): c for m, c in n.t.items()})
        d = Poly({_mono_mul(m, inv): c for m, c in d.t.items()})
    lc = d.t[max(d.t, key=lambda m: _vec(m, atoms))]
    if lc != 1:
        n = Poly({m: c / lc for m, c in n.t.items()})
        d = Poly({m: c / lc for m, c in d.t.items()})
    return Rat(n, d)


class Rat:
    """num/den with the algebraic rules of the owning Algebra applied by the Algebra."""
    __slots__ = ("n", "d")

    def __init__(self, n: Poly, d: Poly = None):
        self.n = n
        self.d = d if d is not None else Poly.const(1)

    def __add__(self, o):
        if self.d == o.d:
            return Rat(self.n + o.n, self.d)
        if not self.d.is_const() and not o.d.is_const():
            q = poly_div_exact(self.d, o.d)
            if q is not None:
                return Rat(self.n + o.n * q, self.d)
            q = poly_div_exact(o.d, self.d)
            if q is not None:
                return Rat(self.n * q + o.n, o.d)
        return Rat(self.n * o.d + o.n * self.d, self.d * o.d)

    def __neg__(self):
        return Rat(-self.n, self.d)

    def __sub__(self, o):
        return self + (-o)

    def __mul__(self, o):
        return Rat(self.n * o.n, self.d * o.d)

    def __truediv__(self, o):
        return Rat(self.n * o.d, self.d * o.n)

    def pow(self, k):
        if k >= 0:
            return Rat(self.n.pow(k), self.d.pow(k))
        return Rat(self.d.pow(-k), self.n.pow(-k))

    def atoms(self):
        return self.n.atoms() | self.d.atoms()

    def __repr__(self):
        if self.d == Poly.const(1):
            return repr(self.n)
        return f"({self.n}) / ({self.d})"


class Algebra:
    """Holds the atom table (opaque sub-expressions, algebraic atoms) for one proof context."""

    def __init__(self, env=None, opaque_calls=True, linear_ops=None, vector_atoms=()):
        self.rules = {}           # algebraic atom -> Poly (its square)
        self.env = dict(env or {})  # name -> Rat (definitions to inline)
        self.opaque = {}
        self.opaque_calls = opaque_calls
        self.vector_atoms = set(vector_atoms)   # names that denote vectors: products of two of them are Gram atoms
        self.linear_ops = dict(linear_ops or {})

    # ---- construction
    def const(self, c):
        # a float literal denotes the decimal number the programmer wrote (0.25, 1e-16, ...)
        return Rat(Poly.const(Fraction(repr(c)) if isinstance(c, float) else Fraction(c)))

    def atom(self, name):
        return Rat(Poly.atom(name))

    def norm(self, r: Rat) -> Rat:
        return Rat(r.n.reduce(self.rules), r.d.reduce(self.rules))

    def sqrt(self, r: Rat) -> Rat:
        r = self.norm(r)
        # perfect squares of single monomials with even exponents are not attempted; use an algebraic atom
        if r.d != Poly.const(1):
            if r.n.is_const() and r.n.const_value() < 0:
                r = Rat(-r.n, -r.d)      # n/d == (-n)/(-d): keep the constant under the root positive
            num = self.sqrt(Rat(r.n))
            den = self.sqrt(Rat(r.d))
            return num / den
        if r.n.is_const():
            c = r.n.const_value()
            if c >= 0:
                s = Fraction(math.isqrt(c.numerator), 1) / Fraction(math.isqrt(c.denominator), 1) if c.denominator else None
                if s is not None and s * s == c:
                    return Rat(Poly.const(s))
        if len(r.n.t) == 1:
            (m, c), = r.n.t.items()
            if c > 0 and all(e % 2 == 0 for (_, e) in m):
                sn, sd = math.isqrt(c.numerator), math.isqrt(c.denominator)
                if sn * sn == c.numerator and sd * sd == c.denominator:
                    # monomial perfect square; atoms under a square root are taken non-negative (recorded by callers)
                    return Rat(Poly({tuple((k, e // 2) for (k, e) in m): Fraction(sn, sd)}))
                if m:
                    # c * (monomial)^2 with c not a rational square: sqrt(c) stays an algebraic constant
                    root_c = self.sqrt(Rat(Poly.const(c)))
                    return self.norm(root_c * Rat(Poly({tuple((k, e // 2) for (k, e) in m): Fraction(1)})))
        name = f"sqrt[{r.n!r}]"
        self.rules[name] = r.n
        return Rat(Poly.atom(name))

    # ---- lowering from ast
    def lower(self, e) -> Rat:
        return self.norm(self._lower(e))

    def _lower(self, e) -> Rat:
        if isinstance(e, ast.Constant):
            if isinstance(e.value, bool) or not isinstance(e.value, (int, float)):
                raise NotPolynomial(f"constant {e.value!r}")
            return self.const(e.value)
        if isinstance(e, ast.Name):
            if e.id in self.env:
                v = self.env[e.id]
                return v if isinstance(v, Rat) else self.lower(v)
            return self.atom(e.id)
        if isinstance(e, ast.Attribute):
            d = dotted(e)
            if d is None:
                raise NotPolynomial(norm_src(e))
            if d in ("np.pi", "math.pi", "onp.pi", "numpy.pi"):
                return self.atom("pi")
            if d in self.env:
                v = self.env[d]
                return v if isinstance(v, Rat) else self.lower(v)
            return self.atom(d)
        if isinstance(e, ast.UnaryOp):
            if isinstance(e.op, ast.USub):
                return -self._lower(e.operand)
            if isinstance(e.op, ast.UAdd):
                return self._lower(e.operand)
            raise NotPolynomial(norm_src(e))
        if isinstance(e, ast.BinOp):
            if isinstance(e.op, ast.Add):
                return self._lower(e.left) + self._lower(e.right)
            if isinstance(e.op, ast.Sub):
                return self._lower(e.left) - self._lower(e.right)
            if isinstance(e.op, ast.Mult):
                return self.norm(self._lower(e.left) * self._lower(e.right))
            if isinstance(e.op, ast.MatMult):
                return self._bilinear(e.left, e.right)
            if isinstance(e.op, ast.Div):
                return self._lower(e.left) / self._lower(e.right)
            if isinstance(e.op, ast.Pow):
                k = e.right
                kv = None
                if isinstance(k, ast.Constant) and isinstance(k.value, (int, float)):
                    kv = Fraction(k.value).limit_denominator(64)
                elif isinstance(k, ast.UnaryOp) and isinstance(k.op, ast.USub) and isinstance(k.operand, ast.Constant):
                    kv = -Fraction(k.operand.value).limit_denominator(64)
                if kv is None:
                    raise NotPolynomial("symbolic exponent " + norm_src(e))
                base = self._lower(e.left)
                if kv.denominator == 1:
                    return self.norm(base.pow(int(kv)))
                if kv.denominator == 2:
                    s = self.sqrt(base)
                    return self.norm(s.pow(int(kv.numerator)))
                raise NotPolynomial("fractional exponent " + norm_src(e))
            raise NotPolynomial(norm_src(e))
        if isinstance(e, ast.Call):
            d = dotted(e.func) or ""
            last = d.split(".")[-1]
            if last in ("sqrt", "safe_sqrt") and len(e.args) == 1:
                return self.sqrt(self._lower(e.args[0]))
            if last == "square" and len(e.args) == 1:
                v = self._lower(e.args[0])
                return self.norm(v * v)
            if last in ("dot", "vdot", "inner") and len(e.args) == 2:
                return self._bilinear(e.args[0], e.args[1])
            if last in ("array", "asarray", "float", "float64") and len(e.args) == 1:
                return self._lower(e.args[0])
            if last == "norm" and len(e.args) == 1:
                return self.sqrt(self._bilinear(e.args[0], e.args[0]))
            if d in self.linear_ops and len(e.args) == 1:
                return self._linear(d, e.args[0])
            if self.opaque_calls:
                args = ",".join(repr(self.lower(a)) if self._try(a) else norm_src(a) for a in e.args)
                name = f"{d or norm_src(e.func)}({args})"
                return self.atom(name)
            raise NotPolynomial(norm_src(e))
        if isinstance(e, ast.Subscript):
            return self.atom(norm_src(e))
        raise NotPolynomial(norm_src(e))

    def _try(self, a):
        try:
            self.lower(a)
            return True
        except NotPolynomial:
            return False

    # ---- bilinear forms on formal vectors: <u, v> expands over sums, scalars pull out
    def _vec_terms(self, e):
        """Decompose a vector-valued expression into [(scalar Rat, vector atom name)]."""
        if isinstance(e, ast.Name):
            if e.id in self.env and e.id not in self.vector_atoms:
                v = self.env[e.id]
                if not isinstance(v, Rat):
                    return self._vec_terms(v)
            return [(self.const(1), e.id)]
        if isinstance(e, ast.UnaryOp) and isinstance(e.op, ast.USub):
            return [(-c, v) for (c, v) in self._vec_terms(e.operand)]
        if isinstance(e, ast.BinOp):
            if isinstance(e.op, ast.Add):
                return self._vec_terms(e.left) + self._vec_terms(e.right)
            if isinstance(e.op, ast.Sub):
                return self._vec_terms(e.left) + [(-c, v) for (c, v) in self._vec_terms(e.right)]
            if isinstance(e.op, ast.Mult):
                # scalar * vector (either side)
                for s, v in ((e.left, e.right), (e.right, e.left)):
                    if self._is_vector(v) and not self._is_vector(s):
                        sc = self._lower(s)
                        return [(self.norm(sc * c), a) for (c, a) in self._vec_terms(v)]
            if isinstance(e.op, ast.Div) and self._is_vector(e.left):
                sc = self._lower(e.right)
                return [(c / sc, a) for (c, a) in self._vec_terms(e.left)]
        if isinstance(e, ast.Call):
            d = dotted(e.func) or ""
            if d in self.linear_ops and len(e.args) == 1:
                return [(c, f"{self.linear_ops[d]}[{a}]") for (c, a) in self._vec_terms(e.args[0])]
            if d.split(".")[-1] in ("array", "asarray") and len(e.args) == 1:
                return self._vec_terms(e.args[0])
        return [(self.const(1), "vec:" + norm_src(e))]

    def _is_vector(self, e):
        if isinstance(e, ast.Name):
            if e.id in self.vector_atoms:
                return True
            if e.id in self.env and not isinstance(self.env[e.id], Rat):
                return self._is_vector(self.env[e.id])
            return False
        if isinstance(e, ast.UnaryOp):
            return self._is_vector(e.operand)
        if isinstance(e, ast.BinOp):
            if isinstance(e.op, (ast.Add, ast.Sub)):
                return self._is_vector(e.left) or self._is_vector(e.right)
            if isinstance(e.op, ast.Mult):
                return self._is_vector(e.left) or self._is_vector(e.right)
            if isinstance(e.op, ast.Div):
                return self._is_vector(e.left)
            return False
        if isinstance(e, ast.Call):
            d = dotted(e.func) or ""
            if d in self.linear_ops:
                return True
            if d.split(".")[-1] in ("array", "asarray") and e.args:
                return self._is_vector(e.args[0])
        return False

    def _bilinear(self, a, b) -> Rat:
        if not (self._is_vector(a) and self._is_vector(b)):
            # scalar product
            return self.norm(self._lower(a) * self._lower(b))
        res = Rat(Poly())
        for (c1, v1) in self._vec_terms(a):
            for (c2, v2) in self._vec_terms(b):
                x, y = sorted((v1, v2))
                res = res + self.norm(c1 * c2) * self.atom(f"<{x},{y}>")
        return self.norm(res)

    def _linear(self, d, arg):
        raise NotPolynomial("linear operator result used as scalar: " + d)

    # ---- queries
    def equal(self, a: Rat, b: Rat) -> bool:
        l = (a.n * b.d).reduce(self.rules)
        r = (b.n * a.d).reduce(self.rules)
        return l == r

    def is_zero(self, a: Rat) -> bool:
        return a.n.reduce(self.rules).is_zero()

    def diff(self, a: Rat, atom: str) -> Rat:
        # algebraic atoms depending on `atom`: d sqrt(E) = dE / (2 sqrt(E))
        def dpoly(p: Poly) -> Rat:
            res = Rat(p.diff(atom))
            for alg, sq in self.rules.items():
                if p.degree_in(alg) > 0 and atom in sq.atoms():
                    dsq = sq.diff(atom)
                    res = res + Rat(p.diff(alg)) * Rat(dsq, Poly.const(2) * Poly.atom(alg))
            return res
        n, d = a.n, a.d
        dn, dd = dpoly(n), dpoly(d)
        return self.norm((dn * Rat(d) - Rat(n) * dd) / Rat(d * d))

    def subst(self, a: Rat, atom: str, val: Rat) -> Rat:
        return self.norm(a.n.subst(atom, val) / a.d.subst(atom, val))

    def eval(self, a: Rat, env: dict):
        """Numeric value at a point; algebraic atoms sqrt[...] are evaluated from their squares."""
        full = dict(env)
        pending = dict(self.rules)
        guard = 0
        while pending and guard < 20:
            guard += 1
            for alg, sq in list(pending.items()):
                if all(x in full for x in sq.atoms()):
                    v = sq.eval({k: float(full[k]) for k in sq.atoms()})
                    full[alg] = math.sqrt(v) if v >= 0 else float("nan")
                    del pending[alg]
        fenv = {k: float(v) for k, v in full.items()}
        missing = [x for x in a.atoms() if x not in fenv]
        if missing:
            raise KeyError(missing)
        num = a.n.eval(fenv)
        den = a.d.eval(fenv)
        return num / den if den != 0 else float("nan")


# ------------------------------------------------------------------ formula evaluation (piecewise)

def feval(e, env):
    """Evaluate an extracted scalar *formula* (ast) at a numeric point.  Supports arithmetic,
    np.sqrt/abs/minimum/maximum/where/if_then_else, comparisons and IfExp.  Raises KeyError /
    NotPolynomial on anything else."""
    if isinstance(e, ast.Constant):
        return e.value
    if isinstance(e, ast.Name):
        return env[e.id]
    if isinstance(e, ast.Attribute):
        d = dotted(e)
        if d in ("np.pi", "math.pi"):
            return math.pi
        if d in ("np.inf",):
            return math.inf
        return env[d]
    if isinstance(e, ast.UnaryOp):
        v = feval(e.operand, env)
        if isinstance(e.op, ast.USub):
            return -v
        if isinstance(e.op, ast.Not):
            return not v
        return v
    if isinstance(e, ast.BinOp):
        a, b = feval(e.left, env), feval(e.right, env)
        if isinstance(e.op, ast.Add):
            return a + b
        if isinstance(e.op, ast.Sub):
            return a - b
        if isinstance(e.op, (ast.Mult, ast.MatMult)):
            return a * b
        if isinstance(e.op, ast.Div):
            return a / b if b != 0 else math.copysign(math.inf, a) if a != 0 else math.nan
        if isinstance(e.op, ast.Pow):
            return a ** b
    if isinstance(e, ast.Compare) and len(e.ops) == 1:
        a, b = feval(e.left, env), feval(e.comparators[0], env)
        op = e.ops[0]
        return {ast.Lt: a < b, ast.LtE: a <= b, ast.Gt: a > b, ast.GtE: a >= b, ast.Eq: a == b, ast.NotEq: a != b}[type(op)]
    if isinstance(e, ast.BoolOp):
        vals = [feval(v, env) for v in e.values]
        return all(vals) if isinstance(e.op, ast.And) else any(vals)
    if isinstance(e, ast.IfExp):
        return feval(e.body, env) if feval(e.test, env) else feval(e.orelse, env)
    if isinstance(e, ast.Call):
        d = (dotted(e.func) or "").split(".")[-1]
        args = [feval(a, env) for a in e.args]
        if d == "sqrt":
            return math.sqrt(args[0]) if args[0] >= 0 else math.nan
        if d in ("abs", "fabs"):
            return abs(args[0])
        if d in ("minimum", "min"):
            return min(args)
        if d in ("maximum", "max"):
            return max(args)
        if d in ("where", "if_then_else"):
            return args[1] if args[0] else args[2]
        if d == "square":
            return args[0] ** 2
        if d == "sign":
            return (args[0] > 0) - (args[0] < 0)
        if d in ("dot", "vdot"):
            return args[0] * args[1]
        if d == "expm1":
            return math.expm1(args[0])
        if d == "log1p":
            return math.log1p(args[0])
        if d == "power":
            return args[0] ** args[1]
        if d == "exp":
            return math.exp(args[0])
        if d == "log":
            return math.log(args[0])
    raise NotPolynomial("cannot evaluate " + norm_src(e))
