"""E1 -- statement-level control-flow graph, dominators, reaching definitions with
edge facts.  Small functions only; all algorithms are simple iterative set fixpoints."""
from __future__ import annotations

import ast
from dataclasses import dataclass, field
from typing import Optional

from .model import dotted


@dataclass(eq=False)
class Node:
    idx: int
    kind: str                 # entry | exit | raise_exit | stmt | cond | for | join
    ast: Optional[ast.AST] = None      # statement, or test expression for cond, or For stmt
    stmt: Optional[ast.AST] = None     # owning statement (If/While for cond)
    succ: list = field(default_factory=list)    # (Node, label) ; label in {None, True, False}
    pred: list = field(default_factory=list)
    loop_depth: int = 0
    loops: tuple = ()         # enclosing loop header nodes (outermost first)

    def __repr__(self):
        try:
            txt = ast.unparse(self.ast).split("\n")[0][:60] if self.ast is not None else ""
        except Exception:
            txt = "?"
        return f"<{self.idx}:{self.kind} {txt}>"

    @property
    def lineno(self):
        return getattr(self.ast, "lineno", None)


class CFG:
    def __init__(self, func_node, body=None):
        self.func = func_node
        self.nodes: list[Node] = []
        self.entry = self._new("entry")
        self.exit = self._new("exit")
        self.raise_exit = self._new("raise_exit")
        self._loop_stack = []
        self.node_of_stmt = {}
        if body is None:
            body = func_node.body if not isinstance(func_node, ast.Lambda) else [ast.Return(value=func_node.body)]
        last = self._seq(body, [(self.entry, None)])
        for (n, lab) in last:
            self._edge(n, self.exit, lab)
        self._dom = None
        self._rd = None

    # ---- construction
    def _new(self, kind, a=None, stmt=None):
        n = Node(len(self.nodes), kind, a, stmt)
        n.loops = tuple(h for (h, _) in getattr(self, "_loop_stack", []))
        n.loop_depth = len(n.loops)
        self.nodes.append(n)
        if a is not None and kind in ("stmt", "for"):
            self.node_of_stmt[id(a)] = n
        if stmt is not None and kind == "cond":
            self.node_of_stmt[id(stmt)] = n
        return n

    def _edge(self, a, b, label=None):
        a.succ.append((b, label))
        b.pred.append((a, label))

    def _attach(self, frontier, node):
        for (n, lab) in frontier:
            self._edge(n, node, lab)

    def _seq(self, stmts, frontier):
        for st in stmts:
            if not frontier:
                # unreachable code: still build nodes (detached) so that lookups work
                frontier = []
            frontier = self._stmt(st, frontier)
        return frontier

    def _stmt(self, st, frontier):
        if isinstance(st, ast.If):
            c = self._new("cond", st.test, st)
            self._attach(frontier, c)
            t = self._seq(st.body, [(c, True)])
            f = self._seq(st.orelse, [(c, False)]) if st.orelse else [(c, False)]
            return t + f
        if isinstance(st, ast.While):
            c = self._new("cond", st.test, st)
            self._attach(frontier, c)
            brk = []
            self._loop_stack.append((c, brk))
            body_end = self._seq(st.body, [(c, True)])
            self._loop_stack.pop()
            for (n, lab) in body_end:
                self._edge(n, c, lab)
            out = [(c, False)]
            if st.orelse:
                out = self._seq(st.orelse, out)
            return out + brk
        if isinstance(st, (ast.For, ast.AsyncFor)):
            h = self._new("for", st, st)
            self._attach(frontier, h)
            brk = []
            self._loop_stack.append((h, brk))
            body_end = self._seq(st.body, [(h, True)])
            self._loop_stack.pop()
            for (n, lab) in body_end:
                self._edge(n, h, lab)
            out = [(h, False)]
            if st.orelse:
                out = self._seq(st.orelse, out)
            return out + brk
        if isinstance(st, ast.Break):
            n = self._new("stmt", st)
            self._attach(frontier, n)
            if self._loop_stack:
                self._loop_stack[-1][1].append((n, None))
            return []
        if isinstance(st, ast.Continue):
            n = self._new("stmt", st)
            self._attach(frontier, n)
            if self._loop_stack:
                self._edge(n, self._loop_stack[-1][0])
            return []
        if isinstance(st, ast.Return):
            n = self._new("stmt", st)
            self._attach(frontier, n)
            self._edge(n, self.exit)
            return []
        if isinstance(st, ast.Raise):
            n = self._new("stmt", st)
            self._attach(frontier, n)
            self._edge(n, self.raise_exit)
            return []
        if isinstance(st, (ast.With, ast.AsyncWith)):
            n = self._new("stmt", st)
            self._attach(frontier, n)
            return self._seq(st.body, [(n, None)])
        if isinstance(st, ast.Try) or st.__class__.__name__ == "TryStar":
            n = self._new("join", None)
            self._attach(frontier, n)
            first_idx = len(self.nodes)
            body_end = self._seq(st.body, [(n, None)])
            body_nodes = self.nodes[first_idx:]
            ends = list(body_end)
            if st.orelse:
                ends = self._seq(st.orelse, ends)
            for h in st.handlers:
                hn = self._new("join", None)
                self._edge(n, hn)
                for bn in body_nodes:
                    self._edge(bn, hn)
                ends += self._seq(h.body, [(hn, None)])
            if st.finalbody:
                ends = self._seq(st.finalbody, ends)
            return ends
        if isinstance(st, ast.Match):
            n = self._new("stmt", st)
            self._attach(frontier, n)
            ends = [(n, None)]
            for case in st.cases:
                ends += self._seq(case.body, [(n, None)])
            return ends
        # simple statement (incl. nested def/class as a definition statement)
        n = self._new("stmt", st)
        self._attach(frontier, n)
        # `exit()` / `sys.exit()` calls terminate
        if isinstance(st, ast.Expr) and isinstance(st.value, ast.Call):
            d = dotted(st.value.func)
            if d in ("exit", "sys.exit", "quit"):
                self._edge(n, self.raise_exit)
                return []
        return [(n, None)]

    # ---- basic queries
    def stmt_nodes(self):
        return [n for n in self.nodes if n.kind in ("stmt", "cond", "for")]

    def returns(self):
        return [n for n in self.nodes if n.kind == "stmt" and isinstance(n.ast, ast.Return)]

    def raises(self):
        return [n for n in self.nodes if n.kind == "stmt" and isinstance(n.ast, ast.Raise)]

    def node_for(self, stmt) -> Optional[Node]:
        return self.node_of_stmt.get(id(stmt))

    def reachable_from(self, start, removed_edges=(), blocked=()):
        """Nodes reachable from `start` (inclusive) avoiding removed edges (a,b,label) and never
        passing *through* blocked nodes (blocked nodes are reached but not expanded)."""
        rem = set((id(a), id(b), lab) for (a, b, lab) in removed_edges)
        blk = set(id(b) for b in blocked)
        seen = {id(start): start}
        work = [start]
        while work:
            n = work.pop()
            if id(n) in blk and n is not start:
                continue
            for (m, lab) in n.succ:
                if (id(n), id(m), lab) in rem:
                    continue
                if id(m) not in seen:
                    seen[id(m)] = m
                    work.append(m)
        return seen

    def reachable_entry(self):
        return self.reachable_from(self.entry)

    # ---- dominators
    def dominators(self):
        if self._dom is not None:
            return self._dom
        reach = self.reachable_entry()
        nodes = [n for n in self.nodes if id(n) in reach]
        allset = set(id(n) for n in nodes)
        dom = {id(n): set(allset) for n in nodes}
        dom[id(self.entry)] = {id(self.entry)}
        changed = True
        while changed:
            changed = False
            for n in nodes:
                if n is self.entry:
                    continue
                preds = [p for (p, _) in n.pred if id(p) in reach]
                if not preds:
                    new = {id(n)}
                else:
                    new = set.intersection(*(dom[id(p)] for p in preds)) | {id(n)}
                if new != dom[id(n)]:
                    dom[id(n)] = new
                    changed = True
        self._dom = dom
        return dom

    def dominates(self, a: Node, b: Node) -> bool:
        d = self.dominators()
        return id(b) in d and id(a) in d[id(b)]

    def edge_dominates(self, cond: Node, label, target: Node) -> bool:
        """Every entry->target path traverses the edge (cond --label-->)."""
        if id(target) not in self.reachable_entry():
            return False
        edges = [(cond, m, lab) for (m, lab) in cond.succ if lab == label]
        if not edges:
            return False
        r = self.reachable_from(self.entry, removed_edges=edges)
        return id(target) not in r

    def edge_facts(self, target: Node):
        """All (cond node, label) such that every path entry->target crosses that edge."""
        out = []
        for c in self.nodes:
            if c.kind not in ("cond", "for"):
                continue
            for lab in (True, False):
                if self.edge_dominates(c, lab, target):
                    out.append((c, lab))
        return out

    def in_loop(self, n: Node, header: Node) -> bool:
        return header in n.loops

    # ---- definitions and uses
    @staticmethod
    def target_cells(t, out, weak):
        if isinstance(t, ast.Name):
            out.append((t.id, weak))
        elif isinstance(t, (ast.Tuple, ast.List)):
            for e in t.elts:
                CFG.target_cells(e, out, weak)
        elif isinstance(t, ast.Starred):
            CFG.target_cells(t.value, out, weak)
        elif isinstance(t, ast.Attribute):
            d = dotted(t)
            if d:
                out.append((d, weak))
        elif isinstance(t, ast.Subscript):
            d = dotted(t.value)
            if d:
                out.append((d, True))

    def defs_of(self, n: Node):
        """[(cell, weak)] defined at node n."""
        out = []
        a = n.ast
        if n.kind == "for":
            self.target_cells(a.target, out, False)
            return out
        if n.kind != "stmt" or a is None:
            if n.kind == "cond":
                for w in ast.walk(a):
                    if isinstance(w, ast.NamedExpr):
                        self.target_cells(w.target, out, False)
            return out
        if isinstance(a, ast.Assign):
            for t in a.targets:
                self.target_cells(t, out, False)
        elif isinstance(a, ast.AugAssign):
            self.target_cells(a.target, out, False)
        elif isinstance(a, ast.AnnAssign) and a.value is not None:
            self.target_cells(a.target, out, False)
        elif isinstance(a, (ast.FunctionDef, ast.AsyncFunctionDef, ast.ClassDef)):
            out.append((a.name, False))
        elif isinstance(a, (ast.With, ast.AsyncWith)):
            for it in a.items:
                if it.optional_vars is not None:
                    self.target_cells(it.optional_vars, out, False)
        elif isinstance(a, (ast.Import, ast.ImportFrom)):
            for al in a.names:
                out.append(((al.asname or al.name).split(".")[0], False))
        for w in ast.walk(a) if not isinstance(a, (ast.FunctionDef, ast.AsyncFunctionDef, ast.ClassDef)) else []:
            if isinstance(w, ast.NamedExpr):
                self.target_cells(w.target, out, False)
        return out

    def reaching_defs(self):
        """in-sets: node id -> {cell: frozenset(def node ids)}; parameters are defined at entry."""
        if self._rd is not None:
            return self._rd
        gen = {}
        for n in self.nodes:
            gen[id(n)] = self.defs_of(n)
        params = []
        if hasattr(self.func, "args"):
            a = self.func.args
            params = [x.arg for x in a.posonlyargs + a.args + a.kwonlyargs]
            if a.vararg:
                params.append(a.vararg.arg)
            if a.kwarg:
                params.append(a.kwarg.arg)
        IN = {id(n): {} for n in self.nodes}
        OUT = {id(n): {} for n in self.nodes}
        OUT[id(self.entry)] = {p: frozenset([id(self.entry)]) for p in params}
        byid = {id(n): n for n in self.nodes}
        work = list(self.nodes)
        inwork = set(id(n) for n in work)
        while work:
            n = work.pop(0)
            inwork.discard(id(n))
            if n is self.entry:
                newin = {}
            else:
                newin = {}
                for (p, _) in n.pred:
                    for cell, ds in OUT[id(p)].items():
                        newin[cell] = newin.get(cell, frozenset()) | ds
            IN[id(n)] = newin
            out = dict(newin)
            if n is self.entry:
                out = dict(OUT[id(self.entry)])
            for (cell, weak) in gen[id(n)]:
                if weak:
                    out[cell] = out.get(cell, frozenset()) | frozenset([id(n)])
                else:
                    out[cell] = frozenset([id(n)])
                    # a strong definition of `x` kills cells `x.attr`
                    pref = cell + "."
                    for c2 in [c for c in out if c.startswith(pref)]:
                        del out[c2]
            if out != OUT[id(n)]:
                OUT[id(n)] = out
                for (m, _) in n.succ:
                    if id(m) not in inwork:
                        work.append(m)
                        inwork.add(id(m))
        self._rd = (IN, OUT, byid)
        return self._rd

    def reaching(self, n: Node, cell: str):
        """Definition nodes of `cell` reaching the *entry* of node n."""
        IN, OUT, byid = self.reaching_defs()
        return [byid[i] for i in sorted(IN[id(n)].get(cell, ()), key=lambda i: byid[i].idx)]

    def reaching_after(self, n: Node, cell: str):
        IN, OUT, byid = self.reaching_defs()
        return [byid[i] for i in sorted(OUT[id(n)].get(cell, ()), key=lambda i: byid[i].idx)]

    def same_value(self, cell: str, a: Node, b: Node) -> bool:
        """`cell` has the same set of reaching definitions at a and at b, and is not redefined at a
        itself before reaching b (a conservative 'same value' test)."""
        ra = set(id(x) for x in self.reaching(a, cell))
        rb = set(id(x) for x in self.reaching(b, cell))
        return ra == rb and len(ra) > 0

    def def_clear_facts(self, d: Node, u: Node, cell: str):
        """(cond, label) edges that every definition-clear path of `cell` from def node d to use
        node u must traverse."""
        killers = [n for n in self.nodes if n is not d and any(c == cell and not w for (c, w) in self.defs_of(n))]
        base = self.reachable_from(d, blocked=killers)
        if id(u) not in base:
            return None   # d does not reach u
        out = []
        for c in self.nodes:
            if c.kind not in ("cond", "for") or id(c) not in base:
                continue
            for lab in (True, False):
                edges = [(c, m, l2) for (m, l2) in c.succ if l2 == lab]
                if not edges:
                    continue
                r = self.reachable_from(d, removed_edges=edges, blocked=killers)
                if id(u) not in r:
                    out.append((c, lab))
        return out

    def paths_between(self, a: Node, b: Node, avoid=()):
        """Is there a path a ->+ b avoiding nodes in `avoid` (as intermediate nodes)?"""
        av = set(id(x) for x in avoid)
        seen = set()
        work = [m for (m, _) in a.succ]
        while work:
            n = work.pop()
            if id(n) in seen:
                continue
            seen.add(id(n))
            if n is b:
                return True
            if id(n) in av:
                continue
            for (m, _) in n.succ:
                work.append(m)
        return False

    def must_pass(self, a: Node, b: Node, via: list) -> bool:
        """Every path a ->+ b passes through at least one node of `via`."""
        return not self.paths_between(a, b, avoid=via)


def cfg_of(scope) -> CFG:
    c = getattr(scope, "_cfg", None)
    if c is None:
        c = CFG(scope.node)
        scope._cfg = c
    return c


def uses(expr) -> set:
    """Cells (names and dotted attribute chains) read in an expression."""
    out = set()
    for n in ast.walk(expr):
        if isinstance(n, ast.Name) and isinstance(n.ctx, ast.Load):
            out.add(n.id)
        elif isinstance(n, ast.Attribute) and isinstance(n.ctx, ast.Load):
            d = dotted(n)
            if d:
                out.add(d)
    return out
