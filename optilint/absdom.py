"""E3 -- small abstract domains: sign with branch facts, NaN polarity (three-valued boolean
evaluation when every comparison on a designated variable is false), homogeneity degree."""
from __future__ import annotations

import ast
from fractions import Fraction

from .model import dotted, norm_src

# sign lattice elements
POS, NONNEG, ZERO, NONPOS, NEG, TOP = "+", "0+", "0", "-0", "-", "?"


def _flip(s):
    return {POS: NEG, NONNEG: NONPOS, ZERO: ZERO, NONPOS: NONNEG, NEG: POS, TOP: TOP}[s]


def _mul(a, b):
    if ZERO in (a, b):
        return ZERO
    if TOP in (a, b):
        return TOP
    sa = 1 if a in (POS, NONNEG) else -1
    sb = 1 if b in (POS, NONNEG) else -1
    strict = a in (POS, NEG) and b in (POS, NEG)
    if sa * sb > 0:
        return POS if strict else NONNEG
    return NEG if strict else NONPOS


def _add(a, b):
    if a == ZERO:
        return b
    if b == ZERO:
        return a
    if TOP in (a, b):
        return TOP
    if a in (POS, NONNEG) and b in (POS, NONNEG):
        return POS if POS in (a, b) else NONNEG
    if a in (NEG, NONPOS) and b in (NEG, NONPOS):
        return NEG if NEG in (a, b) else NONPOS
    return TOP


def is_nonneg(s):
    return s in (POS, NONNEG, ZERO)


def is_nonpos(s):
    return s in (NEG, NONPOS, ZERO)


class SignEnv:
    """facts: list of (expr, polarity) with expr an ast comparison against a constant;
    assumptions: {source text: sign}.  `expander(name)` returns the defining expression of a
    local name (or None)."""

    def __init__(self, facts=(), assumptions=None, expander=None):
        self.facts = list(facts)
        self.assumptions = dict(assumptions or {})
        self.expander = expander
        self.used = []

    def _fact_sign(self, e):
        key = norm_src(e)
        if key in self.assumptions:
            self.used.append(f"assume {key} : {self.assumptions[key]}")
            return self.assumptions[key]
        best = TOP
        for (f, pol) in self.facts:
            if not isinstance(f, ast.Compare) or len(f.ops) != 1:
                continue
            l, op, r = f.left, f.ops[0], f.comparators[0]
            val = None
            side = None
            if norm_src(l) == key and isinstance(r, ast.Constant) and isinstance(r.value, (int, float)):
                val, side = r.value, "L"
            elif norm_src(r) == key and isinstance(l, ast.Constant) and isinstance(l.value, (int, float)):
                val, side = l.value, "R"
            else:
                continue
            opn = type(op).__name__
            if side == "R":
                opn = {"Lt": "Gt", "LtE": "GtE", "Gt": "Lt", "GtE": "LtE"}.get(opn, opn)
            if not pol:
                # negation of a comparison (NaN aside: a NaN operand makes every later comparison false too)
                opn = {"Lt": "GtE", "LtE": "Gt", "Gt": "LtE", "GtE": "Lt", "Eq": "NotEq", "NotEq": "Eq"}.get(opn, None)
                if opn is None:
                    continue
            s = TOP
            if opn == "Gt" and val >= 0:
                s = POS
            elif opn == "GtE" and val > 0:
                s = POS
            elif opn == "GtE" and val == 0:
                s = NONNEG
            elif opn == "Lt" and val <= 0:
                s = NEG
            elif opn == "LtE" and val < 0:
                s = NEG
            elif opn == "LtE" and val == 0:
                s = NONPOS
            elif opn == "Eq" and val == 0:
                s = ZERO
            if s != TOP:
                self.used.append(f"fact {'not ' if not pol else ''}({norm_src(f)}) => {key} : {s}")
                best = s
        return best

    def sign(self, e, depth=8):
        if depth <= 0:
            return TOP
        s = self._fact_sign(e)
        if s != TOP:
            return s
        if isinstance(e, ast.Constant) and isinstance(e.value, (int, float)) and not isinstance(e.value, bool):
            return POS if e.value > 0 else NEG if e.value < 0 else ZERO
        if isinstance(e, ast.UnaryOp):
            if isinstance(e.op, ast.USub):
                return _flip(self.sign(e.operand, depth - 1))
            if isinstance(e.op, ast.UAdd):
                return self.sign(e.operand, depth - 1)
        if isinstance(e, ast.BinOp):
            if isinstance(e.op, (ast.Mult, ast.Div)):
                a, b = self.sign(e.left, depth - 1), self.sign(e.right, depth - 1)
                if isinstance(e.op, ast.Div) and b in (NONNEG, NONPOS, ZERO):
                    # division by a possibly-zero value: sign of a finite quotient still follows
                    pass
                return _mul(a, b)
            if isinstance(e.op, ast.Add):
                return _add(self.sign(e.left, depth - 1), self.sign(e.right, depth - 1))
            if isinstance(e.op, ast.Sub):
                return _add(self.sign(e.left, depth - 1), _flip(self.sign(e.right, depth - 1)))
            if isinstance(e.op, ast.Pow):
                k = e.right
                if isinstance(k, ast.Constant) and isinstance(k.value, int) and k.value % 2 == 0:
                    return NONNEG
            if isinstance(e.op, ast.MatMult) and norm_src(e.left) == norm_src(e.right):
                return NONNEG
        if isinstance(e, ast.Call):
            d = dotted(e.func) or ""
            last = d.split(".")[-1]
            if last in ("norm", "abs", "sqrt", "square", "exp", "fabs"):
                return NONNEG if last != "exp" else POS
            if last in ("dot", "vdot", "inner") and len(e.args) == 2 and norm_src(e.args[0]) == norm_src(e.args[1]):
                return NONNEG
            if last in ("where", "if_then_else") and len(e.args) == 3:
                a, b = self.sign(e.args[1], depth - 1), self.sign(e.args[2], depth - 1)
                if a == b:
                    return a
                if is_nonneg(a) and is_nonneg(b):
                    return NONNEG
                if is_nonpos(a) and is_nonpos(b):
                    return NONPOS
                return TOP
            if last in ("mean", "sum", "average", "amax", "amin", "nanmean", "cumsum", "max", "min") and len(e.args) == 1:
                # order-preserving reductions of one array keep a definite sign
                a = self.sign(e.args[0], depth - 1)
                if a in (NONNEG, NONPOS, ZERO):
                    return a
                if a == POS:
                    return POS if last not in ("sum",) else NONNEG
                if a == NEG:
                    return NEG if last not in ("sum",) else NONPOS
                return TOP
            if last in ("maximum", "max") and len(e.args) == 2:
                a, b = self.sign(e.args[0], depth - 1), self.sign(e.args[1], depth - 1)
                if is_nonneg(a) or is_nonneg(b):
                    return POS if POS in (a, b) else NONNEG
            if last in ("minimum", "min") and len(e.args) == 2:
                a, b = self.sign(e.args[0], depth - 1), self.sign(e.args[1], depth - 1)
                if is_nonpos(a) or is_nonpos(b):
                    return NEG if NEG in (a, b) else NONPOS
        if isinstance(e, ast.Name) and self.expander is not None:
            v = self.expander(e.id)
            if v is not None:
                return self.sign(v, depth - 1)
        return TOP


# ------------------------------------------------------------------ NaN polarity

def nan_eval(e, nan_names, resolver=None, depth=8):
    """Three-valued truth (True/False/None) of boolean expression `e` when every comparison that
    mentions a name in `nan_names` evaluates to False (IEEE semantics of NaN operands)."""
    if depth <= 0:
        return None
    if isinstance(e, ast.Compare):
        names = {n.id for n in ast.walk(e) if isinstance(n, ast.Name)}
        if names & set(nan_names):
            if any(isinstance(op, ast.NotEq) for op in e.ops):
                return True if len(e.ops) == 1 else None
            return False
        return None
    if isinstance(e, ast.UnaryOp) and isinstance(e.op, ast.Not):
        v = nan_eval(e.operand, nan_names, resolver, depth - 1)
        return None if v is None else (not v)
    if isinstance(e, ast.BoolOp):
        vals = [nan_eval(v, nan_names, resolver, depth - 1) for v in e.values]
        if isinstance(e.op, ast.And):
            if any(v is False for v in vals):
                return False
            if all(v is True for v in vals):
                return True
            return None
        if any(v is True for v in vals):
            return True
        if all(v is False for v in vals):
            return False
        return None
    if isinstance(e, ast.Constant) and isinstance(e.value, bool):
        return e.value
    if isinstance(e, ast.Name) and resolver is not None:
        v = resolver(e.id)
        if v is not None:
            return nan_eval(v, nan_names, resolver, depth - 1)
    return None


# ------------------------------------------------------------------ homogeneity degree

def degree(e, var_pred, resolver=None, depth=8):
    """Degree of homogeneity (Fraction) of `e` in the quantities selected by var_pred(expr)->bool;
    None when not homogeneous / unknown.  Expressions not involving the variable have degree 0."""
    if depth <= 0:
        return None
    if var_pred(e):
        return Fraction(1)
    if isinstance(e, ast.Constant):
        return Fraction(0)
    if isinstance(e, ast.Name):
        if resolver is not None:
            v = resolver(e.id)
            if v is not None:
                return degree(v, var_pred, resolver, depth - 1)
        return Fraction(0)
    if isinstance(e, ast.Attribute):
        return Fraction(0)
    if isinstance(e, ast.UnaryOp):
        return degree(e.operand, var_pred, resolver, depth - 1)
    if isinstance(e, ast.BinOp):
        a = degree(e.left, var_pred, resolver, depth - 1)
        b = degree(e.right, var_pred, resolver, depth - 1)
        if a is None or b is None:
            return None
        if isinstance(e.op, (ast.Mult, ast.MatMult)):
            return a + b
        if isinstance(e.op, ast.Div):
            return a - b
        if isinstance(e.op, (ast.Add, ast.Sub)):
            return a if a == b else None
        if isinstance(e.op, ast.Pow):
            if b != 0:
                return None
            k = e.right
            if isinstance(k, ast.Constant) and isinstance(k.value, (int, float)):
                return a * Fraction(k.value).limit_denominator(64)
            return None
    if isinstance(e, ast.Call):
        d = dotted(e.func) or ""
        last = d.split(".")[-1]
        args = [degree(a, var_pred, resolver, depth - 1) for a in e.args]
        if any(a is None for a in args):
            return None
        if last in ("norm", "abs", "fabs", "sum", "max", "amax", "array", "asarray", "ravel") and args:
            return args[0]
        if last in ("sqrt",) and args:
            return args[0] / 2
        if last in ("square",) and args:
            return args[0] * 2
        if last in ("dot", "vdot", "inner") and len(args) == 2:
            return args[0] + args[1]
        if all(a == 0 for a in args):
            return Fraction(0)
        return None
    if isinstance(e, ast.Subscript):
        return degree(e.value, var_pred, resolver, depth - 1)
    return None
