"""Thorough tier: keep the checker honest.

Violating variants (one rule instance broken by an in-memory edit of one module -- nothing is
written to disk) must be reported by the named rule; semantics-preserving variants must leave
the verdicts unchanged.  A missed violating variant or a noisy preserving variant makes the run
exit 2 (analysis broken), never 1.
"""
from __future__ import annotations

import ast
import copy
import os
import random
from dataclasses import dataclass
from multiprocessing import Pool
from typing import Callable, Optional


@dataclass
class Variant:
    name: str
    relpath: str
    edit: Callable            # src -> new src | None (inapplicable on this tree)
    expect: Optional[str]     # rule prefix that must be REFUTED; None => preserving variant


# ------------------------------------------------------------------ edit helpers

def sub(old: str, new: str, count_required=1):
    """Textual replacement that applies only when `old` occurs exactly `count_required` times
    (variants are test inputs of the checker, not rules; an inapplicable one is skipped)."""
    def f(src):
        if src.count(old) != count_required:
            return None
        return src.replace(old, new)
    return f


def sub_in_func(func: str, old: str, new: str, nth=0):
    """Replace the nth occurrence of `old` inside the source segment of top-level function
    (or Class.method) `func`."""
    def f(src):
        try:
            tree = ast.parse(src)
        except SyntaxError:
            return None
        target = None
        parts = func.split(".")
        body = tree.body
        node = None
        for p in parts:
            node = None
            for st in body:
                if isinstance(st, (ast.FunctionDef, ast.ClassDef)) and st.name == p:
                    node = st
            if node is None:
                return None
            body = node.body
        lines = src.split("\n")
        start, end = node.lineno - 1, node.end_lineno
        seg = "\n".join(lines[start:end])
        idx = -1
        pos = 0
        for _ in range(nth + 1):
            idx = seg.find(old, pos)
            if idx < 0:
                return None
            pos = idx + len(old)
        seg2 = seg[:idx] + new + seg[idx + len(old):]
        out = "\n".join(lines[:start]) + ("\n" if start else "") + seg2 + "\n" + "\n".join(lines[end:])
        try:
            ast.parse(out)
        except SyntaxError:
            return None
        return out
    return f


class _Renamer(ast.NodeTransformer):
    def __init__(self, mapping):
        self.mapping = mapping

    def visit_Name(self, n):
        if n.id in self.mapping:
            return ast.copy_location(ast.Name(id=self.mapping[n.id], ctx=n.ctx), n)
        return n

    def visit_arg(self, n):
        return n


def _local_names(fn: ast.FunctionDef):
    """Names assigned in fn (not params, not nested function names, not globals/nonlocals) and
    not captured by nested scopes -- safe to alpha-rename."""
    params = {a.arg for a in fn.args.posonlyargs + fn.args.args + fn.args.kwonlyargs}
    if fn.args.vararg:
        params.add(fn.args.vararg.arg)
    if fn.args.kwarg:
        params.add(fn.args.kwarg.arg)
    assigned = set()
    nested_used = set()
    banned = set()

    def walk(n, nested):
        for ch in ast.iter_child_nodes(n):
            if isinstance(ch, (ast.FunctionDef, ast.Lambda, ast.ClassDef, ast.ListComp, ast.SetComp,
                               ast.DictComp, ast.GeneratorExp)):
                if isinstance(ch, (ast.FunctionDef, ast.ClassDef)):
                    banned.add(ch.name)
                for w in ast.walk(ch):
                    if isinstance(w, ast.Name):
                        nested_used.add(w.id)
                    if isinstance(w, ast.arg):
                        nested_used.add(w.arg)
                continue
            if isinstance(ch, (ast.Global, ast.Nonlocal)):
                banned.update(ch.names)
            if isinstance(ch, ast.Name) and isinstance(ch.ctx, ast.Store):
                assigned.add(ch.id)
            walk(ch, nested)
    walk(fn, False)
    return sorted(assigned - params - nested_used - banned)


def _deep_local_names(fn: ast.FunctionDef):
    """Locals of fn that may be renamed everywhere inside fn, nested scopes included: assigned in fn's own scope, not a parameter,
    not the name of a nested def/class, not global/nonlocal, and not re-bound (parameter / assignment / loop target) by any nested scope."""
    params = {a.arg for a in fn.args.posonlyargs + fn.args.args + fn.args.kwonlyargs}
    if fn.args.vararg:
        params.add(fn.args.vararg.arg)
    if fn.args.kwarg:
        params.add(fn.args.kwarg.arg)
    own, banned, nested_bound = set(), set(), set()

    def walk(n):
        for ch in ast.iter_child_nodes(n):
            if isinstance(ch, (ast.FunctionDef, ast.Lambda, ast.ClassDef, ast.ListComp, ast.SetComp, ast.DictComp, ast.GeneratorExp)):
                if isinstance(ch, (ast.FunctionDef, ast.ClassDef)):
                    banned.add(ch.name)
                for w in ast.walk(ch):
                    if isinstance(w, ast.arg):
                        nested_bound.add(w.arg)
                    if isinstance(w, ast.Name) and isinstance(w.ctx, ast.Store):
                        nested_bound.add(w.id)
                    if isinstance(w, (ast.FunctionDef, ast.ClassDef)):
                        banned.add(w.name)
                    if isinstance(w, (ast.Global, ast.Nonlocal)):
                        banned.update(w.names)
                continue
            if isinstance(ch, (ast.Global, ast.Nonlocal)):
                banned.update(ch.names)
            if isinstance(ch, ast.Name) and isinstance(ch.ctx, ast.Store):
                own.add(ch.id)
            walk(ch)
    walk(fn)
    return sorted(own - params - banned - nested_bound)


def alpha_rename(func: str, suffix="_rn", deep=False):
    """Preserving edit: rename every safely renamable local of function `func` (a dotted path through classes and
    enclosing functions, e.g. `Class.method` or `outer.inner`; a bare name is a top-level function)."""
    path = func.split(".")

    def find(body, k):
        for st in body:
            if isinstance(st, (ast.FunctionDef, ast.ClassDef)) and st.name == path[k]:
                if k == len(path) - 1:
                    return (body, st) if isinstance(st, ast.FunctionDef) else None
                return find(st.body, k + 1)
            if isinstance(st, (ast.If, ast.With, ast.Try, ast.For, ast.While)):
                for blk in ("body", "orelse", "finalbody"):
                    r = find(getattr(st, blk, []) or [], k)
                    if r:
                        return r
        return None

    def f(src):
        tree = ast.parse(src)
        hit = find(tree.body, 0)
        if not hit:
            return None
        body, st = hit
        names = _deep_local_names(st) if deep else _local_names(st)
        if not names:
            return None
        mapping = {n: n + suffix for n in names}
        # avoid collisions
        allnames = {w.id for w in ast.walk(st) if isinstance(w, ast.Name)}
        if any(v in allnames for v in mapping.values()):
            return None
        new = _Renamer(mapping).visit(copy.deepcopy(st))
        body[body.index(st)] = new
        ast.fix_missing_locations(tree)
        return ast.unparse(tree)
    return f


def reformat():
    """Preserving edit: round-trip the module through ast.unparse (drops comments, changes all
    line numbers and layout)."""
    def f(src):
        return "\n\n\n" + ast.unparse(ast.parse(src))
    return f


class _Commuter(ast.NodeTransformer):
    """Swap operands of commutative scalar operators `+`/`*` where both operands are plain
    names/constants/attributes (no calls, so evaluation order is irrelevant) and of `and`/`or`
    is NOT touched (short-circuit)."""
    def visit_BinOp(self, n):
        self.generic_visit(n)
        simple = (ast.Name, ast.Constant, ast.Attribute)
        if isinstance(n.op, (ast.Add, ast.Mult)) and isinstance(n.left, simple) and isinstance(n.right, simple):
            return ast.copy_location(ast.BinOp(left=n.right, op=n.op, right=n.left), n)
        return n


def commute(func: str):
    def f(src):
        tree = ast.parse(src)
        for i, st in enumerate(tree.body):
            if isinstance(st, ast.FunctionDef) and st.name == func:
                tree.body[i] = _Commuter().visit(copy.deepcopy(st))
                ast.fix_missing_locations(tree)
                out = ast.unparse(tree)
                return out if out != ast.unparse(ast.parse(src)) else None
        return None
    return f


# ------------------------------------------------------------------ running

def _summ(ctx):
    ref = sorted(o.key() for o in ctx.obligations if o.verdict == "REFUTED")
    und = sorted(o.key() for o in ctx.obligations if o.verdict == "UNDECIDED")
    return ref, und


def _work(args):
    prop, relpath, newsrc, seed = args
    import sys
    verif = os.path.dirname(os.path.dirname(os.path.abspath(__file__)))
    if verif not in sys.path:
        sys.path.insert(0, verif)
    from optilint.main import run_rules
    try:
        mod, ctx = run_rules(prop, "quick", seed, overrides={relpath: newsrc}, quiet=True)
        return _summ(ctx) + (None,)
    except Exception as e:  # analyser crash on a variant = broken
        import traceback
        return [], [], traceback.format_exc()


def run_selftest(prop, mod, base_ctx, seed):
    if not hasattr(mod, "variants"):
        return {"variants": 0, "note": "no variant generator for this property"}
    variants = list(mod.variants(base_ctx.repo))
    # automatic preserving variants: alpha-rename the locals of every function the rules looked at (rules must find
    # variables by role, never by name)
    have = {v.name for v in variants}
    for q in sorted(base_ctx.analysed_functions):
        mname, _, fpath = q.partition(":")
        m = base_ctx.repo.modules.get(mname)
        if m is None or not fpath or "<" in fpath or getattr(m, "is_test", False):
            continue
        nm = f"auto alpha-rename {mname.split('.')[-1]}.{fpath}"
        if nm in have or f"alpha-rename {fpath}" in have:
            continue
        have.add(nm)
        variants.append(Variant(nm, os.path.relpath(m.path, base_ctx.repo.root), alpha_rename(fpath), None))
        variants.append(Variant(nm.replace("auto alpha", "auto deep alpha"), os.path.relpath(m.path, base_ctx.repo.root), alpha_rename(fpath, suffix="_dr", deep=True), None))
    base_ref, base_und = _summ(base_ctx)
    jobs = []
    skipped = []
    for v in variants:
        path = os.path.join(base_ctx.repo.root, v.relpath)
        try:
            src = open(path).read()
        except OSError:
            skipped.append(v.name)
            continue
        try:
            new = v.edit(src)
        except Exception:
            new = None
        if new is None or new == src:
            skipped.append(v.name)
            continue
        try:
            compile(new, v.relpath, "exec")
        except SyntaxError:
            skipped.append(v.name)
            continue
        jobs.append((v, (prop, v.relpath, new, seed)))
    results = []
    if jobs:
        n = min(16, len(jobs))
        if n > 1:
            with Pool(n) as pool:
                results = pool.map(_work, [j[1] for j in jobs])
        else:
            results = [_work(jobs[0][1])]
    broken = []
    detected = silent = nviol = npres = 0
    samples = []
    for (v, _), (ref, und, err) in zip(jobs, results):
        new_ref = [k for k in ref if k not in base_ref]
        new_und = [k for k in und if k not in base_und]
        if err:
            broken.append(f"variant '{v.name}': analyser crashed: {err.strip().splitlines()[-1]}")
            continue
        if v.expect is not None:
            nviol += 1
            hit = [k for k in new_ref if k.startswith(f"{prop}.{v.expect}")]
            if hit:
                detected += 1
                if len(samples) < 12:
                    samples.append({"variant": v.name, "kind": "violating", "reported": hit[0]})
            else:
                broken.append(f"violating variant '{v.name}' ({v.relpath}) not reported by rule {prop}.{v.expect}"
                              f" (new refutations: {new_ref[:2]}, new undecided: {new_und[:2]})")
        else:
            npres += 1
            if new_ref or new_und:
                broken.append(f"preserving variant '{v.name}' ({v.relpath}) changed verdicts: "
                              f"refuted {new_ref[:2]} undecided {new_und[:2]}")
            else:
                silent += 1
                if len(samples) < 12:
                    samples.append({"variant": v.name, "kind": "preserving", "reported": None})
    return {"variants": len(variants), "applied": len(jobs), "skipped_inapplicable": skipped,
            "violating": nviol, "violating_detected": detected,
            "preserving": npres, "preserving_silent": silent,
            "broken": broken, "samples": samples}
