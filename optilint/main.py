"""CLI: ./check <property> [--tier quick|thorough] [--replay file]

exit 0: every obligation proved (or matched a listed known finding)
exit 1: at least one unlisted refutation (one VIOLATION line each)
exit 2: analysis incomplete / broken (never a VIOLATION line)
"""
import argparse
import importlib
import json
import os
import sys
import time
import traceback

HERE = os.path.dirname(os.path.abspath(__file__))
VERIF = os.path.dirname(HERE)
sys.path.insert(0, VERIF)

from optilint.core import Ctx, Incomplete, finish, UNDECIDED  # noqa: E402


def run_rules(prop, tier, seed, overrides=None, quiet=False, repo=None):
    mod = importlib.import_module(f"rules.{prop}")
    ctx = Ctx(prop, tier, seed, overrides=overrides, quiet=quiet, repo=repo)
    from rules import common as _common
    _common.REPO = ctx.repo
    if ctx.repo.parse_errors:
        for (p, e) in ctx.repo.parse_errors:
            ctx.undecided("parse", None, None, construct=os.path.relpath(p, ctx.repo.root), detail=f"cannot parse: {e}")
    try:
        mod.run(ctx)
    except Incomplete as e:
        ctx.undecided("anchor", None, None, construct=str(e), detail=str(e))
    return mod, ctx


def main(argv=None):
    ap = argparse.ArgumentParser()
    ap.add_argument("prop")
    ap.add_argument("--tier", default=os.environ.get("VERIF_TIER", "quick"), choices=["quick", "thorough"])
    ap.add_argument("--replay", default=None)
    ap.add_argument("--no-write", action="store_true")
    a = ap.parse_args(argv)
    seed = int(os.environ.get("VERIF_SEED", "0") or 0)
    t0 = time.time()
    prop = a.prop
    try:
        mod, ctx = run_rules(prop, a.tier, seed)
        if a.replay:
            with open(a.replay) as f:
                rp = json.load(f)
            want = rp["obligation"]
            print(f"replaying {want['rule']} [{want['function']}] {want['construct']}")
            hit = [o for o in ctx.obligations
                   if o.rule == want["rule"] and o.function == want["function"] and o.construct == want["construct"]]
            for o in hit:
                print(f"  now: {o.verdict} at {o.where}: {o.detail}")
                for k, v in o.facts.items():
                    print(f"     {k}: {v}")
            if not hit:
                print("  obligation no longer instantiated on the current tree")
            bad = [o for o in hit if o.verdict == "REFUTED"]
            if bad:
                print(f"VIOLATION property={prop} replay={a.replay}")
                return 1
            return 0
        selftest = None
        if a.tier == "thorough":
            from optilint.selftest import run_selftest
            selftest = run_selftest(prop, mod, ctx, seed)
        cmd = f"./check {prop} --tier {a.tier}"
        return finish(ctx, getattr(mod, "LEVEL", "other"), t0, cmd,
                      getattr(mod, "EXPLANATION", ""), getattr(mod, "RULE_TEXT", ""),
                      selftest=selftest, write=not a.no_write)
    except Exception:
        traceback.print_exc()
        print(f"ANALYSIS-ERROR property={prop}: internal error in the analyser (see traceback above)")
        return 2


if __name__ == "__main__":
    sys.exit(main())
