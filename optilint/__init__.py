"""optilint -- a repository-specific static analyser for sandialabs/optimism.

Pure standard library (ast only).  Nothing in this package imports or executes
the analysed code.
"""
