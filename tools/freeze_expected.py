#!/usr/bin/env python3
"""Freeze the per-rule obligation counts of the current (hand-confirmed) tree into rules/expected.json.
Floors: 50% of the counts on the hand-confirmed tree (de-duplicating refactorings legitimately merge instances; every rule also has its own anchors and completeness conditions), contract minima where a rule states one."""
import json, os, sys
V = os.path.dirname(os.path.dirname(os.path.abspath(__file__)))
exp_p = os.path.join(V, "rules", "expected.json")
exp = json.load(open(exp_p)) if os.path.exists(exp_p) else {}
# rules whose own completeness condition fixes the minimum independent of how the code is laid out
CONTRACT_MIN = {("C20", "D2/T6-padding-record-shape"): 3}     # one padding record per field type; the rule itself demands all three in every branch
for pid in sys.argv[1:]:
    ev = json.load(open(os.path.join(V, "evidence", f"{pid}.json")))
    by = ev["coverage"]["obligations_by_rule"]
    exp[pid] = {r: max(1, int(n * 0.5)) for r, n in sorted(by.items())}
    for (p_, r_), n_ in CONTRACT_MIN.items():
        if p_ == pid and r_ in exp[pid]:
            exp[pid][r_] = min(exp[pid][r_], n_)
json.dump(exp, open(exp_p, "w"), indent=1, sort_keys=True)
print("frozen", sys.argv[1:])
