#!/usr/bin/env python3
"""Freeze the per-rule obligation counts of the current (hand-confirmed) tree into rules/expected.json.
Floors: 60% for link-integrity rules (cone size moves with harmless refactors), 80% otherwise."""
import json, os, sys
V = os.path.dirname(os.path.dirname(os.path.abspath(__file__)))
exp_p = os.path.join(V, "rules", "expected.json")
exp = json.load(open(exp_p)) if os.path.exists(exp_p) else {}
for pid in sys.argv[1:]:
    ev = json.load(open(os.path.join(V, "evidence", f"{pid}.json")))
    by = ev["coverage"]["obligations_by_rule"]
    exp[pid] = {r: max(1, int(n * (0.6 if "T10-link" in r else 0.8))) for r, n in sorted(by.items())}
json.dump(exp, open(exp_p, "w"), indent=1, sort_keys=True)
print("frozen", sys.argv[1:])
