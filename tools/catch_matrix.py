#!/usr/bin/env python3
"""Applies every kept seeded change (/verif/seeded/<id>/patch.diff) to /repo, runs the check of the property it breaks
(quick tier, --no-write), reverts, and writes seeded/CATCH_MATRIX.json.  /repo must be clean."""
import json, os, subprocess, sys
V = os.path.dirname(os.path.dirname(os.path.abspath(__file__)))
out = {}
st = subprocess.run(["git", "-C", "/repo", "status", "--porcelain"], capture_output=True, text=True).stdout.strip()
if st:
    sys.exit("refusing: /repo is not clean")
for sid in sorted(os.listdir(os.path.join(V, "seeded"))):
    d = os.path.join(V, "seeded", sid)
    if not os.path.isfile(os.path.join(d, "patch.diff")):
        continue
    prop = json.load(open(os.path.join(d, "meta.json")))["property"]
    r = subprocess.run(["git", "-C", "/repo", "apply", os.path.join(d, "patch.diff")], capture_output=True, text=True)
    if r.returncode != 0:
        out[sid] = {"property": prop, "result": "patch does not apply to the current /repo HEAD", "rules": []}
        continue
    try:
        c = subprocess.run([os.path.join(V, "check"), prop, "--no-write"], capture_output=True, text=True)
        rules = sorted({l.split()[1] for l in c.stdout.splitlines() if l.startswith("REFUTED ")})
        out[sid] = {"property": prop, "exit": c.returncode, "result": "caught" if c.returncode == 1 else ("missed" if c.returncode == 0 else "analysis-incomplete"),
                    "rules": rules}
        if c.returncode != 1:
            # the changed function may be an anchor of a sibling property (listed by hand in meta.json: "also_check"); say so, do not count it as caught by its own check
            meta = json.load(open(os.path.join(d, "meta.json")))
            for q in meta.get("also_check", []):
                c2 = subprocess.run([os.path.join(V, "check"), q, "--no-write"], capture_output=True, text=True)
                if c2.returncode == 1:
                    r2 = sorted({l.split()[1] for l in c2.stdout.splitlines() if l.startswith("REFUTED ")})
                    out[sid]["result"] += f" by {prop}; reported by the check of {q}"
                    out[sid]["rules"] = r2
                    break
    finally:
        subprocess.run(["git", "-C", "/repo", "checkout", "--", "."])
        subprocess.run(["git", "-C", "/repo", "clean", "-fdq", "--", "optimism"])
    print(sid, out[sid]["result"], ",".join(out[sid]["rules"]))
json.dump(out, open(os.path.join(V, "seeded", "CATCH_MATRIX.json"), "w"), indent=1)
n = sum(1 for v in out.values() if v["result"] == "caught")
n2 = sum(1 for v in out.values() if "reported by the check of" in v["result"])
print(f"caught {n} of {len(out)} by the check of the property they were seeded for, {n2} more by the check of a sibling property")
