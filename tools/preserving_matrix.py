#!/usr/bin/env python3
"""Applies every kept behaviour-preserving refactoring (/verif/preserving/<id>/patch.diff) to /repo, runs the check of the property
whose anchor functions it rewrites (quick tier, --no-write), reverts, and writes preserving/SILENCE_MATRIX.json.
Expected: exit 0 (silent).  exit 2 = the analysis did not recognise the new shape (incomplete, no alarm); exit 1 = false alarm."""
import json, os, subprocess, sys
V = os.path.dirname(os.path.dirname(os.path.abspath(__file__)))
out = {}
st = subprocess.run(["git", "-C", "/repo", "status", "--porcelain"], capture_output=True, text=True).stdout.strip()
if st:
    sys.exit("refusing: /repo is not clean")
only = set(sys.argv[1:])
root = os.path.join(V, "preserving")
for sid in sorted(os.listdir(root)):
    d = os.path.join(root, sid)
    if not os.path.isfile(os.path.join(d, "patch.diff")):
        continue
    prop = json.load(open(os.path.join(d, "meta.json")))["property"]
    if only and prop not in only and sid not in only:
        continue
    r = subprocess.run(["git", "-C", "/repo", "apply", os.path.join(d, "patch.diff")], capture_output=True, text=True)
    if r.returncode != 0:
        out[sid] = {"property": prop, "result": "patch does not apply to the current /repo HEAD", "lines": []}
        continue
    try:
        c = subprocess.run([os.path.join(V, "check"), prop, "--no-write"], capture_output=True, text=True)
        lines = [l[:300] for l in c.stdout.splitlines() if l.startswith(("REFUTED ", "ANALYSIS-"))]
        out[sid] = {"property": prop, "exit": c.returncode,
                    "result": {0: "silent", 1: "FALSE ALARM", 2: "analysis incomplete"}.get(c.returncode, "?"), "lines": lines[:6]}
    finally:
        subprocess.run(["git", "-C", "/repo", "checkout", "--", "."])
        subprocess.run(["git", "-C", "/repo", "clean", "-fdq", "--", "optimism"])
    print(sid, out[sid]["result"])
    sys.stdout.flush()
if not only:
    json.dump(out, open(os.path.join(root, "SILENCE_MATRIX.json"), "w"), indent=1)
n = sum(1 for v in out.values() if v["result"] == "silent")
print(f"silent {n} of {len(out)}")
