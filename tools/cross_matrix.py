#!/usr/bin/env python3
"""Every kept behaviour-preserving refactoring against EVERY property's check (a refactoring of EquationSolver.py written for C06 must also
leave C01, C05, C19 ... silent).  Uses a scratch git worktree of /repo outside /repo and /verif (removed afterwards) and OPTILINT_REPO, so
/repo itself is not touched.  Writes preserving/CROSS_MATRIX.json: for each refactoring the properties that are not silent."""
import json, os, subprocess, sys, shutil
from concurrent.futures import ThreadPoolExecutor
V = os.path.dirname(os.path.dirname(os.path.abspath(__file__)))
WT = "/tmp/xw_cross"
props = [f"C{i:02d}" for i in range(1, 21)]
only = set(sys.argv[1:])
root = os.path.join(V, "preserving")
subprocess.run(["git", "-C", "/repo", "worktree", "remove", "--force", WT], capture_output=True)
subprocess.run(["git", "-C", "/repo", "worktree", "add", "-q", "--detach", WT, "HEAD"], check=True)
out = {}


def run(p):
    env = dict(os.environ, OPTILINT_REPO=WT)
    c = subprocess.run([os.path.join(V, "check"), p, "--no-write"], capture_output=True, text=True, env=env)
    lines = [l[:240] for l in c.stdout.splitlines() if l.startswith(("REFUTED ", "ANALYSIS-"))]
    return p, c.returncode, lines[:3]


try:
    for sid in sorted(os.listdir(root)):
        d = os.path.join(root, sid)
        pf = os.path.join(d, "patch.diff")
        if not os.path.isfile(pf) or (only and sid not in only and sid.split("-")[0] not in only):
            continue
        subprocess.run(["git", "-C", WT, "checkout", "-q", "--", "."], check=True)
        subprocess.run(["git", "-C", WT, "clean", "-fdq"], check=True)
        r = subprocess.run(["git", "-C", WT, "apply", pf], capture_output=True, text=True)
        if r.returncode != 0:
            out[sid] = {"error": "patch does not apply"}
            continue
        with ThreadPoolExecutor(max_workers=14) as ex:
            res = list(ex.map(run, props))
        bad = {p: {"exit": rc, "lines": ls} for p, rc, ls in res if rc != 0}
        out[sid] = bad
        print(sid, "all silent" if not bad else " ".join(f"{p}:{v['exit']}" for p, v in bad.items()))
        sys.stdout.flush()
finally:
    subprocess.run(["git", "-C", "/repo", "worktree", "remove", "--force", WT], capture_output=True)
    shutil.rmtree(WT, ignore_errors=True)
if not only:
    json.dump(out, open(os.path.join(root, "CROSS_MATRIX.json"), "w"), indent=1)
n = sum(1 for v in out.values() if not v)
print(f"silent for all 20 properties: {n} of {len(out)}")
