#!/usr/bin/env python3
"""Regenerates the generated blocks of DESIGN.md from evidence/*.json (rule table) and seeded/CATCH_MATRIX.json (catch matrix)."""
import json, os, re, glob
V = os.path.dirname(os.path.dirname(os.path.abspath(__file__)))
man = json.load(open(os.path.join(V, "MANIFEST.json")))
levels = {c["property_id"]: c.get("level_claimed", {}).get("category", "?") if isinstance(c.get("level_claimed"), dict) else "?" for c in man.get("checks", [])}
rows = ["| prop | level | rules (obligations on the reference tree) | total |", "|---|---|---|---|"]
for f in sorted(glob.glob(os.path.join(V, "evidence", "C*.json"))):
    d = json.load(open(f))
    pid = d["property_id"]
    by = d["coverage"].get("obligations_by_rule", {})
    rules = ", ".join(f"{k} ({v})" for k, v in sorted(by.items()))
    rows.append(f"| {pid} | {d.get('level', levels.get(pid, '?'))} | {rules} | {sum(by.values())} |")
rule_block = "\n".join(rows)
cm_path = os.path.join(V, "seeded", "CATCH_MATRIX.json")
cm_block = "(not generated yet)"
if os.path.exists(cm_path):
    cm = json.load(open(cm_path))
    r2 = ["| seeded change | file(s) | result | reporting rule(s) |", "|---|---|---|---|"]
    for sid in sorted(cm):
        meta = json.load(open(os.path.join(V, "seeded", sid, "meta.json")))
        files = ", ".join(os.path.basename(x) for x in meta.get("files_changed", []))
        r2.append(f"| {sid} | {files} | {cm[sid]['result']} | {', '.join(x.split('.', 1)[1] for x in cm[sid]['rules'])} |")
    n = sum(1 for v in cm.values() if v["result"] == "caught")
    r2.append(f"\n{n} of {len(cm)} kept seeded changes are reported by the check of the property they break (quick tier).")
    cm_block = "\n".join(r2)
p = os.path.join(V, "DESIGN.md")
s = open(p).read()
for tag, block in (("RULES", rule_block), ("CATCH", cm_block)):
    b, e = f"<!-- {tag}-BEGIN -->", f"<!-- {tag}-END -->"
    if b in s and e in s:
        s = s[:s.index(b) + len(b)] + "\n" + block + "\n" + s[s.index(e):]
    else:
        s += f"\n\n{b}\n{block}\n{e}\n"
open(p, "w").write(s)
print("DESIGN.md tables regenerated")
