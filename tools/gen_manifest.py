#!/usr/bin/env python3
"""Regenerates /verif/MANIFEST.json from the table below (single source of truth for claims)."""
import json
import os

VERIF = os.path.dirname(os.path.dirname(os.path.abspath(__file__)))

TRUST = ("Trusted base: python ast; the optilint resolver/CFG (validated on every thorough run by violating and "
         "semantics-preserving variants); per-rule tables of mathematical facts about library calls, listed in "
         "the evidence file under trusted_base. Admissibility assumptions are listed under assumptions.")

CLAIMS = {
    "C02": dict(
        category="other",
        text=("Decides: (D1) link integrity (arity, keyword names, tuple-unpack widths, attributes of the containers) of every call in the cones of the "
              "three mechanics factories; (D2/D3) identities between *results* of abstractly interpreting Mechanics.py and FunctionSpace.py "
              "(rules/C02_model.py, an extension of optilint.tensoreval) on a 3-element, 5-node, 2-quadrature-point mesh whose fields, shape data, "
              "volumes and internal variables are independent symbols, with material models, compute_shapes, linalg.solve and sqrt as uninterpreted "
              "functions and jax.hessian / jacobian-of-gradient recorded as requests: the array an element-stiffness closure returns is, per element, "
              "sum_k c_k * Hessian_k of functions of U[conns[e],:] (plus a U-independent shift) and nothing else depends on U; energy(U) - sum_e "
              "G_e(U) is affine in U for each factory x mode2D x pressureProjectionDegree in (None, 0, 1), split into strain and inertia terms (a "
              "different hook, density, Newmark parameter or linearisation point is named); every closure of a factory hands the material the same "
              "displacement gradient, which is [[grad u,0],[0,0]] for plane strain and carries u_r/r for axisymmetric, and degree 0 changes the "
              "kinematics as degree 1 does, consistently between sibling factories; the two FunctionSpace integrators satisfy their contract (hook "
              "roles, density roles, quadrature-volume weights); the kinetic energy is quadratic in V; the multi-block factory agrees block by block "
              "(non-contiguous blocks) with the single-block factory of that block's material (energy parts, Hessian requests, state update, initial "
              "state, output fields), and a vmap over operands of different lengths (an unrestricted operand) is a derived defect. Proofs are for the "
              "interpreted configuration (3-node elements, 2 quadrature points); code that branches on element order is explored for that "
              "configuration only. A kernel that cannot be executed becomes an uninterpreted application: equalities stay sound, differences "
              "become UNDECIDED. Numerical equality with jax.hessian, COO arithmetic and symmetry of the assembled matrix are NOT decided."),
        design_ref="DESIGN.md section 4, C02 and section 11.8",
        technique="static analysis: call-graph link checking; abstract interpretation on a symbolic small configuration with uninterpreted functions and recorded differentiation requests; polynomial identities between results"),
}

CLAIMS["C07"] = dict(
    category="other",
    text=("Decides structural necessary conditions of 'reverse-mode sensitivities equal IFT derivatives', read off the values of a symbolic "
          "term interpretation of the source (rules/C07_sym.py: opaque terms, records, closures compared extensionally, vjp/jvp as "
          "first-class derivative terms, a mutable attribute heap for Objective, forking on undecidable conditions, namedtuple-typed "
          "symbols so that p[k] / p.field / _replace / unpacking denote the same slot; straight-line helpers inlined): (D1) link integrity "
          "(arity, tuple-unpack width, attributes) of the reverse-rule cones; (D2) for each jax.custom_vjp triple, fwd's output is the "
          "primal on its own arguments, the objective's parameter cell at the end of the primal equals the cell at every Hessian / VJP use in "
          "bwd, every derivative is linearised at the returned solution, cotangent slot k is vjp(q -> R(u, p[k:=q]), p[k])(lam)[0] and is "
          "None exactly when p[k] is None, the guess cotangent is zero; (D3) param_index_update is evaluated for every slot, Objective's "
          "derivative closures vary their own p argument (not self.p), public methods agree with the slot/side their name announces, every "
          "MechanicsInverse callable forwards every argument and differentiates only the announced one; (D4) the adjoint sign convention: lam is "
          "[0] of the single CG solve with the cotangent as linear term, an unbounded radius and operator w -> H w (signs multiplied out), one "
          "generic CG iteration interpreted (first direction -M r, step and residual recurrence); (D5) the adjoint function-space constructor "
          "equals, field by field and for every mode literal, the ordinary constructor evaluated on the moved mesh. Numerical equality with "
          "dense IFT derivatives is NOT decided. A named-value difference is REFUTED; a structurally different computation the interpreter "
          "cannot normalise is UNDECIDED."),
    design_ref="DESIGN.md section 4, C07",
    technique="static analysis: call-graph link checking; symbolic term interpretation of the custom_vjp triples, derivative closures and constructors with extensional closure comparison")

CLAIMS["C01"] = dict(
    category="other",
    text=("Decided on the paths of a path-enumerating symbolic execution of EquationSolver (rules/C01_symx.py: exact polynomial values over "
          "canonical opaque atoms incl. quotients; nested defs, lambdas, partial, private helpers, methods and small classes inlined; tuples / "
          "namedtuples / dicts / attribute cells tracked per component; every decided comparison kept per path as a set of outcomes {<0, =0, >0, "
          "NaN}; loops generalised by the relations every continuing iteration keeps; loop-containing helpers spliced into the caller's CFG) with "
          "obligations over roles, not names (rules/C01_tr.py: the iterate is what a loop relation ties to the last point handed to the "
          "callback, the ratio is the compared quotient, the radius is what holds settings.tr_size on loop entry): (D1) a True flag is returned "
          "only behind the convergence test applied to the returned point's own gradient, the test is a NaN-safe upper bound homogeneous with "
          "settings.tol, the objective's parameters are assigned before the solve and after the warm start (call events with heap snapshots, incl. "
          "the scaled-coordinate round trip), Objective's methods use the current p after p was replaced, the caller gets the solver's own flag; "
          "(D2) in default mode an accepted step satisfies value(x+d) - value(x) <= 0: acceptance => ratio >= c >= 0, the denominator's sign on "
          "that path, numerator = -(value(new) - value(current)); (D3) accepted iterates are reported and exits return the reported point; (D4) "
          "a NaN ratio is not accepted and shrinks the radius; is_on_boundary recognises every boundary label the inner solver emits; the "
          "settings factories fill fields by name. The descent clause is decided in default mode only; a callback is assumed. A failed equality "
          "refutes only if the two sides differ in known structure, otherwise UNDECIDED. Convergence for every objective is NOT decided."),
    design_ref="DESIGN.md section 4, C01 and section 11.8",
    technique="static analysis: path-enumerating symbolic execution over the statement CFG with exact polynomial values, four-valued comparison outcomes (NaN), loop-relation generalisation; role-based obligations")

CLAIMS["C05"] = dict(
    category="other",
    text=("Decided on the events (path conditions, assignments, calls with bound arguments, returns, must-log of calls) of a symbolic execution "
          "of TrustRegionSPG (rules/C05_sym.py: exact polynomial terms over atoms, helpers / nested defs / lambdas inlined, if-merges as "
          "decision trees, loops solved by induction with verified relational invariants): (D1) every success exit's path condition "
          "contains a positively true `measure^k < c*tol^k` whose measure is the norm of clamp(P - gradient(P), bounds) - P at the returned "
          "point P (a NaN cannot pass); (D2) every acceptance scenario bounds the ratio (objective(old) - objective(new))/model decrease "
          "below by a threshold >= 0 with a denominator of known sign, and the reference objective value is fresh (a stale one fails its loop "
          "invariant); (D3/T9) feasibility by box-point algebra: every point handed to the objective / returned is a convex combination "
          "(weights in [0,1] summing to 1 by interval arithmetic under the path facts) of clamp(., lo, hi) atoms of the driver's box, per "
          "function under its contract and once more fully inlined; bounds columns are the equally scaled lower/upper bounds; (D3/T2) every "
          "accepted iterate is reported before the next iteration / exit; (D4) three-valued evaluation of the acceptance for a NaN / -inf "
          "ratio: not accepted, radius shrunk; (T6) the two trust-region drivers agree on the acceptance truth table; parameters are installed "
          "before the solve; the settings factory fills fields by name; (D3/T2-root-finder-bracket) on every path to a bracketing root finder "
          "the path condition implies a sign change of the callable over the bracket (value at the far end = the negated early-exit guard, "
          "-trSize^2 at the centre under the recorded assumption that the centre is feasible), else an exact 1-D witness refutes. Step "
          "lengths >= 0, the accuracy of the brentq result and optimality for convex problems are NOT decided. REFUTED only for values the executor fully models; unmodelled library calls give UNDECIDED."),
    design_ref="DESIGN.md section 4, C05 and section 11.8.1",
    technique="static analysis: symbolic execution of the source into exact polynomial terms with loop invariants; box-point (convex combination) algebra; three-valued (NaN) evaluation of guards")

CLAIMS["C04"] = dict(
    category="other",
    text=("Decided by interpreting the augmented-Lagrangian driver, the objective classes and the bound-constrained front end on symbolic inputs "
          "(rules/C04_sym.py: exact rational normal forms over interned atoms; where / c*a+(1-c)*b / merged branches / np.select become one "
          "indicator form, norm / sqrt(v@v) / sum(v**2) one term, .at[m].set / .multiply / where one term, hstack sliced by symbolic sizes, "
          "derivatives as D[f; argnum](args) terms, user functions uninterpreted; records, closures, partial, repository classes with "
          "properties; mergeable ifs become indicator values, otherwise the path forks; loops are generalised by a fixpoint over the cells written "
          "in the body; a sampler builds witness points): (D1/T1) on every returning path total_residual(x_ret), evaluated in the state at the "
          "return, is bounded by a decided comparison of the path with tol - B >= 0, and objective.p is the argument p; (D1/T5) total_residual(x) "
          "is the stack of D_0[L](x, p, lam, kappa) and FB(G(x,p), lam, k>0) with L checked extensionally against create_augmented_lagrangian and "
          "the NCP zero set decided by exact identity plus sample points; (D2 / D3 / D4) at every back edge or return of the loop that contains "
          "the sub-problem solve: lam_end >= 0, kappa_end - kappa_head >= 0, lam_end = max(lam - kappa G(x_sub), 0), rejected second-order trials "
          "restore the multipliers of the loop head; the penalty arms are C0/C1 on the switching surface (where and max form), the "
          "preconditioner stiffness equals d2W/dc2; penalties at the return of bound_constrained_solve are those at the start of the AL solve; "
          "settings constructors put each parameter into the field of its own name; (D5) homogeneity degrees of the diagonal scaling computed on "
          "the interpreted values. D2-D4 are stated for iterations with use_newton_only false; a negated comparison is read as the opposite "
          "comparison (NaN ignored, recorded as an assumption). REFUTED only from an exact algebraic inequality, a witness point, or a path whose "
          "decided tests are all understood; everything else is UNDECIDED."),
    design_ref="DESIGN.md section 4, C04 and section 11.8.4",
    technique="static analysis: symbolic interpretation into exact rational normal forms with indicator forms, path forking, loop fixpoints over written cells, witness sampling for refutation")

CLAIMS["C19"] = dict(
    category="other",
    text=("Decided on the values and effect traces of a symbolic interpretation of the load-stepping glue code (rules/C19_sym.py: exact rational "
          "functions over structured atoms -- uninterpreted applications, linear-operator atoms that distribute over sums, inverse-operator atoms, a "
          "non-commutative word algebra for D^T K D, sqrt atoms; heap objects with attribute stores and opaque-use events; every combination of "
          "boolean options and every try/except path is run; loops are summarised by one abstract iteration plus havoc): (D1) the warm start "
          "returns inv<H(x; p_old)>[J_k(x; p_old)[p_old_k - p_new_k]] for every parameter slot, so the increment is -H^-1 J_p (p_new - p_old) "
          "(operator, right-hand side and returned value are blamed separately); (D2) in all four drivers the parameters are current when the "
          "solver receives the objective and on return, and the warm start sees the old parameters; (D3) the start point is scaling*x0 plus "
          "exactly what the warm start returned, warm start and preconditioner update are evaluated at the scaled point, bounds are scaled, the "
          "exit is invScaling*(solver result); the scaled objective classes evaluate at invScaling*xBar, store invScaling = 1/scaling and the "
          "scaled preconditioner is the congruence D^T K D (roles found by value, never by name); (D4) param_index_update per slot, and the "
          "Objective's derivative closures and protocol methods, called after p was replaced, use the new p (a trace-time capture of self.p "
          "inside a jitted closure shows up as a stale atom). Accuracy of the CG solve and numerical equality of scaled/unscaled solutions are "
          "NOT decided. Values containing atoms the interpreter does not understand give UNDECIDED, never REFUTED."),
    design_ref="DESIGN.md section 4, C19",
    technique="static analysis: symbolic interpretation with effect traces (heap snapshots at opaque uses), exact rational / linear-operator / matrix-word normal forms, path enumeration over options and exception paths")

CLAIMS["C06"] = dict(
    category="other",
    text=("Decided on values obtained by interpreting each solver on symbolic vectors and scalars (rules/C06_sym.py, an extension of "
          "optilint.tensoreval with dimension-free values: scalars are exact rational functions with algebraic square-root atoms, vectors are "
          "linear combinations of symbols under words of symmetric operators (Hessian, preconditioner and its formal inverse, approximate "
          "Hessian), inner products expand into Gram atoms so every spelling of z.d is one value, eigh gives a mode vector and an orthogonal "
          "matrix with separate index spaces; every comparison forks the path and is remembered as a sign set; loops run from a generalised "
          "head state giving a base and a step; records, dicts, partial, dict dispatch, break/flag exits are executed): (D1) for each CG "
          "solver and inner-product mode the carried scalars that stand for <z,z>, <z,d>, <d,d> are found as the assignment under which a "
          "boundary exit has norm Delta; they hold on entry, zz' = zz + 2a zd + a^2 dd, the preconditioned updates follow the published "
          "recurrences with a, b, r' read from the values of the new iterate and direction, every boundary and negative-curvature exit has "
          "norm Delta under the right guard, a step is only taken under <d,Hd> > 0, the carried residual stays g + Hz, an interior exit returns a "
          "point whose own residual passed the tolerance; the public projection helpers by value; the call of the subspace CG against its "
          "contract; (D2) every dogleg return path is inside the region and on the path (identities, path facts, an intermediate-value "
          "argument along the Newton leg; refutations carry a numeric witness), the Cauchy point is c*(gradient given to the CG solver) with "
          "c <= 0; (D3) the hard-case step p + tau z has norm Delta with a non-vanishing denominator where p.z = 0, the initial multiplier is "
          "-lambda_min + offset with offset >= 0 (refuted on sample spectra), index-space typing of treigen.solve. The CG orthogonality "
          "relations behind the preconditioned recurrences are trusted; model decrease >= Cauchy decrease and optimality of the eigen solution "
          "are NOT decided. REFUTED only for a differing value, a definite sign or a witness; an unprovable bound is UNDECIDED."),
    design_ref="DESIGN.md section 4, C06 and section 11.8.3",
    technique="static analysis: abstract interpretation on dimension-free symbolic vectors (Gram atoms, operator words, algebraic square roots), path forking with sign sets, loop base/step generalisation; exact identities with numeric witnesses for refutation")

CLAIMS["C18"] = dict(
    category="proof",
    text=("Proof over the reals by exact normal-form identities: each function (min_base, zmax, smooth_linear, the friction "
          "potential) is lowered from source to a piecewise rational function; in every cell of its switching arrangement "
          "(exhaustive finite set of orderings, visited at rational representatives) the active piece satisfies the "
          "specification identity -- min_base: value == min outside the band and min - value == (|x-y|-eps)^2/(4 eps) inside "
          "(hence one-sided, tight to eps/4), symmetric; friction: arms mu t^2/(2 sReg) and mu(t - sReg/2), convexity and "
          "Coulomb-bound certificates -- and C0/C1 agreement holds on every switching surface; max/abs are the mirrored "
          "wrappers, checked against their own mirrored specification (not a return-expression template), and the value outside the band "
          "must be *selected*, not recomputed by cancelling arithmetic. Rounding within a switch is not modelled (assumes eps > safeTol, "
          "sReg > 0, 0 < l < 1/2). The corner distance is interpreted with the smoothed extrema kept symbolic: for either orientation it must "
          "be c*smin(c*a, c*b, w) with c = +-1, the same pairs for both orientations and w >= 0 (sign analysis). The functions are read by an "
          "abstract interpreter (rules/C18_pw.py) that inlines helpers / nested defs / lambdas with Python's argument binding and understands "
          "where / if_then_else / lax.cond / select / piecewise / IfExp / minimum / maximum / clip / abs / sign / masks-as-numbers, so "
          "refactorings of these kinds do not change the verdict; a callee it cannot read gives UNDECIDED, never REFUTED."),
    design_ref="DESIGN.md section 4, C18",
    technique="static analysis: extraction of piecewise rational functions from the AST, exact rational normal forms, GLUE (C0/C1) identities and certificate identities per cell")

CLAIMS["C15"] = dict(
    category="proof",
    text=("Exact identities between results of abstractly interpreting Mechanics.create_dynamics_functions and the closures it returns "
          "(rules/C15_model.py: DynSym, an extension of the C02 interpreter with try / match / with, dict dispatch, n-D gathers, batched matmul, "
          "decorators, lax.scan / fori_loop, classes; 3-element, 5-node, 2-quadrature-point mesh with independent symbols; material models and "
          "shape functions uninterpreted; jax.hessian recorded as requests): (D1) predict and correct on symbolic nodal arrays equal the "
          "Newmark update formulas U_{n+1} = U + dt V + dt^2[(1/2-beta)A + beta A_{n+1}], V_{n+1} = V + dt[(1-gamma)A + gamma A_{n+1}]; (D2/T7) the "
          "strain part of the algorithmic energy equals sum w*SE(specified gradient, Q, dt), the U-gradient of its inertia part equals "
          "M(U - U_pred)/(beta dt^2) with the consistent mass, the corrector's acceleration factor is 1/(beta dt^2), the function behind the "
          "element Hessians has the same strain part and inertia form and is differentiated w.r.t. U[conns[e]] with nothing else depending on U, "
          "compute_newmark_lagrangian agrees with the factory's energy, the output kinetic energy equals 1/2 rho sum w |N V|^2; (D2/T6) every "
          "closure that calls the material hands it the same gradients (for plane strain with projection degree 1 and axisymmetric with degree "
          "0; the deviating closure is named); (D2/T14) each mode gives [[grad u,0],[0,0]] resp. carries u_r/r in every closure and matches the "
          "statics factory. Comparisons of the Newmark parameters are decided at generic points of the stable range. Proofs are for the "
          "interpreted configuration. Energy conservation over histories, exact rigid translation and the mass sum are NOT decided. REFUTED "
          "only for an exactly derived difference; a kernel that fell back to an uninterpreted function gives UNDECIDED."),
    design_ref="DESIGN.md section 4, C15 and section 11.8",
    technique="static analysis: abstract interpretation of the dynamics factory on a symbolic small configuration with uninterpreted material functions and recorded differentiation requests; exact polynomial identities between results")

CLAIMS["C20"] = dict(
    category="other",
    text=("Decided by abstractly interpreting VTKWriter through its public API (rules/C20_interp.py, C20_eval.py, C20_ops.py, C20_np.py, "
          "C20_text.py: integers are exact polynomials over size symbols with sign reasoning, arrays are symbolic shapes with NumPy shape "
          "semantics, text is an abstract token sequence, lists / dicts / instances are heap objects with identity and a mutation log; counted "
          "loops with symbolic trip count are summarised by peeling two rounds and inductively verifying a linear extrapolation; a field dictionary "
          "holds entry classes): in 50 situations -- VTKWriter(mesh) for the element orders, add_sphere*, add_contact_edges*, add_*_field for each "
          "input shape and VTK data type, then write() twice -- the written file is read back with an abstract legacy-VTK grammar reader: (D2/T9) "
          "header lines, section order, no duplicate section, declared counts equal the lines and numbers written (POINTS, CELLS incl. its size "
          "entry, CELL_TYPES, POINT_DATA, CELL_DATA), sibling headers agree, every admitted field is written once with the right keyword, data "
          "type word and LOOKUP_TABLE and n x (1 / 3 / 9) numbers, the admission guards demand the section's count; (D2/T6) one padding record of "
          "the right width per extra point / cell for every field kind x data type, and default_values judged against the stored column "
          "layout; (D1) the second write() gives an identical abstract file and nothing reachable from the writer before write() is mutated. "
          "Numeric values, number formatting and whether connectivity ids refer to written points are NOT decided. REFUTED only for a derived "
          "contradiction (differing polynomials of independent sizes, a token where the grammar needs another, a NumPy call that would raise, a "
          "mutation that changes the second file); everything unmodelled is UNDECIDED."),
    design_ref="DESIGN.md section 4, C20 and section 11.8",
    technique="static analysis: abstract interpretation of the writer over symbolic sizes, symbolic array shapes and abstract text with a heap mutation log; inductively verified loop summaries; grammar-directed reading of the abstract output")

CLAIMS["C13"] = dict(
    category="other",
    text=("Decided on values obtained by interpreting the source (rules/C03_interp.py MeshInterp; rules/C13_io.py): (D1) the merge functions on "
          "dictionaries with symbolic members (same and distinct names, None, empty sets): the multiset of members is preserved modulo the node / "
          "element offset, combine_mesh on two meshes with different node and element counts is compared field by field; (D2) read_exodus_mesh on "
          "fake Exodus datasets (analyser-side objects answering dimensions / variables / records; three blocks, named and unnamed sets, with and "
          "without id map, a 6-node triangle file): every index record arrives zero-based exactly once, blocks are consecutive element ranges, "
          "the native 6-node order follows the parent element's own tables; read_json_mesh on a fake document; (D3) order elevation on four sample "
          "simplex meshes with symbolic vertex coordinates (orders 2..4, with and without bubble): connectivity in range and using every node, "
          "vertex numbering kept, every node at the affine image of its reference node (decides the shared-edge flip, offsets, stacking order and "
          "the interior-map convention at once), no duplicate nodes, copyNodeSets / createNodeSetsFromSideSets options; create_edges against its "
          "contract; the parent-element tables for degrees 1..5 by partial evaluation. Mesh-level facts are decided on the sample topologies and "
          "datasets (recorded as an assumption). Reading real files and floating-point coordinates are NOT decided. REFUTED only for derived "
          "facts (a member that is missing, a shift that is not -1, a node at the wrong place ...)."),
    design_ref="DESIGN.md section 4, C13 and section 11.8.2",
    technique="static analysis: abstract interpretation of the source on symbolic dictionaries, fake datasets and sample topologies with symbolic coordinates; exact identities; partial evaluation of the reference-element builders")

CLAIMS["C14"] = dict(
    category="other",
    text=("Proof by construction on the source of DofManager and the assembler, by symbolic interpretation over arrays of symbolic shape "
          "(index-set algebra, rules/dofalg.py): the constructor is interpreted for a symbolic mesh, number of fields and list of essential "
          "BCs; every attribute and every public method result is reduced to a closed normal-form term and compared with the term the "
          "property needs: isBc is all-False of field shape set True exactly at (nodeSets[bc.nodeSet], bc.component) of every BC; isUnknown "
          "is its complement; ids = arange(all dofs) in field shape; unknownIndices/bcIndices = ids selected by those masks; dofToUnknown = "
          "-1 everywhere, arange(number of unknowns) at the unknown dofs; create_field scatters Ubc/Uu with exactly the masks the getters "
          "gather with; sizes are the counts of the same masks (and add up to the number of dofs); slicing applies mask and map to the same "
          "slice; per element the Hessian coordinates are the unknown numbers of the element's unconstrained dofs tiled n times and the "
          "transposed tile, concatenated over all elements (n^2 entries each, array length = their sum), the Hessian mask block is "
          "outer_and(unknown flags, unknown flags) for the same connectivity, and the assembler pairs kValues.reshape(nEl, d, d)[mask] with "
          "those coordinates in an nUnknowns x nUnknowns matrix. Renamed locals, temporaries, extracted helpers, keyword arguments, loops "
          "over range/enumerate, list-append + concatenate, and equivalent NumPy idioms reduce to the same terms; an operation the "
          "interpreter does not model makes the obligation undecided (exit 2), never refuted. NumPy indexing semantics are modelled by the "
          "algebra's rewrite rules, not mechanised."),
    design_ref="DESIGN.md section 4, C14 and section 11.8",
    technique="static analysis: abstract (symbolic) interpretation of the source over an index-set term algebra with normal forms; comparison with specification terms")

CLAIMS["C08"] = dict(
    category="other",
    text=("Decides: (D1) for every model factory and every option combination (enumerated semantically: the factory is interpreted with a recording "
          "property dictionary that forks on every comparison, membership test, .get default and dict lookup by option value -- "
          "rules/materials.py, rules/C08_options.py -- so dict dispatch, match and guard clauses enumerate like if/elif chains) the energy "
          "closure, interpreted by constant propagation on the rest-state lattice (dual rational constants over positive material symbols, virgin "
          "state from the model's own initial state), has value exactly 0 and zero first variation in the three diagonal directions and the "
          "isotropic one; hardening energies vanish and flow stresses are positive at zero plastic strain; energies are dimensionally "
          "homogeneous under unit scaling of the named property keys; (D2) configuration-frame typing by interpreting the model factories and the closures of the public MaterialModel interface on frame-typed symbolic inputs (rules/frames.py: F : [spatial, reference], stored tensors P_k : [intermediate_k, reference] or [R, R] with the consistent typing inferred, matrix values as non-commutative polynomials in typed letters, spectral functions / expm / inverses of sums as fresh letters memoised on their argument, closed-form 3x3 helpers recognised by their value on a generic matrix, det(c1+W) expanded by Cayley-Hamilton; helpers, loops, comprehensions, NamedTuples, partial, lax.cond / where, .at[].set, hstack are followed, never matched): an energy built from invariants only is PROVED objective "
          "and isotropic; a spectral function / expm / selection applied to something that is not a tensor of one frame pair is REFUTED at that "
          "expression; when non-invariant atoms survive cancellation the derived expression is evaluated at pseudo-random tensors before and "
          "after rotating each frame -- a change is a witness (REFUTED), no change is UNDECIDED; the closed-form tensor helpers satisfy their "
          "polynomial identities on a generic symbolic matrix. Symmetry of the Kirchhoff stress follows from objectivity (not separately "
          "decided); evaluation inside compiled batches and accuracy over decades of strain are NOT decided."),
    design_ref="DESIGN.md section 4, C08 and section 11.8.5",
    technique="static analysis: abstract interpretation (constant propagation on a rest-state lattice of dual rational constants; frame-typed non-commutative polynomial values with rotation witnesses); semantic option enumeration; unit-scaling homogeneity")

CLAIMS["C09"] = dict(
    category="other",
    text=("Every obligation is an identity or sign statement about values obtained by interpreting the public model interface (rules/C09_sym.py: the "
          "factory and the closures it returns, for every kinematics option the factory itself distinguishes) on symbolic inputs, on every feasible "
          "path (both outcomes of every comparison the interpreter cannot decide, memoised on the normalised difference so that the same test "
          "elsewhere takes the same outcome); the scalar solve is a recorder that returns a symbolic root, spectral functions of non-diagonal "
          "tensors are opaque symmetric matrices interned on their argument, state-slot roles are found by use: (D1) isochoric -- on every path "
          "the plastic increment is traceless (additive: new - old; multiplicative: the argument A of new = exp(A) @ old), virgin state, update "
          "structure (a transposed or reversed product is named), the layout constants agree with the roles, the dummy flow direction below the "
          "degeneracy threshold cannot be reached while yielding (assumes yield strength / shear modulus >= 1e-6), frames of the update "
          "(rules/frames.py); (D2) irreversible -- the bracket handed to the root finder starts at the old equivalent plastic strain, the new "
          "value is the root, elastic paths leave the state unchanged, the yield test equals a positive multiple of minus the residual at the "
          "old state minus a non-negative tolerance, the residual is positive at the upper end (root-finder contract) for H > 0, H = 0, with and "
          "without rate sensitivity; (D3) variational wiring -- dW/d(eqps) of the exposed energy is a positive multiple of the residual "
          "(stationarity), for additive kinematics the energy is the same before and after the update is committed, the energy closure and the "
          "state update solve the same scalar equation on the same bracket for each kinematics option; dimensional homogeneity under unit "
          "scaling. Yield consistency to tolerance, minimality, idempotence as numbers and commit invariance for the multiplicative update on "
          "non-coaxial data are NOT decided. Unmodelled constructs give UNDECIDED."),
    design_ref="DESIGN.md section 4, C09 and section 11.8",
    technique="static analysis: abstract interpretation of the public model interface on symbolic inputs with exhaustive path exploration, a recording root finder, interned opaque spectral functions; exact rational identities and sign analysis")

CLAIMS["C11"] = dict(
    category="other",
    text=("The two viscoelastic factories are called by the abstract interpreter and the closures of the public MaterialModel interface are "
          "interpreted on generic symbolic inputs; only the inverse of a non-diagonal matrix, isotropic functions of a symmetric tensor and the matrix "
          "exponential are abstracted, each by a generic symbolic matrix memoised on its exact argument; roles are read off the values (a branch "
          "is a block of nine state entries, the increment A_b is the argument of the exponential multiplied with block b, the relaxed strain "
          "T_b = lim dt->inf A_b, factor f_b = A_b/T_b, W_eq the energy with all strain symbols zero): (D1) A_b is identically traceless; block b "
          "of the new state is exp(A_b) @ old block b with A_b built from the trial strain of block b only (a product with another block, or a "
          "determinant change for an explicit unimodular witness, is refuted); frames of the update (rules/frames.py); (D2) the reported "
          "dissipated energy is sum_b c_b q_b with c_b = G_b tau_b f_b^2/dt > 0; (D3) f_b = dt/(tau_b + dt), W - W_eq = sum_b G_b[(1-f_b)^2 + "
          "tau_b f_b^2/dt] q_b, so W(dt=0) = W_eq + sum G_b q_b and W - W_eq -> 0 as dt -> inf; dimensional homogeneity; the exact algebra of the "
          "shared eigen solver (rules/C12_eigen.py); (D4) every branch uses the modulus and the relaxation time of one branch suffix, different "
          "branches different suffixes, the public index constants address the property they name. Monotone decay of the stored energy over "
          "multi-step histories is numerical and NOT decided. An update factor with the right limits that is not dt/(tau+dt) is UNDECIDED."),
    design_ref="DESIGN.md section 4, C11 and section 11.8.5",
    technique="static analysis: abstract interpretation of the model factories on generic symbolic tensors with memoised opaque matrix functions, role inference from values, exact rational identities and limits in dt")

CLAIMS["C17"] = dict(
    category="other",
    text=("Decides by symbolic interpretation of the public find_root (rules/C17_sym.py, an extension of optilint.tensoreval: custom_root and "
          "while_loop act as recorders, the analysis then calls the recorded solver, loop body, loop guard and post-loop code itself; opaque user "
          "function f@x with derivative df@x; comparisons decided at one rational sample per situation, values kept symbolic and compared "
          "exactly; the loop carry may be a tuple, list, namedtuple, dict or any nesting and its slots are identified by role -- from the initial "
          "values, else by a def-use probe of the body -- never by name or position): the initial carry in 10 situations (sign change either way "
          "round, guess inside / below / above the bracket, no sign change, either end point an exact root): start from the guess clipped into the "
          "bracket, from NaN without a sign change, from an end point that is a root (converged set), bracket oriented so that its first end is "
          "where f < 0; one loop step in 11 situations (Newton admissible, leaving the bracket, converging too slowly with dx != dxOld, decreasing "
          "function, each tolerance alone, stagnating bisection / Newton steps): new iterate = x - f/f' or the midpoint, both step slots, bracket "
          "maintenance consistent with the orientation, residual slot = f(new iterate), counter + 1, convergence flag = stagnation | |dx| < x_tol | "
          "|F| < r_tol; the loop guard; the returned root is the loop's iterate masked by the loop's flag (NaN otherwise) and "
          "SolutionInfo.converged is that flag; the solver handed to custom_root depends on its own (F, X0) only and the tangent solve is y/G for "
          "linear g of slope +2 and -3; the root find_root returns is the value custom_root returns, unchanged and with derivative 1, for an interior "
          "root and for a root on either bracket end (post-processing outside custom_root is differentiated ordinarily; JAX's tie rule for "
          "clip / min / max is modelled); get_settings puts each parameter into the field of the same name and each tolerance reaches its own "
          "test. That the iteration reaches the tolerance and stays in the bracket for every function is trajectory dependent and NOT decided. "
          "A role guessed by behaviour only counts if the body then behaves exactly as specified, otherwise UNDECIDED; REFUTED only for derived values."),
    design_ref="DESIGN.md section 4, C17; section 11.8",
    technique="static analysis: abstract interpretation of the source on symbolic values with situation (region) sampling for branch decisions, role inference for loop-carry slots, exact rational identities")

CLAIMS["C16"] = dict(
    category="other",
    text=("Decided by abstractly interpreting the contact modules on small generic instances (rules/C16_sym.py, an extension of "
          "optilint.tensoreval with vmap / partial / lax.switch, cond, select, scan, fori_loop / namedtuple classes / broadcasting / boolean "
          "arrays / select, piecewise, argmin, argsort ... decided at the sample point; symbolic X, U and quadrature rule, opaque level set "
          "phi[x|y], distances D[g,c], mortar integrals M[..]); PROVED when normal forms are identical, REFUTED only when the two values differ "
          "numerically at the region's sample point (a concrete counterexample), UNDECIDED otherwise: (O1) the four edge-normal implementations "
          "evaluate to (t_y,-t_x)/|t|; (O2) the closest-point parameter is -v.(a-p)/v.v, cpp clamps it to [0,1], cpp_distance pairs t<0 with the first "
          "and t>1 with the second end point with the zero sign mapped to +1, in 11 regions per function plus samples next to every branch "
          "boundary found in the logged path conditions; the three Contact.py pipelines select the candidate of smallest absolute distance "
          "(opaque signed distances whose most negative candidate is not the nearest), including the two-closest-edges path into smooth_distance; "
          "(O3) every level-set constraint / penalty kernel evaluates the obstacle function at quadrature points of (edge coordinates + edge "
          "displacements) on three edges covering all local sides, the vmapped totals pass the same roles, the penalty energy equals "
          "k*|edge|*sum w*min(0,phi)^2 for the four sign patterns, integrate_values is interpreted; (O4) mortar weights by coefficient "
          "extraction with respect to the opaque integrand values over 4 overlap regions (average of both sides, smoothed end parameters of "
          "the own side, complete Gauss rule with >= 2 points, linear interpolation of xiA, xiB, g), smooth_linear by the contract proved under "
          "T7 (shared with C18); the assembled nodal field equals, node by node, the sum of the shape-function-weighted integrals (mortar "
          "integral as an opaque linear functional), segments are coords + disp. compute_intersection and the NaN switch in "
          "integrate_with_mortar are NOT decided; proofs are for the small generic instances."),
    design_ref="DESIGN.md section 4, C16 and section 11.8",
    technique="static analysis: abstract interpretation on small generic instances with region sampling (boundary-guided), opaque function atoms, coefficient extraction; exact normal-form comparison with numeric counterexamples for refutation")

CLAIMS["C12"] = dict(
    category="other",
    text=("Decides: (O1) polynomial identities of the closed-form 3x3 helpers for a generic symbolic matrix (det, trace, I2, "
          "detpIm1(A) = det(A+I)-1, inv(A)A = A inv(A) = I, deviator, sym/skw); (O2) symmetric_matrix_function is "
          "V diag(f(lam)) V^T with eigenvectors as columns, the eigen solver applies argsort(evals) to the eigenvalues and to the "
          "column axis, assembles values and vectors in the same order, and eigen_sym33_unit scales by the max norm, rescales the "
          "eigenvalues by the same factor and normalises each column by its own length; the scalar part of the eigen solver is lowered "
          "to exact rational normal forms: both degeneracy guards compare -J2 of the deviator with a negative semi-definite quadratic "
          "form of the input, the cubic argument is det(D)/2 (3/J2)^(3/2), the largest root is 2 sqrt(J2/3) cos(.) sign(.), the two "
          "deflated roots have the trace and determinant of the reduced 2x2 block for every value their sign factor can take, the mean "
          "is added back exactly once and the spherical branch returns (m,m,m) with an orthonormal triad; the literal coefficients of "
          "the cos(acos(x)/3) approximant satisfy 4c^3-3c=x to 1e-14 on a 1001-point grid (exact rational folding); (O3) every custom_jvp function has a rule "
          "whose primal output calls the decorated function and whose tangent helper gets the primal's scalar function, the divided "
          "difference falls back to the derivative exactly at equal eigenvalues, the tangent helper interpreted on generic symbolic data "
          "(f = x^3) equals V (h o V^T sym(Cdot) V) V^T for distinct, double and triple eigenvalues, the sqrt relative difference and "
          "the coefficients of the log Taylor series are proved algebraically and the remaining transcendental formulas are screened "
          "for counterexamples (refutation only). Accuracy over magnitudes, near degeneracy, "
          "and the LinAlg iterations are numerical and NOT decided."
          " All of these are read off values of a symbolic interpretation (rules/C12_sym.py, an extension of optilint.tensoreval: undecided comparisons "
          "become symbolic conditions in negation normal form, where / if_then_else / lax.cond become select atoms so that swapped branches with a negated "
          "test coincide, sign / abs / min / max / exp / log / pow / norms are opaque function atoms, argsort / sort / take give symbolic permutation and "
          "gather objects; the eigen solver is interpreted without hypothesis, in the general and in the spherical branch, rules/C12_eigen.py; custom_jvp "
          "registrations are read as values and the tangent helper is found dynamically -- the function on the interpreter's stack at the eigen "
          "decomposition whose arguments carry one callable of one scalar and one of two, roles read by value through tuples / NamedTuples / dicts / "
          "partial, rules/C12_jvp.py; each rule's relative difference is compared with its own scalar function, exactly for sqrt and by "
          "sample-point refutation for exp / log / pow), not off "
          "statement shapes: renames, helper extraction, keyword arguments, hoisted predicates, De Morgan and def/lambda changes do not matter; sign "
          "conventions are fixed at sample points on top of exact squared identities; an idiom that is not modelled gives UNDECIDED."),
    design_ref="DESIGN.md section 4, C12 and section 11.8",
    technique="static analysis: exact rational normal forms of the straight-line eigen solver (polynomial identities, definiteness of quadratic forms, finite sign-range case split), abstract interpretation on generic symbolic data, constant folding of literal tables, role/permutation rules, custom_jvp protocol checking")

CLAIMS["C10"] = dict(
    category="other",
    text=("Decides the derivative wiring only: every custom_jvp rule computes its primal output by calling the decorated function and "
          "differentiates the same scalar function as the primal; safe_sqrt's rule is v*(0 if x<=0 else 0.5/safe_sqrt(x)); the "
          "closed-form helpers autodiff differentiates through satisfy their identities; find_root is custom_root with tangent solve "
          "y/g(1); the Lagrangian adapter and all value_and_grad / hessian sites of Mechanics are interpreted with marked arguments (stress outputs "
          "differentiate w.r.t. the displacement gradient, the element stiffness w.r.t. the element nodal field; argnums= handled); "
          "ScalarRootFind.get_settings fills its fields by name; on interpreted values the flow stress equals d(hardening energy)/d(eqps) (a "
          "rate-sensitive case distinguishes the old plastic strain), the plastic residual is the derivative of the incremental potential w.r.t. "
          "eqps (C09's stationarity test), and J2's hardening slots match HardeningModel (values at zero strain, d(yield threshold)/ds0); no function in the call cone of any material energy density or "
          "mechanics factory (226 scopes) calls stop_gradient or carries a hand-written derivative rule other than the verified ones. Agreement of delivered derivatives with finite differences is "
          "numerical and NOT decided."),
    design_ref="DESIGN.md section 4, C10",
    technique="static analysis: custom_jvp/custom_root protocol checking, derivative-slot agreement, who-may-call rule over the energy-density call cone, polynomial identity checking")

CLAIMS["C03"] = dict(
    category="other",
    text=("Every clause is decided on values obtained by interpreting the library's source (rules/C03_interp.py, MeshInterp: an extension of "
          "optilint.tensoreval with NumPy indexing / broadcasting / stack, sort, unique, einsum, det, inv, exact solve ... semantics, vmap with "
          "in_axes, partial, _replace, classes, loops and exceptions; strict: an unmodelled operation aborts => UNDECIDED): (a) compute_shapes "
          "dispatches to the right shape routine with the right arguments; (b, c, e) on generic order-2 elements (plain and bubble) with symbolic "
          "reference shape tables the factory and the three element kernels give vols = det(dx/dxi) w_q [2 pi sum_n N_qn r_n in axisymmetric mode] "
          "and mapped gradients with g . dx/dxi = dN (one identity that covers axis typing and 'same affine map'), block integration with an opaque "
          "kernel, hoop strain entries; order elevation on four sample simplex meshes (concrete connectivity with shared edges in several local-side "
          "pairings and rotated vertex orders, symbolic vertex coordinates, orders 2..4 with and without bubble): connectivity in range and using "
          "every node, vertex numbering kept, node k of every element at the affine image of reference node k (this is 'neighbours share edge nodes "
          "in matching order'), no duplicates; the parent-element tables for degrees 1..5 by partial evaluation against the geometric "
          "specification; (d) the four edge-normal siblings; (f) the triangle quadrature rule for every integer degree against the exact monomial "
          "moments and the 1D rule against an opaque Gauss-Legendre provider or the moments on [0,1]; (g) the edge integral with opaque 1D shape "
          "functions and integrand, role by role; create_edges against its contract. Mesh-level facts are decided on the sample topologies "
          "(recorded as an assumption), not for every mesh. REFUTED only for derived facts (a node number, a failing coordinate identity, a "
          "singular Jacobian ...)."),
    design_ref="DESIGN.md section 4, C03 and section 11.8.2",
    technique="static analysis: abstract interpretation of the source on generic elements and sample topologies with symbolic coordinates; exact rational identities; partial evaluation of the reference-element builders")


def main():
    props = [json.loads(l) for l in open(os.path.join(VERIF, "properties.jsonl"))]
    ids = [p["id"] for p in props]
    checks = []
    for pid in ids:
        if pid not in CLAIMS:
            continue
        c = CLAIMS[pid]
        checks.append({
            "property_id": pid,
            "quick_cmd": f"./check {pid} --tier quick",
            "thorough_cmd": f"./check {pid} --tier thorough",
            "evidence_file": f"/verif/evidence/{pid}.json",
            "replay_cmd_template": f"./check {pid} --replay {{path}}",
            "engine": "optilint",
            "level_claimed": {"category": c["category"], "text": c["text"], "design_ref": c["design_ref"]},
            "level_note": c.get("note", TRUST),
            "technique": c["technique"],
        })
    na = []
    for pid in ids:
        if pid in CLAIMS:
            continue
        na.append({"property_id": pid,
                   "reason": NA.get(pid, "check not built yet in this session; no claim is made (static rules for this property are designed in DESIGN.md section 4 but not yet implemented)")})
    m = {
        "version": 1,
        "setup_cmd": "/venv/bin/python -B -c \"import sys; sys.path.insert(0,'/verif'); import optilint.main, optilint.selftest\"",
        "hooks": {
            "guard": "OPTIMISM_VERIF",
            "enable": "none needed: the checks read /repo's source text and never import or run it; no instrumentation commits exist",
            "baseline_off_cmd": "cd /repo && /venv/bin/python -m pytest -ra -q -p no:cacheprovider --timeout=900 --continue-on-collection-errors",
            "source_commits": [],
            "add_only": True,
        },
        "engines": [{
            "name": "optilint",
            "path": "/verif/optilint",
            "serves_properties": sorted(CLAIMS),
            "kind_free_text": ("repository-specific static analyser over python ast: name/callee resolver with transparent jax "
                               "wrappers and higher-order flow into callback slots, call graph, statement CFG with dominators / "
                               "reaching definitions / edge facts, link checker, expression normal forms, rule templates; "
                               "three-valued obligations (PROVED/REFUTED/UNDECIDED), exit 0/1/2"),
        }],
        "checks": checks,
        "not_applicable": na,
        "notes": ("Technique family: static analysis only. Every check parses /repo's current working tree on every run; "
                  "nothing under /repo is imported or executed. Exit 2 means analysis incomplete (anchor vanished / idiom "
                  "not understood) and never prints a VIOLATION line. Thorough tier additionally runs the in-memory "
                  "variant self-test (violating variants must be reported, preserving variants must stay silent)."),
    }
    with open(os.path.join(VERIF, "MANIFEST.json"), "w") as f:
        json.dump(m, f, indent=1)
    print(f"MANIFEST: {len(checks)} checks, {len(na)} not_applicable")


if __name__ == "__main__":
    main()
