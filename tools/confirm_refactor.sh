#!/bin/sh
# usage: tools/confirm_refactor.sh <prop> <refdir> <id>
# Confirms a behaviour-preserving refactoring (made by an independent sub-agent) in a scratch worktree of /repo HEAD:
# the patch applies, compiles, and the 185-test baseline still passes.  Stores /verif/preserving/<id>/{patch.diff,notes.md,meta.json}.
PROP="$1"; MD="$2"; SID="$3"
WT=/tmp/cf/$SID
rm -rf "$WT"; mkdir -p /tmp/cf
git -C /repo worktree add -q --detach "$WT" HEAD || exit 3
cleanup() { git -C /repo worktree remove --force "$WT" 2>/dev/null; rm -f /tmp/cf/$SID.*; }
cd "$WT"
if ! git apply "$MD/patch.diff"; then echo "RESULT $SID: patch does not apply to /repo HEAD"; cleanup; exit 4; fi
/venv/bin/python -c "import ast,sys,subprocess; [ast.parse(open(f).read()) for f in subprocess.check_output(['git','diff','--name-only']).decode().split() if f.endswith('.py')]" || { echo "RESULT $SID: does not compile"; cleanup; exit 5; }
BASE=$(/verif/tools/baseline.sh "$WT" /tmp/cf/$SID.base.log | tail -1)
echo "RESULT $SID: $BASE"
case "$BASE" in *"passed 185 of 185"*)
  mkdir -p /verif/preserving/$SID
  cp "$MD/patch.diff" /verif/preserving/$SID/
  [ -f "$MD/notes.md" ] && cp "$MD/notes.md" /verif/preserving/$SID/notes.md
  FILES=$(git diff --name-only | tr '\n' ' ')
  /venv/bin/python - "$PROP" "$SID" "$FILES" "$BASE" <<'PY'
import json, sys
prop, sid, files, base = sys.argv[1:5]
json.dump({"property": prop, "id": sid, "files_changed": files.split(), "kind": "behaviour-preserving refactoring (the check of the property must stay silent)",
           "confirmed": {"baseline": base, "worktree": "scratch git worktree of /repo HEAD under /tmp/cf (removed afterwards)",
                         "agent_evidence": "see notes.md: tests run and bit-for-bit numerical spot checks by the sub-agent"},
           "origin": "independent sub-agent given only the property text and a scratch worktree"}, open(f"/verif/preserving/{sid}/meta.json", "w"), indent=1)
PY
  echo "KEPT $SID";;
*) echo "DROPPED $SID";;
esac
cleanup
