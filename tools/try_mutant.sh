#!/bin/sh
# usage: tools/try_mutant.sh <patch.diff> <prop> [more props]   -- applies to /repo, runs checks, reverts
P="$1"; shift
git -C /repo apply "$P" || { echo "PATCH DOES NOT APPLY"; exit 3; }
for c in "$@"; do /verif/check $c --no-write | grep -E "^(VIOLATION|REFUTED|ANALYSIS|== .*exit)" | cut -c1-400; done
git -C /repo checkout -- .; git -C /repo clean -fdq -- optimism
git -C /repo status --short | head -3
