#!/bin/sh
# usage: tools/confirm_mutant.sh <prop> <mutdir> <seed-id>
# Confirms a seeded change in a scratch worktree of /repo HEAD (outside /repo and /verif):
#   demo passes on the clean tree, patch applies, demo fails with the patch, the 185-test baseline still passes.
# On success stores /verif/seeded/<seed-id>/{patch.diff,demo.py,meta.json}.  The worktree is removed afterwards.
PROP="$1"; MD="$2"; SID="$3"
WT=/tmp/cf/$SID
rm -rf "$WT"; mkdir -p /tmp/cf
git -C /repo worktree add -q --detach "$WT" HEAD || exit 3
cleanup() { git -C /repo worktree remove --force "$WT" 2>/dev/null; rm -f /tmp/cf/$SID.*; }
cd "$WT"
PYTHONPATH=/tmp/stub:$WT timeout 900 /venv/bin/python "$MD/demo.py" > /tmp/cf/$SID.clean.out 2>&1; RC_CLEAN=$?
if ! git apply "$MD/patch.diff"; then echo "RESULT $SID: patch does not apply to /repo HEAD"; cleanup; exit 4; fi
/venv/bin/python -c "import ast,sys,subprocess; [ast.parse(open(f).read()) for f in subprocess.check_output(['git','diff','--name-only']).decode().split() if f.endswith('.py')]" || { echo "RESULT $SID: does not compile"; cleanup; exit 5; }
PYTHONPATH=/tmp/stub:$WT timeout 900 /venv/bin/python "$MD/demo.py" > /tmp/cf/$SID.mut.out 2>&1; RC_MUT=$?
BASE=$(/verif/tools/baseline.sh "$WT" /tmp/cf/$SID.base.log | tail -1)
echo "RESULT $SID: demo clean rc=$RC_CLEAN mutant rc=$RC_MUT ; $BASE"
case "$BASE" in *"passed 185 of 185"*) BOK=1;; *) BOK=0;; esac
if [ "$RC_CLEAN" = 0 ] && [ "$RC_MUT" != 0 ] && [ "$BOK" = 1 ]; then
  mkdir -p /verif/seeded/$SID
  cp "$MD/patch.diff" "$MD/demo.py" /verif/seeded/$SID/
  [ -f "$MD/notes.md" ] && cp "$MD/notes.md" /verif/seeded/$SID/notes.md
  FILES=$(git diff --name-only | tr '\n' ' ')
  /venv/bin/python - "$PROP" "$SID" "$FILES" "$RC_CLEAN" "$RC_MUT" "$BASE" <<'PY'
import json, sys, re
prop, sid, files, rcc, rcm, base = sys.argv[1:7]
notes = ""
try:
    notes = open(f"/verif/seeded/{sid}/notes.md").read()
except OSError:
    pass
needs = ""
m = re.search(r"(?is)(what it needs[^\n]*\n.*?)(\n#|\n\*\*|\Z)", notes)
if m:
    needs = " ".join(m.group(1).split())[:600]
meta = {"property": prop, "id": sid, "files_changed": files.split(),
        "breaks": f"property {prop} (see notes.md for the clause)",
        "needs_to_manifest": needs or "see notes.md",
        "confirmed": {"worktree": "scratch git worktree of /repo HEAD under /tmp/cf (removed afterwards)",
                      "demo_clean_rc": int(rcc), "demo_mutant_rc": int(rcm),
                      "demo_cmd": "PYTHONPATH=/tmp/stub:<tree> /venv/bin/python demo.py  (the sksparse stub is only needed for solver modules)",
                      "baseline": base,
                      "baseline_cmd": "tools/baseline.sh <tree> <log>  (pytest -n 6, compared with /root/.vp/BASELINE.json stable_pass)"},
        "origin": "independent sub-agent given only the property text and a scratch worktree"}
json.dump(meta, open(f"/verif/seeded/{sid}/meta.json", "w"), indent=1)
PY
  echo "KEPT $SID"
else
  echo "DROPPED $SID"
fi
cleanup
