#!/bin/sh
# usage: tools/baseline.sh <tree> <logfile>
# Runs the repository's test suite of <tree> (xdist, 6 workers) and reports how many of the 185
# baseline tests (/root/.vp/BASELINE.json stable_pass) passed.  Used to confirm fix: commits and
# seeded mutants; never part of a registered check.
TREE="$1"; LOG="$2"
cd "$TREE" && PYTHONPATH="$TREE" /venv/bin/python -m pytest -q -p no:cacheprovider --timeout=900 --continue-on-collection-errors -n 6 --dist loadfile --junitxml="$LOG.xml" > "$LOG" 2>&1
/venv/bin/python - "$LOG.xml" <<'PY'
import sys, json, xml.etree.ElementTree as ET
base=set(json.load(open('/root/.vp/BASELINE.json'))['stable_pass'])
t=ET.parse(sys.argv[1]); ok=set()
for tc in t.iter('testcase'):
    if not any(ch.tag in('failure','error','skipped') for ch in tc):
        ok.add(tc.get('classname')+'::'+tc.get('name'))
missing=sorted(base-ok)
print('baseline passed', len(base&ok), 'of', len(base), 'missing', missing[:10])
PY
