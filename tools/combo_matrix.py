#!/usr/bin/env python3
"""Every seeded change applied ON TOP of every kept refactoring of the same property (where both patches apply): the check must still report it.
Scratch trees under /tmp (removed), OPTILINT_REPO; /repo is not touched.  Prints one line per applicable combination; seeded/COMBO_MATRIX.json holds the summary of the last run."""
import os, subprocess, sys, shutil, glob, json
from concurrent.futures import ThreadPoolExecutor
V="/verif"
def job(args):
    prop, r, m = args
    wt = f"/tmp/combo_cw_{prop}_{r}_{m}"
    shutil.rmtree(wt, ignore_errors=True); os.makedirs(wt)
    try:
        subprocess.run(f"git -C /repo archive HEAD | tar -x -C {wt}", shell=True, check=True)
        a = subprocess.run(["git","apply",f"{V}/preserving/{prop}-{r}/patch.diff"], cwd=wt, capture_output=True, text=True)
        if a.returncode: return prop, r, m, "ref-noapply", ""
        b = subprocess.run(["git","apply",f"{V}/seeded/{prop}-{m}/patch.diff"], cwd=wt, capture_output=True, text=True)
        if b.returncode: return prop, r, m, "mut-noapply", ""
        meta = json.load(open(f"{V}/seeded/{prop}-{m}/meta.json"))
        props = [prop] + list(meta.get("also_check", []))
        outs = []
        for p in props:
            c = subprocess.run([V+"/check", p, "--no-write"], capture_output=True, text=True, env=dict(os.environ, OPTILINT_REPO=wt))
            outs.append(c.returncode)
        first = ""
        return prop, r, m, "exits " + ",".join(map(str, outs)), first
    finally:
        shutil.rmtree(wt, ignore_errors=True)
jobs=[]
for i in range(1,21):
    prop=f"C{i:02d}"
    for r in [f"r{k}" for k in range(1,10)]:
        for m in [f"m{k}" for k in range(1,7)]:
            if os.path.isdir(f"{V}/preserving/{prop}-{r}") and os.path.isdir(f"{V}/seeded/{prop}-{m}"):
                jobs.append((prop,r,m))
with ThreadPoolExecutor(max_workers=12) as ex:
    for prop, r, m, res, first in ex.map(job, jobs):
        if res.endswith("noapply"): continue
        print(prop, r, m, res); sys.stdout.flush()
